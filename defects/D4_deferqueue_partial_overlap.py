"""D4 (C16/C02): DeferQueue.request_writes decides by start offset only.
A re-delivered chunk that starts inside the written prefix (or at an already queued
offset) but extends past it is dropped whole: bytes are lost, later offsets stay
queued forever and the download still 'succeeds'.
Run: /venv/bin/python /verif/defects/D4_deferqueue_partial_overlap.py (exit 0 = correct)
"""
import sys
from s3transfer.download import DeferQueue

def run(history, total):
    q = DeferQueue(); out = bytearray(); pos = 0; ok = True
    for off, data in history:
        for w in q.request_writes(off, data):
            if w['offset'] != pos:
                ok = False
            out += w['data']; pos += len(w['data'])
    return bytes(out), ok

obj = b'0123456789abcdefghij'
histories = {
 'retry extends past the written prefix': [(0, obj[0:6]), (0, obj[0:10]), (10, obj[10:20])],
 'retry longer than the queued chunk at the same offset': [(10, obj[10:14]), (10, obj[10:20]), (0, obj[0:10])],
 'retry re-cuts chunks over queued data': [(10, obj[10:14]), (14, obj[14:20]), (10, obj[10:16]), (16, obj[16:20]), (0, obj[0:10])],
}
bad = 0
for name, h in histories.items():
    got, ordered = run(h, len(obj))
    good = got == obj and ordered
    print(('ok    ' if good else 'DEFECT'), name, '->', got)
    bad += not good
sys.exit(1 if bad else 0)
