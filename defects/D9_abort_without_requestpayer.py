"""D9 (C15): RequestPayer / ExpectedBucketOwner are accepted and AbortMultipartUpload has
parameters of those names, but the abort registered by CreateMultipartUploadTask (upload and
copy) does not carry them; on a requester-pays bucket the abort is refused and the upload is
orphaned.  (Legacy uploader: same for abort, and complete lacks RequestPayer/SSECustomer*.)
Run: /venv/bin/python /verif/defects/D9_abort_without_requestpayer.py (exit 0 = forwarded)
"""
import io, sys
from unittest import mock
from s3transfer.manager import TransferManager, TransferConfig

client = mock.Mock()
client.meta.config.request_checksum_calculation = 'when_required'
client.create_multipart_upload.return_value = {'UploadId': 'uid'}
client.upload_part.side_effect = RuntimeError('part failed')
cfg = TransferConfig(multipart_threshold=5 * 1024 * 1024, multipart_chunksize=5 * 1024 * 1024)
with TransferManager(client, cfg) as m:
    f = m.upload(io.BytesIO(b'x' * (6 * 1024 * 1024)), 'b', 'k', extra_args={'RequestPayer': 'requester', 'ExpectedBucketOwner': '111122223333'})
    try:
        f.result()
    except Exception as e:
        print('upload failed as injected:', e)
print('create :', {k: v for k, v in client.create_multipart_upload.call_args.kwargs.items()})
print('abort  :', client.abort_multipart_upload.call_args.kwargs)
ok = all(k in client.abort_multipart_upload.call_args.kwargs for k in ('RequestPayer', 'ExpectedBucketOwner'))
sys.exit(0 if ok else 1)
