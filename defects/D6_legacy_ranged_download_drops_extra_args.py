"""D6 (C15): legacy S3Transfer.download_file above the multipart threshold drops every
extra argument (VersionId, SSECustomer*, RequestPayer) from the ranged get_object calls.
Run: /venv/bin/python /verif/defects/D6_legacy_ranged_download_drops_extra_args.py (exit 0 = forwarded)
"""
import io, os, sys, tempfile
from unittest import mock
from s3transfer import S3Transfer, TransferConfig

client = mock.Mock()
client.head_object.return_value = {'ContentLength': 20}
client.get_object.side_effect = lambda **kw: {'Body': io.BytesIO(b'x' * 10)}
cfg = TransferConfig(multipart_threshold=10, multipart_chunksize=10, max_concurrency=1)
d = tempfile.mkdtemp()
extra = {'VersionId': 'v1', 'SSECustomerKey': 'k', 'SSECustomerAlgorithm': 'AES256', 'RequestPayer': 'requester'}
S3Transfer(client, cfg).download_file('b', 'k', os.path.join(d, 'out'), extra_args=extra)
print('head_object :', client.head_object.call_args.kwargs)
bad = 0
for c in client.get_object.call_args_list:
    print('get_object  :', c.kwargs)
    bad += any(k not in c.kwargs for k in extra)
os.remove(os.path.join(d, 'out')); os.rmdir(d)
sys.exit(1 if bad else 0)
