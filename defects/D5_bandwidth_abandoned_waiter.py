"""D5 (C13): a throttled stream whose transfer fails/cancels while its request is scheduled
leaves the token in the ConsumptionScheduler; _total_wait never shrinks, so every later
throttled read of the manager waits that much longer, forever.
Run: /venv/bin/python /verif/defects/D5_bandwidth_abandoned_waiter.py (exit 0 = correct)
"""
import sys
from s3transfer.bandwidth import BandwidthLimitedStream, LeakyBucket, RequestExceededException
from s3transfer.futures import TransferCoordinator

class Clock:
    def __init__(self): self.t = 0.0
    def time(self): return self.t
    def sleep(self, v): self.t += v
class Src:
    def read(self, n): return b'x' * n
    def close(self): pass

clock = Clock()
bucket = LeakyBucket(100, time_utils=clock)   # 100 B/s
bucket.consume(1, object())                      # first consumption initialises the tracker
dead = TransferCoordinator()
class FailOnSleep(Clock):
    def time(self): return clock.time()
    def sleep(self, v):
        dead.set_exception(RuntimeError('transfer failed while waiting'))   # fails during the wait
s1 = BandwidthLimitedStream(Src(), bucket, dead, FailOnSleep(), bytes_threshold=1)
try:
    s1.read(1000)    # 1000 B at 100 B/s: scheduled to wait 10 s, transfer dies meanwhile
except RuntimeError as e:
    print('abandoned waiter raised:', e)
sched = bucket._consumption_scheduler
print('scheduler after the abandoned waiter: total_wait=%.2f tokens=%d' % (sched._total_wait, len(sched._tokens_to_scheduled_consumption)))
try:
    bucket.consume(1000, object())
    print('a fresh request was admitted')
except RequestExceededException as e:
    print('a fresh 1000-byte request is told to wait %.2f s (its own share is 10.00 s)' % e.retry_time)
    sys.exit(0 if e.retry_time <= 10.01 else 1)
sys.exit(0)
