"""D1 (C07): TransferManager.shutdown(cancel=True, cancel_msg=m) with a live transfer.
Expected: transfer ends with CancelledError(m).  Defect: TypeError, nothing cancelled.
Run: /venv/bin/python /verif/defects/D1_shutdown_args.py   (exit 0 = correct behaviour)
"""
import sys, threading
from unittest import mock
from s3transfer.manager import TransferManager
from s3transfer.exceptions import CancelledError

release = threading.Event()
client = mock.Mock()
client.meta.config.request_checksum_calculation = 'when_required'
def put_object(**kw):
    release.wait(5)
    return {}
client.put_object = put_object
import io
m = TransferManager(client)
fut = m.upload(io.BytesIO(b'x' * 10), 'b', 'k')
ok = True
try:
    m.shutdown(cancel=True, cancel_msg='bye')
except TypeError as e:
    print('DEFECT: shutdown raised', type(e).__name__, e)
    ok = False
finally:
    release.set()
try:
    fut.result()
    print('result: success (transfer was not cancelled)')
    ok = False
except CancelledError as e:
    print('result: CancelledError', e)
    ok = ok and str(e) == 'bye'
except Exception as e:
    print('result:', type(e).__name__, e)
    ok = False
m._shutdown(False, '')
sys.exit(0 if ok else 1)
