"""D8 (C05): legacy MultipartUploader.upload_file - a failing complete_multipart_upload
leaves the multipart upload open (abort is never issued).
Run: /venv/bin/python /verif/defects/D8_legacy_complete_not_aborted.py (exit 0 = upload aborted)
"""
import os, sys, tempfile
from unittest import mock
from s3transfer import MultipartUploader, TransferConfig, OSUtils

client = mock.Mock()
client.create_multipart_upload.return_value = {'UploadId': 'uid-1'}
client.upload_part.return_value = {'ETag': 'e'}
client.complete_multipart_upload.side_effect = RuntimeError('complete failed (e.g. connection reset)')
with tempfile.NamedTemporaryFile(delete=False) as f:
    f.write(b'x' * (6 * 1024 * 1024))
cfg = TransferConfig(multipart_chunksize=5 * 1024 * 1024)
try:
    MultipartUploader(client, cfg, OSUtils()).upload_file(f.name, 'b', 'k', None, {})
except Exception as e:
    print('upload_file raised', type(e).__name__, e)
finally:
    os.remove(f.name)
print('abort_multipart_upload calls:', client.abort_multipart_upload.call_args_list)
sys.exit(0 if client.abort_multipart_upload.called else 1)
