"""D10 (C13): a zero time delta records an infinite rate, and an infinite moving average never decays.

BandwidthRateTracker._calculate_rate returns float('inf') when no time has passed since the last
recorded consumption.  get_projected_rate uses that to say "this would exceed the limit" (fine), but
record_consumption_rate stores alpha*inf + (1-alpha)*current = inf into _current_rate, and from then on
every projection is alpha*new + (1-alpha)*inf = inf > max_rate: every later consume() is scheduled and
delayed, however far below the limit the demand is - for the rest of the manager's life.

The recording path is reached with a zero delta through the release of a *scheduled* request
(LeakyBucket._release_requested_amt_for_scheduled_request does not look at the projected rate): two
throttled streams that wake up and re-consume within one clock reading.

History (real LeakyBucket / BandwidthRateTracker / ConsumptionScheduler, injected clock):
  t=0   consume(1)            first consumption: rate 0
  t=1   consume(200, A)       over the limit of 100 B/s -> scheduled
  t=1   consume(200, B)       scheduled
  t=5   consume(200, A)       scheduled release; recorded
  t=5   consume(200, B)       scheduled release at the SAME clock reading -> rate becomes inf
  t=1000 consume(1, C)        1 byte after 995 idle seconds: must be granted at once
Exit 0 when the last consume is granted, 1 when it is throttled.
"""
import sys

from s3transfer.bandwidth import LeakyBucket, RequestExceededException, RequestToken


class Clock:
    def __init__(self):
        self.now = 0.0

    def time(self):
        return self.now

    def sleep(self, t):
        self.now += t


def main():
    clock = Clock()
    bucket = LeakyBucket(100, time_utils=clock)
    a, b, c = RequestToken(), RequestToken(), RequestToken()
    bucket.consume(1, RequestToken())
    clock.now = 1.0
    for tok in (a, b):
        try:
            bucket.consume(200, tok)
            print('unexpected: a request over the limit was granted')
            return 2
        except RequestExceededException:
            pass
    clock.now = 5.0
    bucket.consume(200, a)
    bucket.consume(200, b)
    rate = bucket._rate_tracker.current_rate
    clock.now = 1000.0
    try:
        bucket.consume(1, c)
    except RequestExceededException as e:
        print(f'D10: after two releases at one clock reading the tracked rate is {rate}; 995 idle seconds later a 1-byte read '
              f'against a 100 B/s limit is throttled (retry_time={e.retry_time}) - and every later one will be')
        return 1
    print(f'ok: tracked rate {rate}; the 1-byte read after 995 idle seconds was granted at once')
    return 0


if __name__ == '__main__':
    sys.exit(main())
