"""D2 (C04/C08): cancel() of a not-yet-started transfer runs on_done while holding the
coordinator's non-reentrant state lock; an on_done subscriber that calls
future.set_exception()/future.cancel() (allowed by C04) blocks forever.
Run: /venv/bin/python /verif/defects/D2_cancel_reentrant_deadlock.py  (exit 0 = correct)
"""
import sys, threading
from s3transfer.futures import TransferCoordinator, TransferFuture, TransferMeta

coord = TransferCoordinator(transfer_id=1)
future = TransferFuture(TransferMeta(), coord)
log = []
def on_done():
    log.append('on_done: calling future.set_exception')
    future.set_exception(ValueError('replaced by subscriber'))
    log.append('on_done: calling future.cancel')
    future.cancel()
    log.append('on_done: returned')
coord.add_done_callback(on_done)
t = threading.Thread(target=future.cancel, daemon=True)
t.start(); t.join(3)
print('\n'.join(log))
if t.is_alive():
    print('DEFECT: cancel() is stuck (deadlock on the coordinator state lock)')
    sys.exit(1)
try:
    future.result()
except ValueError as e:
    print('result raises the subscriber-supplied exception:', e)
    sys.exit(0)
print('unexpected outcome'); sys.exit(1)
