"""D3 (C02/C16): single-GET download to a non-seekable stream with one retryable
stream error after the first chunk: bytes delivered before the error are written
twice and the future still succeeds.
Run: /venv/bin/python /verif/defects/D3_immediate_write_nonseekable_retry.py (exit 0 = correct)
"""
import sys
from unittest import mock
from botocore.exceptions import IncompleteReadError
from s3transfer.manager import TransferManager, TransferConfig

OBJ = bytes(range(30))
class Body:
    def __init__(self, data, fail_after=None):
        self.data, self.pos, self.fail_after = data, 0, fail_after
    def read(self, n):
        if self.fail_after is not None and self.pos >= self.fail_after:
            raise IncompleteReadError(actual_bytes=self.pos, expected_bytes=len(self.data))
        out = self.data[self.pos:self.pos + n]; self.pos += len(out); return out
class Sink:  # non-seekable
    def __init__(self): self.buf = bytearray()
    def write(self, b): self.buf += b
client = mock.Mock()
client.meta.config.request_checksum_calculation = 'when_required'
client.head_object.return_value = {'ContentLength': len(OBJ)}
client.get_object.side_effect = [{'Body': Body(OBJ, fail_after=10)}, {'Body': Body(OBJ)}]
sink = Sink()
with TransferManager(client, TransferConfig(io_chunksize=10)) as m:
    f = m.download('b', 'k', sink)
    print('result:', f.result())
print('destination holds', len(sink.buf), 'bytes; expected', len(OBJ))
sys.exit(0 if bytes(sink.buf) == OBJ else 1)
