#!/bin/sh
# tools/confirm_seeded.sh C07 A [C] : confirm a sub-agent change (/tmp/wt/C07_out/A) in its scratch worktree and file it under
# /verif/seeded/C07-A (or C07-C when a third argument names the slot: round 2 uses C and D)
ID=$1; X=$2; Y=${3:-$2}; WT=/tmp/wt/$ID; OUT=/tmp/wt/${ID}_out/$X; DEST=/verif/seeded/$ID-$Y
[ -f $OUT/patch.diff ] || { echo "no patch"; exit 2; }
cd $WT || exit 2
git checkout -q -- . ; git status --short | grep -v '^??' | head -3
PYTHONPATH=$WT timeout 120 /venv/bin/python $OUT/demo.py >/tmp/wt/demo_clean.log 2>&1; c0=$?
git apply $OUT/patch.diff || { echo "patch does not apply"; exit 2; }
PYTHONPATH=$WT timeout 120 /venv/bin/python $OUT/demo.py >/tmp/wt/demo_mut.log 2>&1; c1=$?
t=$(PYTHONPATH=$WT /venv/bin/python -m pytest -q -p no:cacheprovider tests/unit tests/functional -n 8 2>&1 | tail -1)
git checkout -q -- .
echo "$ID-$Y: demo clean exit=$c0, demo with change exit=$c1, suite with change: $t"
case "$t" in *failed*|*error*) ok=0;; *passed*) ok=1;; *) ok=0;; esac
if [ $c0 -eq 0 ] && [ $c1 -ne 0 ] && [ $ok -eq 1 ]; then
  mkdir -p $DEST; cp $OUT/patch.diff $OUT/demo.py $DEST/
  /venv/bin/python - "$OUT/meta.json" "$DEST/meta.json" "$c0" "$c1" "$t" <<'P'
import json, sys
try: m = json.load(open(sys.argv[1]))
except Exception as e: m = {'meta_unreadable': str(e)}
m['round'] = {'A': 1, 'B': 1, 'C': 2, 'D': 2, 'E': 3, 'F': 3, 'G': 4, 'H': 4, 'I': 4, 'J': 4, 'K': 5, 'L': 5, 'M': 5, 'N': 5, 'O': 6, 'P': 6, 'Q': 7}.get(sys.argv[2].rstrip('/').split('/')[-2][-1], 1)
m['confirmed_by_me'] = {'demo_on_clean_tree_exit': int(sys.argv[3]), 'demo_with_change_exit': int(sys.argv[4]), 'suite_with_change': sys.argv[5],
                        'how': 'git apply patch.diff in a scratch worktree of /repo HEAD; PYTHONPATH=<worktree> python demo.py; pytest tests/unit tests/functional -n 8; git checkout -- .'}
json.dump(m, open(sys.argv[2], 'w'), indent=1)
P
  echo "  -> kept in $DEST"
else
  echo "  -> NOT kept"
fi
