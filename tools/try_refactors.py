#!/venv/bin/python
"""Run all checks against each refactoring patch (dir/*/patch.diff): a VIOLATION is a false alarm."""
import glob, json, os, shutil, subprocess, sys, tempfile
sys.path.insert(0, os.path.dirname(os.path.dirname(os.path.abspath(__file__))))
from s3tlint import engine, rules
from s3tlint.ir import Program, AnalysisError
from s3tlint.props import PROPS
rules.load_all()
pats = sys.argv[1:] or ['/verif/refactors/*/patch.diff']
tot = fa = fc = 0
for pat in pats:
    for pf in sorted(glob.glob(pat)):
        tot += 1
        tmp = tempfile.mkdtemp(prefix='s3tlint_ref_')
        try:
            shutil.copytree('/repo/s3transfer', os.path.join(tmp, 's3transfer'))
            r = subprocess.run(['patch', '-p1', '-s', '-d', tmp, '-i', pf], capture_output=True, text=True)
            if r.returncode != 0:
                print(f'{pf}: PATCH-FAILS {r.stdout[:100]}')
                continue
            try:
                prog = Program.load(tmp)
            except AnalysisError as e:
                print(f'{pf}: load error {e}')
                continue
            v, e = [], []
            for p in sorted(PROPS):
                code, ctx, viol = engine.run_property(p, 'quick', program=prog, write=False, quiet=True)
                v += [f'{p}:{o.rule} {o.func}: {o.construct[:60]} -- {o.detail[:90]}' for o in viol]
                e += [f'{p}:{r_}: {m[:110]}' for r_, m in (ctx.errors if ctx else [])]
            fa += bool(v)
            fc += bool(e) and not v
            print(f'{pf}: ' + ('FALSE-ALARM' if v else ('fail-closed' if e else 'silent')))
            for x in sorted(set(v)):
                print('     V', x)
            for x in sorted(set(e))[:6]:
                print('     E', x)
        finally:
            shutil.rmtree(tmp, ignore_errors=True)
print(f'{tot} refactorings: {fa} with false alarms, {fc} fail-closed (ANALYSIS-ERROR only), {tot - fa - fc} silent')
