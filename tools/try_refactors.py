#!/venv/bin/python
"""Run all checks against each refactoring patch (dir/*/patch.diff): a VIOLATION is a false alarm.
usage: tools/try_refactors.py [glob ...] [-j N]"""
import glob, json, os, shutil, subprocess, sys, tempfile
import multiprocessing as mp
sys.path.insert(0, os.path.dirname(os.path.dirname(os.path.abspath(__file__))))
from s3tlint import engine, rules
from s3tlint.ir import Program, AnalysisError
from s3tlint.props import PROPS


def work(pf):
    rules.load_all()
    tmp = tempfile.mkdtemp(prefix='s3tlint_ref_')
    lines = []
    try:
        shutil.copytree('/repo/s3transfer', os.path.join(tmp, 's3transfer'))
        r = subprocess.run(['patch', '-p1', '-s', '-d', tmp, '-i', pf], capture_output=True, text=True)
        if r.returncode != 0:
            return pf, 'patch-fails', [r.stdout[:100]]
        try:
            prog = Program.load(tmp)
        except AnalysisError as e:
            return pf, 'load-error', [str(e)]
        v, e = [], []
        for p in sorted(PROPS):
            code, ctx, viol = engine.run_property(p, 'quick', program=prog, write=False, quiet=True)
            v += [f'{p}:{o.rule} {o.func}: {o.construct[:60]} -- {o.detail[:90]}' for o in viol]
            e += [f'{p}:{r_}: {m[:110]}' for r_, m in (ctx.errors if ctx else [])]
        for x in sorted(set(v)):
            lines.append('     V ' + x)
        for x in sorted(set(e))[:6]:
            lines.append('     E ' + x)
        return pf, ('FALSE-ALARM' if v else ('fail-closed' if e else 'silent')), lines
    finally:
        shutil.rmtree(tmp, ignore_errors=True)


def main():
    args = sys.argv[1:]
    j = 12
    if '-j' in args:
        j = int(args[args.index('-j') + 1])
        del args[args.index('-j'):args.index('-j') + 2]
    pats = args or ['/verif/refactors/*/patch.diff']
    files = sorted(f for pat in pats for f in glob.glob(pat))
    with mp.get_context('fork').Pool(j) as pool:
        res = pool.map(work, files, chunksize=1)
    fa = fc = na = 0
    for pf, status, lines in res:
        fa += status == 'FALSE-ALARM'
        fc += status == 'fail-closed'
        na += status in ('patch-fails', 'load-error')
        print(f'{pf}: {status}')
        for l in lines:
            print(l)
    print(f'{len(res)} refactorings: {fa} with false alarms, {fc} fail-closed (ANALYSIS-ERROR only), {na} not applicable, {len(res) - fa - fc - na} silent')


if __name__ == '__main__':
    main()
