#!/venv/bin/python
"""Run each kept seeded change (/verif/seeded/<ID>-<X>/patch.diff) against the check of
its own property (and all others) on a scratch copy; print a table."""
import glob, json, os, shutil, subprocess, sys, tempfile
sys.path.insert(0, os.path.dirname(os.path.dirname(os.path.abspath(__file__))))
from s3tlint import engine, rules
from s3tlint.ir import Program, AnalysisError
from s3tlint.props import PROPS
rules.load_all()
rows = []
for d in sorted(glob.glob('/verif/seeded/C*-*')):
    name = os.path.basename(d)
    prop = name.split('-')[0]
    tmp = tempfile.mkdtemp(prefix='s3tlint_seed_')
    try:
        shutil.copytree('/repo/s3transfer', os.path.join(tmp, 's3transfer'))
        r = subprocess.run(['patch', '-p1', '-s', '-d', tmp, '-i', os.path.join(d, 'patch.diff')], capture_output=True, text=True)
        if r.returncode != 0:
            rows.append((name, 'PATCH-FAILS', '', ''))
            continue
        own, others, errs = [], [], []
        prog = Program.load(tmp)
        for p in sorted(PROPS):
            code, ctx, viol = engine.run_property(p, 'quick', program=prog, write=False, quiet=True)
            rs = sorted({o.rule for o in viol})
            if p == prop:
                own = rs
                errs = [r_ for r_, m in (ctx.errors if ctx else [])]
            elif rs:
                others.append(f'{p}:{",".join(rs)}')
        rows.append((name, 'CAUGHT' if own else ('error' if errs else 'missed'), ','.join(own), ' '.join(others)))
    finally:
        shutil.rmtree(tmp, ignore_errors=True)
for r in rows:
    print('%-8s %-8s own=[%s] others=[%s]' % r)
c = sum(1 for r in rows if r[1] == 'CAUGHT')
print(f'{c}/{len(rows)} caught by the check of their own property')
if '--json' in sys.argv:
    json.dump([dict(zip(('seed', 'verdict', 'own_rules', 'other_props'), r)) for r in rows], open('/verif/seeded/SCORE.json', 'w'), indent=1)
