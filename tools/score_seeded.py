#!/venv/bin/python
"""Run each kept seeded change (/verif/seeded/<ID>-<X>/patch.diff) against the check of
its own property (and all others) on a scratch copy; print a table.
usage: tools/score_seeded.py [--json] [--only GLOB] [-j N]   (--json rewrites seeded/SCORE.json, all seeds only)"""
import fnmatch, glob, json, os, shutil, subprocess, sys, tempfile
import multiprocessing as mp
sys.path.insert(0, os.path.dirname(os.path.dirname(os.path.abspath(__file__))))
from s3tlint import engine, rules
from s3tlint.ir import Program, AnalysisError
from s3tlint.props import PROPS


def work(d):
    rules.load_all()
    name = os.path.basename(d)
    prop = name.split('-')[0]
    tmp = tempfile.mkdtemp(prefix='s3tlint_seed_')
    try:
        shutil.copytree('/repo/s3transfer', os.path.join(tmp, 's3transfer'))
        r = subprocess.run(['patch', '-p1', '-s', '-d', tmp, '-i', os.path.join(d, 'patch.diff')], capture_output=True, text=True)
        if r.returncode != 0:
            return (name, 'PATCH-FAILS', '', '', '')
        own, others, errs, detail = [], [], [], []
        prog = Program.load(tmp)
        for p in sorted(PROPS):
            code, ctx, viol = engine.run_property(p, 'quick', program=prog, write=False, quiet=True)
            rs = sorted({o.rule for o in viol})
            if p == prop:
                own = rs
                errs = [f'{r_}: {m[:90]}' for r_, m in (ctx.errors if ctx else [])]
                detail = [f'{o.rule} {o.func}: {o.construct[:70]}' for o in viol][:3]
            elif rs:
                others.append(f'{p}:{",".join(rs)}')
        return (name, 'CAUGHT' if own else ('error' if errs else 'missed'), ','.join(own), ' '.join(others), ' | '.join(detail or errs))
    finally:
        shutil.rmtree(tmp, ignore_errors=True)


def main():
    args = sys.argv[1:]
    only = args[args.index('--only') + 1] if '--only' in args else '*'
    j = int(args[args.index('-j') + 1]) if '-j' in args else 12
    dirs = [d for d in sorted(glob.glob('/verif/seeded/C*-*')) if fnmatch.fnmatch(os.path.basename(d), only)]
    with mp.get_context('fork').Pool(j) as pool:
        rows = pool.map(work, dirs, chunksize=1)
    for r in rows:
        print('%-8s %-8s own=[%s] others=[%s]' % r[:4] + (f'\n           {r[4]}' if '-v' in args and r[4] else ''))
    c = sum(1 for r in rows if r[1] == 'CAUGHT')
    print(f'{c}/{len(rows)} caught by the check of their own property')
    if '--json' in args and only == '*':
        json.dump([dict(zip(('seed', 'verdict', 'own_rules', 'other_props', 'detail'), r)) for r in rows], open('/verif/seeded/SCORE.json', 'w'), indent=1)


if __name__ == '__main__':
    main()
