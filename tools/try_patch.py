#!/venv/bin/python
"""Run every registered check against /repo with a patch applied to a scratch copy.
usage: tools/try_patch.py PATCH [PROP ...]   (nothing in /repo or /verif is modified)"""
import json, os, shutil, subprocess, sys, tempfile
sys.path.insert(0, os.path.dirname(os.path.dirname(os.path.abspath(__file__))))
from s3tlint import engine, rules
from s3tlint.ir import Program, AnalysisError
from s3tlint.props import PROPS

def main():
    patch = sys.argv[1]
    props = sys.argv[2:] or sorted(PROPS)
    rules.load_all()
    tmp = tempfile.mkdtemp(prefix='s3tlint_patch_')
    try:
        shutil.copytree('/repo/s3transfer', os.path.join(tmp, 's3transfer'))
        r = subprocess.run(['patch', '-p1', '-s', '-d', tmp, '-i', os.path.abspath(patch)], capture_output=True, text=True)
        if r.returncode != 0:
            print('PATCH DOES NOT APPLY:', r.stdout, r.stderr)
            return 3
        fired = {}
        errs = {}
        try:
            prog = Program.load(tmp)
        except AnalysisError as e:
            print('ANALYSIS-ERROR', e)
            return 2
        for p in props:
            code, ctx, viol = engine.run_property(p, 'quick', program=prog, write=False, quiet=True)
            if viol:
                fired[p] = sorted({f'{o.rule} @ {o.func}: {o.construct[:90]}' for o in viol})
            if ctx is not None and ctx.errors:
                errs[p] = [f'{r_}: {m[:120]}' for r_, m in ctx.errors]
        for p, v in fired.items():
            for x in v:
                print(f'FIRED {p}: {x}')
        for p, v in errs.items():
            for x in v:
                print(f'ERROR {p}: {x}')
        print(f'SUMMARY patch={patch} fired_props={sorted(fired)} error_props={sorted(errs)}')
        return 1 if fired else (2 if errs else 0)
    finally:
        shutil.rmtree(tmp, ignore_errors=True)

sys.exit(main())
