#!/venv/bin/python
"""Sensitivity sweep: systematic small mutants of the package, each run (in memory) against
the checks of the properties anchored in the mutated file.  Reports kill rate and the
surviving mutants per function.  Mutants are NOT known to break a property (many are
equivalent or break something no property talks about): survivors are a reading list for
missing necessary conditions, not a score.

operators: del   delete an expression-statement call or an assignment
           neg   negate an if/while test
           cmp   < <-> <=, == <-> !=, in <-> not in
           arg   swap two adjacent positional arguments of a call
           cst   True <-> False, 0 <-> 1
           ret   delete a `return` value / `raise`/`break`/`continue` statement
usage: tools/mutant_sweep.py [--file download.py] [--func NAME] [--ops del,neg] [-j 16] [--survivors]"""
import ast
import copy
import json
import multiprocessing as mp
import os
import sys

sys.path.insert(0, os.path.dirname(os.path.dirname(os.path.abspath(__file__))))
from s3tlint import engine, rules  # noqa: E402
from s3tlint.ir import AnalysisError, Program, read_sources  # noqa: E402

BASE = None
PROPS_BY_FILE = {}


def sites(tree):
    """Yield (op, node_index, description) for each mutation site; node_index indexes ast.walk order."""
    nodes = list(ast.walk(tree))
    out = []
    for i, n in enumerate(nodes):
        if isinstance(n, ast.Expr) and isinstance(n.value, ast.Call) and 'logger' not in ast.unparse(n.value.func):
            out.append(('del', i))
        elif isinstance(n, (ast.Assign, ast.AugAssign)):
            out.append(('del', i))
        if isinstance(n, (ast.If, ast.While)) and not (isinstance(n.test, ast.Constant)):
            out.append(('neg', i))
        if isinstance(n, ast.Compare) and len(n.ops) == 1 and isinstance(n.ops[0], (ast.Lt, ast.LtE, ast.Gt, ast.GtE, ast.Eq, ast.NotEq, ast.In, ast.NotIn)):
            out.append(('cmp', i))
        if isinstance(n, ast.Call) and len(n.args) >= 2 and not any(isinstance(a, ast.Starred) for a in n.args):
            out.append(('arg', i))
        if isinstance(n, ast.Constant) and (isinstance(n.value, bool) or (isinstance(n.value, int) and n.value in (0, 1))):
            out.append(('cst', i))
        if isinstance(n, (ast.Raise, ast.Break, ast.Continue)) or (isinstance(n, ast.Return) and n.value is not None):
            out.append(('ret', i))
    return out


class Skip(Exception):
    pass


def mutate(src, op, idx):
    tree = ast.parse(src)
    nodes = list(ast.walk(tree))
    n = nodes[idx]
    # parent links
    parent = {}
    for p in nodes:
        for ch in ast.iter_child_nodes(p):
            parent[ch] = p
    desc = f'{op} L{getattr(n, "lineno", 0)}: {ast.unparse(n)[:70]}'

    def replace_stmt(old, new_list):
        p = parent[old]
        for f in ('body', 'orelse', 'finalbody'):
            b = getattr(p, f, None)
            if isinstance(b, list) and old in b:
                k = b.index(old)
                b[k:k + 1] = new_list or [ast.Pass()]
                return
        raise Skip()
    if op == 'del':
        replace_stmt(n, [])
    elif op == 'neg':
        n.test = ast.UnaryOp(op=ast.Not(), operand=n.test)
    elif op == 'cmp':
        m = {ast.Lt: ast.LtE, ast.LtE: ast.Lt, ast.Gt: ast.GtE, ast.GtE: ast.Gt, ast.Eq: ast.NotEq, ast.NotEq: ast.Eq, ast.In: ast.NotIn, ast.NotIn: ast.In}
        n.ops = [m[type(n.ops[0])]()]
    elif op == 'arg':
        n.args[0], n.args[1] = n.args[1], n.args[0]
    elif op == 'cst':
        n.value = (not n.value) if isinstance(n.value, bool) else (1 - n.value)
    elif op == 'ret':
        if isinstance(n, ast.Return):
            n.value = None
        else:
            replace_stmt(n, [])
    ast.fix_missing_locations(tree)
    out = ast.unparse(tree)
    compile(out, '<m>', 'exec')
    # enclosing function name
    fn = n
    name = '<module>'
    while fn in parent:
        fn = parent[fn]
        if isinstance(fn, (ast.FunctionDef, ast.ClassDef)):
            name = fn.name + ('.' + name if name != '<module>' else '')
    return out, desc, name


def work(job):
    rel, op, idx = job
    rules.load_all()
    try:
        msrc, desc, fname = mutate(BASE[rel], op, idx)
    except (Skip, SyntaxError, ValueError):
        return None
    srcs = dict(BASE)
    srcs[rel] = msrc
    try:
        prog = Program(srcs)
    except AnalysisError:
        return None
    killed, errs = [], []
    for p in PROPS_BY_FILE.get(rel, []):
        code, ctx, viol = engine.run_property(p, 'quick', program=prog, write=False, quiet=True)
        if viol:
            killed.append(p)
        elif ctx is not None and ctx.errors:
            errs.append(p)
    return {'file': rel, 'func': fname, 'op': op, 'desc': desc, 'killed': killed, 'errors': errs}


def main():
    global BASE, PROPS_BY_FILE
    args = sys.argv[1:]
    def opt(name, default=None):
        return args[args.index(name) + 1] if name in args else default
    only_file, only_func = opt('--file'), opt('--func')
    ops = set((opt('--ops') or 'del,neg,cmp,arg,cst,ret').split(','))
    jobs_n = int(opt('-j', '16'))
    BASE = read_sources('/repo')
    for l in open(os.path.join(os.path.dirname(__file__), '..', 'properties.jsonl')):
        p = json.loads(l)
        for f in p['anchors']['files']:
            PROPS_BY_FILE.setdefault(f, []).append(p['id'])
    jobs = []
    for rel, src in sorted(BASE.items()):
        if only_file and not rel.endswith(only_file):
            continue
        if rel not in PROPS_BY_FILE:
            continue
        for op, idx in sites(ast.parse(src)):
            if op in ops:
                jobs.append((rel, op, idx))
    with mp.get_context('fork').Pool(jobs_n) as pool:
        res = [r for r in pool.imap_unordered(work, jobs, chunksize=8) if r]
    if only_func:
        res = [r for r in res if only_func in r['func']]
    tot = len(res)
    k = sum(1 for r in res if r['killed'])
    e = sum(1 for r in res if not r['killed'] and r['errors'])
    print(f'{tot} mutants: {k} killed ({100 * k // max(tot, 1)}%), {e} analysis-error only, {tot - k - e} survived')
    by = {}
    for r in res:
        d = by.setdefault((r['file'], r['func']), [0, 0])
        d[0] += 1
        d[1] += bool(r['killed'])
    for (f, fn), (n, kk) in sorted(by.items()):
        print(f'  {f:28s} {fn:60s} {kk}/{n}')
    if '--survivors' in args:
        for r in sorted(res, key=lambda r: (r['file'], r['func'], r['desc'])):
            if not r['killed']:
                print(f"SURV {r['file']} {r['func']}: {r['desc']}" + (f"  [errors {r['errors']}]" if r['errors'] else ''))
    json.dump(res, open('/tmp/mutant_sweep.json', 'w'))


if __name__ == '__main__':
    main()
