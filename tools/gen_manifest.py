#!/venv/bin/python
"""Regenerate MANIFEST.json from the rule registry (run from /verif)."""
import json, os, sys
sys.path.insert(0, os.path.dirname(os.path.dirname(os.path.abspath(__file__))))
from s3tlint import engine, rules
from s3tlint.props import PROPS
rules.load_all()

TECH = {
    'C01': 'AST def-use + CFG checks: bounded reads, part-record provenance, append-only part list, single final Complete task',
    'C02': 'typestate/who-may-call on offset-oblivious writers, retry-loop recogniser with reaching-definition check of the write cursor',
    'C03': 'error-discipline classification of every except handler, must-pass-through on Task.__call__, retry-loop recogniser',
    'C04': 'lock-region/effect analysis over resolved call graph (no open call under the state lock), CFG dominance, path-count of finalisers',
    'C05': 'CFG must-pass-through from create_multipart_upload to abort registration, who-may-call on abort/complete, dominance in announce_done',
    'C06': 'taint/who-may-write of the destination filename over resolved calls, CFG both-outcomes check of finalisers',
    'C07': 'argument-agreement lint over resolved callees, parameter-to-parameter def-use chain, guard (control-dependence) checks',
    'C08': 'CFG ordering/dominance of callback placement, who-may-call announce_done, run-once-and-clear region check',
    'C09': 'def-use of reported amounts, retry-handler rewind expression in polynomial normal form, registration-order check',
    'C10': 'constant/def-use wiring table of config fields to executors, stage graph of task submissions vs S3 operations',
    'C11': 'sibling cross-check over input/output manager hierarchy, tag-to-semaphore wiring, bounded-read def-use',
    'C12': 'condition-variable discipline lint, path-effect rule (no state store on rejecting paths), lock-region coverage of bookkeeping fields',
    'C13': 'who-constructs/wraps checks, typestate on the request token over CFG exits',
    'C14': 'sibling agreement of multipart predicates, polynomial normal form identities of range/offset expressions, constant folding of limits',
    'C15': 'exhaustive table evaluation: allow-lists x filters x operations vs botocore service-2.json (finite space)',
    'C16': 'dependence analysis of discard decisions on len(data), CFG/lock-region checks of release loop and ordered submission',
    'C17': 'who-may-write + guard analysis of state stores; extracted finite transition table enumerated exhaustively',
    'C18': 'CFG must-pass-through of executor joins on every exit, topological order vs submits-to relation, shared-state inventory',
    'C19': 'CFG dominance/must-pass-through on submitter and worker loops, guard checks of finalisation',
    'C20': 'sibling agreement of request-arg builders, list-provenance of on_done callbacks, CFG both-continuations check',
}

def main():
    claimed = sorted({p for r in engine.RULES for p in r['props'] if any(r2['id'].startswith(p + '.') for r2 in engine.RULES)})
    checks = []
    for p in claimed:
        meta = PROPS[p]
        checks.append({
            'property_id': p,
            'quick_cmd': f'./check {p} --tier quick',
            'thorough_cmd': f'./check {p} --tier thorough',
            'evidence_file': f'/verif/evidence/{p}.json',
            'replay_cmd_template': f'./check {p} --replay {{path}}',
            'engine': 's3tlint',
            'level_claimed': {
                'category': 'other',
                'text': 'Static analysis of /repo source on every run: ' + meta['explanation'] +
                        ' These are necessary conditions of the property, decided on every path of the source '
                        '(the quantifier the tests cannot reach); the behaviour as a whole is not proved.',
                'design_ref': f'DESIGN.md section 5, {p}',
            },
            'level_note': 'Trusted: ' + '; '.join(meta.get('trusted_base', []) + ['CPython ast', 'frozen receiver table']) +
                          '. Not decided: ' + '; '.join(meta.get('assumptions', [])),
            'technique': 'static analysis: ' + TECH[p],
        })
    na = [{'property_id': p, 'reason': 'no static check registered yet in this commit (clauses designed in DESIGN.md section 5); not claimed'}
          for p in sorted(PROPS) if p not in claimed]
    man = {
        'version': 1,
        'setup_cmd': 'true',
        'hooks': {
            'guard': 'BOTO_S3TRANSFER_VERIF',
            'enable': 'not used: the checks are static and never execute the package; no hook commits exist',
            'baseline_off_cmd': 'cd /repo && /venv/bin/python -m pytest -ra -q -p no:cacheprovider --timeout=900 --continue-on-collection-errors',
            'source_commits': [],
            'add_only': True,
        },
        'engines': [{'name': 's3tlint', 'path': '/verif/s3tlint', 'serves_properties': claimed,
                     'kind_free_text': 'repository-specific static analyser: ast IR, class-hierarchy callee resolution with a frozen receiver table, '
                                       'statement CFG with exception edges, lock regions, stage graph, constant/table evaluation'}],
        'checks': checks,
        'notes': 'All checks are pure static analysis (python ast; stdlib only; /venv/bin/python). Exit 0 = all obligations discharged '
                 '(KNOWN-FINDING lines for recorded defects), 1 = VIOLATION, 2 = ANALYSIS-ERROR (analysis could not be carried out; not a verdict). '
                 'Known/fixed findings: /verif/known_findings.json.',
        'not_applicable': na,
    }
    with open('MANIFEST.json', 'w') as fh:
        json.dump(man, fh, indent=1)
    print('claimed', claimed, 'n/a', [x['property_id'] for x in na])

main()
