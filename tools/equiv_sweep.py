#!/venv/bin/python
"""Robustness sweep: apply behaviour-preserving AST transformations to the whole package
(in memory) and check that no rule of any property raises a VIOLATION.

  T1 alpha   rename every local variable (not parameters) of every function
  T2 ifswap  `if c: A else: B`  ->  `if not c: B else: A`
  T3 pass    insert `pass` after every simple statement
  T4 kwrev   reverse the keyword-argument order of every call
  T5 augexp  `x += e` -> `x = x + e`   (names only)
  T6 lockexp `with lock: body` -> `lock.acquire(); try: body finally: lock.release()`
  T7 cmpflip `a < b` -> `b > a` (also == and !=)
  T8 rettemp `return e` -> `t = e; return t`

usage: tools/equiv_sweep.py [T1 T2 ...] [--by-module] [--prop CNN]
A VIOLATION under an equivalence transformation is a false alarm of the checker; an
ANALYSIS-ERROR (exit 2) is the documented fail-closed behaviour and is only reported."""
import ast
import copy
import os
import sys

sys.path.insert(0, os.path.dirname(os.path.dirname(os.path.abspath(__file__))))
from s3tlint import engine, rules  # noqa: E402
from s3tlint.ir import Program, read_sources  # noqa: E402
from s3tlint.props import PROPS  # noqa: E402
from s3tlint.q import is_lock_expr  # noqa: E402


def _locals_of(fn):
    params = {a.arg for a in fn.args.posonlyargs + fn.args.args + fn.args.kwonlyargs}
    if fn.args.vararg:
        params.add(fn.args.vararg.arg)
    if fn.args.kwarg:
        params.add(fn.args.kwarg.arg)
    stores, banned = set(), set(params)
    for n in ast.walk(fn):
        if isinstance(n, (ast.Global, ast.Nonlocal)):
            banned |= set(n.names)
        if isinstance(n, ast.Name) and isinstance(n.ctx, (ast.Store, ast.Del)):
            stores.add(n.id)
        if isinstance(n, ast.ExceptHandler) and n.name:
            stores.add(n.name)
        if isinstance(n, (ast.FunctionDef, ast.AsyncFunctionDef)) and n is not fn:
            banned.add(n.name)
            banned |= {a.arg for a in n.args.posonlyargs + n.args.args + n.args.kwonlyargs}
        if isinstance(n, ast.Lambda):
            banned |= {a.arg for a in n.args.posonlyargs + n.args.args + n.args.kwonlyargs}
    return {s for s in stores if s not in banned and not s.startswith('__')}


class Alpha(ast.NodeTransformer):
    def visit_FunctionDef(self, node):
        # only outermost functions / methods; nested defs are renamed together with their parent
        names = _locals_of(node)
        mapping = {n: n + '_r' for n in names}
        for n in ast.walk(node):
            if isinstance(n, ast.Name) and n.id in mapping:
                n.id = mapping[n.id]
            elif isinstance(n, ast.ExceptHandler) and n.name in mapping:
                n.name = mapping[n.name]
        return node

    def visit_ClassDef(self, node):
        self.generic_visit(node)
        return node


class IfSwap(ast.NodeTransformer):
    def visit_If(self, node):
        self.generic_visit(node)
        if node.orelse:
            node.test, node.body, node.orelse = ast.UnaryOp(op=ast.Not(), operand=node.test), node.orelse, node.body
        return node


class PassIns(ast.NodeTransformer):
    def _blk(self, stmts):
        out = []
        for s in stmts:
            out.append(s)
            if isinstance(s, (ast.Assign, ast.AugAssign, ast.Expr)) and not (isinstance(s, ast.Expr) and isinstance(s.value, ast.Constant)):
                out.append(ast.Pass())
        return out

    def generic_visit(self, node):
        super().generic_visit(node)
        for f in ('body', 'orelse', 'finalbody'):
            b = getattr(node, f, None)
            if isinstance(b, list) and b and isinstance(b[0], ast.stmt):
                setattr(node, f, self._blk(b))
        return node


class KwRev(ast.NodeTransformer):
    def visit_Call(self, node):
        self.generic_visit(node)
        if len(node.keywords) > 1 and all(k.arg is not None for k in node.keywords):
            node.keywords = list(reversed(node.keywords))
        return node


class AugExp(ast.NodeTransformer):
    def visit_AugAssign(self, node):
        if isinstance(node.target, (ast.Name, ast.Attribute)):
            load = copy.deepcopy(node.target)
            load.ctx = ast.Load()
            return ast.Assign(targets=[node.target], value=ast.BinOp(left=load, op=node.op, right=node.value))
        return node


class LockExp(ast.NodeTransformer):
    def visit_With(self, node):
        self.generic_visit(node)
        if len(node.items) == 1 and node.items[0].optional_vars is None and is_lock_expr(node.items[0].context_expr):
            lock = node.items[0].context_expr
            acq = ast.Expr(ast.Call(func=ast.Attribute(value=copy.deepcopy(lock), attr='acquire', ctx=ast.Load()), args=[], keywords=[]))
            rel = ast.Expr(ast.Call(func=ast.Attribute(value=copy.deepcopy(lock), attr='release', ctx=ast.Load()), args=[], keywords=[]))
            return [acq, ast.Try(body=node.body, handlers=[], orelse=[], finalbody=[rel])]
        return node


class CmpFlip(ast.NodeTransformer):
    FLIP = {ast.Lt: ast.Gt, ast.Gt: ast.Lt, ast.LtE: ast.GtE, ast.GtE: ast.LtE, ast.Eq: ast.Eq, ast.NotEq: ast.NotEq}

    def visit_Compare(self, node):
        self.generic_visit(node)
        if len(node.ops) == 1 and type(node.ops[0]) in self.FLIP:
            return ast.Compare(left=node.comparators[0], ops=[self.FLIP[type(node.ops[0])]()], comparators=[node.left])
        return node


class RetTemp(ast.NodeTransformer):
    def _blk(self, stmts):
        out = []
        for s in stmts:
            if isinstance(s, ast.Return) and s.value is not None and not isinstance(s.value, (ast.Name, ast.Constant)):
                out.append(ast.Assign(targets=[ast.Name(id='ret_value_t', ctx=ast.Store())], value=s.value))
                out.append(ast.Return(value=ast.Name(id='ret_value_t', ctx=ast.Load())))
            else:
                out.append(s)
        return out

    def generic_visit(self, node):
        super().generic_visit(node)
        for f in ('body', 'orelse', 'finalbody'):
            b = getattr(node, f, None)
            if isinstance(b, list) and b and isinstance(b[0], ast.stmt):
                setattr(node, f, self._blk(b))
        return node


TRANSFORMS = {'T1': ('alpha-rename locals', Alpha), 'T2': ('if/else swap', IfSwap), 'T3': ('insert pass', PassIns),
              'T4': ('reverse keywords', KwRev), 'T5': ('expand augmented assignment', AugExp), 'T6': ('expand with-lock', LockExp),
              'T7': ('flip comparison operands', CmpFlip), 'T8': ('return through a temporary', RetTemp)}


def transform(src, cls):
    tree = ast.parse(src)
    tree = cls().visit(tree)
    ast.fix_missing_locations(tree)
    out = ast.unparse(tree)
    compile(out, '<sweep>', 'exec')
    return out


def run(sources, props):
    prog = Program(sources)
    res = {}
    for p in props:
        code, ctx, viol = engine.run_property(p, 'quick', program=prog, write=False, quiet=True)
        res[p] = (sorted({f'{o.rule} {o.func}: {o.construct[:70]}' for o in viol}), [f'{r}: {m[:100]}' for r, m in (ctx.errors if ctx else [])])
    return res


def main():
    args = [a for a in sys.argv[1:] if not a.startswith('--')]
    by_module = '--by-module' in sys.argv
    props = sorted(PROPS)
    if '--prop' in sys.argv:
        props = [sys.argv[sys.argv.index('--prop') + 1]]
        args = [a for a in args if a not in props]
    rules.load_all()
    base = read_sources('/repo')
    ts = args or sorted(TRANSFORMS)
    bad = 0
    for t in ts:
        name, cls = TRANSFORMS[t]
        units = [[k] for k in sorted(base)] if by_module else [sorted(base)]
        for unit in units:
            srcs = dict(base)
            for k in unit:
                srcs[k] = transform(base[k], cls)
            res = run(srcs, props)
            label = f'{t} {name}' + (f' [{unit[0]}]' if by_module else ' [whole package]')
            nv = sum(len(v) for v, e in res.values())
            ne = sum(len(e) for v, e in res.values())
            print(f'{label}: violations={nv} analysis_errors={ne}')
            for p, (v, e) in sorted(res.items()):
                for x in v:
                    print(f'   FALSE-ALARM {p}: {x}')
                    bad += 1
                for x in e:
                    print(f'   fail-closed {p}: {x}')
    return 1 if bad else 0


if __name__ == '__main__':
    sys.exit(main())
