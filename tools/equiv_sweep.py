#!/venv/bin/python
"""Whole-package equivalence sweeps (see s3tlint/equiv.py).  usage: tools/equiv_sweep.py [T1 T2 ...] [--by-module] [--prop CNN]"""
import os, sys
sys.path.insert(0, os.path.dirname(os.path.dirname(os.path.abspath(__file__))))
from s3tlint import equiv
sys.exit(equiv.main())
