#!/venv/bin/python
"""Freeze the function and private-attribute inventory of the tree the rules were written
against (s3tlint/known_functions.txt, s3tlint/known_attrs.txt).  Run only after the rules
have been re-confirmed against a changed tree (e.g. after a fix: commit)."""
import ast, os, sys
sys.path.insert(0, os.path.dirname(os.path.dirname(os.path.abspath(__file__))))
from s3tlint.ir import read_sources
from s3tlint.rename import body_digest, class_attrs

src = read_sources(sys.argv[1] if len(sys.argv) > 1 else '/repo')
funcs, attrs, consts = [], [], []
for rel in sorted(src):
    mod = os.path.splitext(os.path.basename(rel))[0]
    tree = ast.parse(src[rel])

    def visit(owner, prefix):
        for n in owner.body:
            if isinstance(n, (ast.Assign, ast.AnnAssign)):
                for t in (n.targets if isinstance(n, ast.Assign) else [n.target]):
                    if isinstance(t, ast.Name):
                        consts.append(f'{prefix}.{t.id}')
            if isinstance(n, (ast.FunctionDef, ast.AsyncFunctionDef)):
                funcs.append(f'{prefix}.{n.name} {body_digest(n)} ' + ','.join(a.arg for a in n.args.posonlyargs + n.args.args))
            elif isinstance(n, ast.ClassDef):
                for a, init in class_attrs(n).items():
                    attrs.append(f'{prefix}.{n.name}\t{a}\t{init}')
                visit(n, f'{prefix}.{n.name}')
            elif isinstance(n, (ast.If, ast.Try)):
                class _B:
                    body = list(n.body) + list(n.orelse) + list(getattr(n, 'finalbody', [])) + [s for h in getattr(n, 'handlers', []) for s in h.body]
                visit(_B, prefix)
    visit(tree, mod)
d = os.path.join(os.path.dirname(os.path.dirname(os.path.abspath(__file__))), 's3tlint')
open(os.path.join(d, 'known_functions.txt'), 'w').write('\n'.join(funcs) + '\n')
open(os.path.join(d, 'known_attrs.txt'), 'w').write('\n'.join(attrs) + '\n')
open(os.path.join(d, 'known_consts.txt'), 'w').write('\n'.join(sorted(set(consts))) + '\n')
print(len(funcs), 'functions,', len(attrs), 'attributes,', len(set(consts)), 'module/class-level names')

# fingerprints of the documented swallows (rules/c03.py SWALLOWS) in this tree and its fully expanded view
import json
from s3tlint import engine, rules
from s3tlint.ir import Program
rules.load_all()
from s3tlint.rules import c03
prog = Program(src)
ctx = engine.Ctx(prog, 'C03', 'quick')
fps = sorted([o, t, fp, r] for (o, t, fp), r in c03.swallow_prints(ctx).items())
json.dump(fps, open(os.path.join(d, 'known_swallows.json'), 'w'), indent=1)
print(len(fps), 'swallow fingerprints')
