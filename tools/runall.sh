#!/bin/sh
# Run every registered quick check on the current tree, then the self-test variants.
cd "$(dirname "$0")/.." || exit 2
rc=0
for p in $(/venv/bin/python -c "import json;print(' '.join(c['property_id'] for c in json.load(open('MANIFEST.json'))['checks']))"); do
  out=$(./check "$p" --tier "${1:-quick}" 2>&1); code=$?
  echo "$out" | tail -1
  if [ $code -ne 0 ]; then echo "$out" | grep -v KNOWN | head -8; rc=1; fi
done
/venv/bin/python -m s3tlint.variants | tail -4 || rc=1
exit $rc
