"""Thorough-tier self-test against the committed corpora: every seeded change of the property (seeded/<prop>-*/patch.diff)
must make a rule of the property fire; every behaviour-preserving refactoring (refactors/*/patch.diff) that touches a
file the property is anchored in must leave the property's rules silent.  Patches are applied to a scratch copy of the
current tree under a temporary directory that is removed again; a patch that does not apply (the tree has moved on) is
counted as inapplicable, never as a miss."""
import glob
import json
import os
import shutil
import subprocess
import tempfile

VERIF = os.path.dirname(os.path.dirname(os.path.abspath(__file__)))


def _anchor_files(prop):
    for line in open(os.path.join(VERIF, 'properties.jsonl')):
        p = json.loads(line)
        if p['id'] == prop:
            return set(p['anchors'].get('files', []))
    return set()


def _touched(patch):
    out = set()
    for line in open(patch, errors='replace'):
        if line.startswith('+++ b/'):
            out.add(line[6:].strip())
    return out


def _one(job):
    kind, patch, prop, repo = job
    from . import engine, rules
    from .ir import Program, AnalysisError
    rules.load_all()
    tmp = tempfile.mkdtemp(prefix='s3tlint_corpus_')
    try:
        shutil.copytree(os.path.join(repo, 's3transfer'), os.path.join(tmp, 's3transfer'))
        r = subprocess.run(['patch', '-p1', '-s', '-d', tmp, '-i', patch], capture_output=True, text=True)
        if r.returncode != 0:
            return kind, patch, 'inapplicable', []
        try:
            prog = Program.load(tmp)
        except AnalysisError as e:
            return kind, patch, 'error', [str(e)]
        code, ctx, viol = engine.run_property(prop, 'quick', program=prog, write=False, quiet=True)
        errs = [f'{a}: {b[:80]}' for a, b in (ctx.errors if ctx else [])]
        return kind, patch, ('fired' if viol else ('error' if errs else 'silent')), sorted({o.rule for o in viol}) or errs
    finally:
        shutil.rmtree(tmp, ignore_errors=True)


def run_for(prop, program, jobs=None):
    import multiprocessing as mp
    repo = program.repo
    anchors = _anchor_files(prop)
    work = [('seeded', p, prop, repo) for p in sorted(glob.glob(os.path.join(VERIF, 'seeded', f'{prop}-*', 'patch.diff')))]
    work += [('refactor', p, prop, repo) for p in sorted(glob.glob(os.path.join(VERIF, 'refactors', '*', 'patch.diff'))) if _touched(p) & anchors]
    if not work:
        return {'misses': []}
    jobs = jobs or min(16, os.cpu_count() or 1)
    with mp.get_context('fork').Pool(jobs) as pool:
        res = pool.map(_one, work, chunksize=1)
    name = lambda p: os.path.basename(os.path.dirname(p))
    misses = [f'seeded change {name(p)} is not caught by the check of {prop}' for k, p, st, d in res if k == 'seeded' and st in ('silent', 'error')]
    misses += [f'refactoring {name(p)} raises {d} under {prop} (false alarm)' for k, p, st, d in res if k == 'refactor' and st == 'fired']
    return {'seeded_changes': sum(1 for k, *_ in res if k == 'seeded'), 'seeded_caught_by_this_check': sum(1 for k, p, st, d in res if k == 'seeded' and st == 'fired'),
            'refactorings_touching_anchors': sum(1 for k, *_ in res if k == 'refactor'), 'refactorings_silent': sum(1 for k, p, st, d in res if k == 'refactor' and st == 'silent'),
            'refactorings_fail_closed': [name(p) for k, p, st, d in res if k == 'refactor' and st == 'error'],
            'corpus_inapplicable': [name(p) for k, p, st, d in res if st == 'inapplicable'], 'misses': misses}
