"""C20 - CRT manager glue: one permit per transfer, ordered completion, temp cleanup.
crt.py cannot be imported in this sandbox (no awscrt): these static rules are the only
coverage it gets."""
import ast

from ..engine import rule
from ..ir import dotted, kwarg, norm, own_calls, own_nodes, short
from .. import q


@rule('C20.a', ['C20'], floor=8)
def one_acquire_one_release(ctx):
    """_submit_transfer acquires the semaphore once, inside the try; on_done_after_calls
    contains _release_semaphore exactly once and reaches an on_done composition on both
    continuations: the handler builds get_crt_callback(future, 'done',
    after_subscribers=<that list>) and calls it; the normal path hands the same list to
    get_make_request_args, and every request-args builder forwards on_done_after_calls
    unchanged into _default_get_make_request_args where it becomes the after-subscribers
    of 'on_done' (sibling agreement across the builders)."""
    f = ctx.func('crt.CRTTransferManager._submit_transfer')
    g = ctx.cfg(f)
    acq = [c for c in own_calls(f.node) if (dotted(c.func) or '') == 'self._semaphore.acquire']
    ok = len(acq) == 1 and any(field == 'body' for _, field in q.enclosing_trys(acq[0])) and q.in_loop(acq[0]) is None and not q.guards(acq[0])
    ctx.ob(f, 'exactly one self._semaphore.acquire(), inside the try', ok, f'{len(acq)} acquires: a transfer would take no permit or more than one')
    if len(acq) == 1:
        t = [t for t, field in q.enclosing_trys(acq[0]) if field == 'body']
        others = [c for s_ in (t[0].body if t else []) for c in ast.walk(s_) if isinstance(c, ast.Call) and c is not acq[0]]
        on = [n for c in others for n in g.nodes_of(c)]
        ctx.ob(f, 'the acquire is the first thing the try does', bool(t) and g.all_dominate(g.nodes_of(acq[0]), on, g.NORMAL),
               'a failure before the acquire (on_queued, serialisation, a missing file) runs the handler, which releases a permit that was never taken: the limit grows by one per failure')
    aln = q.names_defined_by(f, lambda v: isinstance(v, ast.List) and any(norm(e) == 'self._release_semaphore' for e in v.elts))
    AL = aln[0] if len(aln) == 1 else 'on_done_after_calls'
    inits = [v for st, v in q.local_defs(f, AL) if isinstance(v, ast.AST)]
    ok = len(inits) == 1 and isinstance(inits[0], ast.List) and [norm(e) for e in inits[0].elts].count('self._release_semaphore') == 1
    apps = [c for c in own_calls(f.node) if (dotted(c.func) or '') == f'{AL}.append']
    ok = ok and all('release' not in norm(c.args[0]) for c in apps)
    ctx.ob(f, 'on_done_after_calls holds self._release_semaphore exactly once', ok, 'the permit would be released twice or never')
    # both continuations
    hs = [h for t in own_nodes(f.node) if isinstance(t, ast.Try) for h in t.handlers]
    ctx.need(hs, '_submit_transfer has no except handler')
    h = hs[0]
    cb = [c for s in h.body for c in ast.walk(s) if isinstance(c, ast.Call) and (dotted(c.func) or '').endswith('get_crt_callback')]
    ok = len(cb) == 1 and norm(kwarg(cb[0], 'after_subscribers') or (cb[0].args[3] if len(cb[0].args) > 3 else None)) == AL \
        and len(cb[0].args) >= 2 and norm(cb[0].args[1]) == "'done'"
    var = cb[0]._parent.targets[0].id if cb and isinstance(cb[0]._parent, ast.Assign) else None
    called = [c for s in h.body for c in ast.walk(s) if isinstance(c, ast.Call) and isinstance(c.func, ast.Name) and c.func.id == var]
    ctx.ob(f, "handler: on_done = get_crt_callback(future, 'done', after_subscribers=on_done_after_calls); on_done(error=e)", ok and len(called) == 1 and norm(kwarg(called[0], 'error')) == h.name
           and norm(h.type) in ('Exception', 'BaseException'),
           'when building/submitting the request fails the permit is never released and the subscribers never hear about it')
    cn = (q.names_defined_by(f, lambda v: isinstance(v, ast.Call) and norm(v.func) == 'CRTTransferCoordinator') or ['coordinator'])[0]
    rec = [c for s in h.body for c in ast.walk(s) if isinstance(c, ast.Call) and (dotted(c.func) or '') == f'{cn}.set_exception']
    ctx.ob(f, 'handler records the error on the coordinator before on_done', len(rec) == 1 and norm(rec[0].args[0]) == h.name and bool(called) and rec[0]._pos < called[0]._pos, 'result() would not raise')
    mk = [c for c in own_calls(f.node) if (dotted(c.func) or '').endswith('get_make_request_args')]
    ok = len(mk) == 1 and AL in [norm(a) for a in mk[0].args] + [norm(k.value) for k in mk[0].keywords]
    ctx.ob(f, 'normal path: get_make_request_args(..., on_done_after_calls)', ok, 'the CRT on_done callback would not release the permit')
    rel = ctx.func('crt.CRTTransferManager._release_semaphore')
    cs = [c for c in own_calls(rel.node) if (dotted(c.func) or '') == 'self._semaphore.release']
    ctx.ob(rel, '_release_semaphore -> self._semaphore.release() once', len(cs) == 1 and not q.guards(cs[0]) and q.in_loop(cs[0]) is None, 'release changed')
    n_acq = sum(1 for ff in ctx.p.all_functions() if ff.module.name == 'crt' for c in own_calls(ff.node) if (dotted(c.func) or '') in ('self._semaphore.acquire', 'self._semaphore.release'))
    ctx.ob('crt', 'the semaphore is acquired/released nowhere else', n_acq == 2, f'{n_acq} acquire/release sites')
    # forwarding through the builders
    creator = ctx.cls('crt.S3ClientArgsCreator')
    gm = creator.methods['get_make_request_args']
    hn = (q.names_defined_by(gm, lambda v: isinstance(v, ast.Call) and norm(v.func) == 'getattr') or ['request_args_handler'])[0]
    cs = [c for c in own_calls(gm.node) if isinstance(c.func, ast.Name) and c.func.id == hn]
    ok = len(cs) == 1 and norm(kwarg(cs[0], 'on_done_after_calls')) == 'on_done_after_calls' and norm(kwarg(cs[0], 'on_done_before_calls')) == '[]'
    ctx.ob(gm, 'get_make_request_args forwards on_done_after_calls (fresh before-list)', ok, 'after-calls lost on the way to the request builder')
    builders = [m for name, m in creator.methods.items() if name.startswith('_get_make_request_args_')]
    ctx.need(len(builders) >= 2, 'request-args builders not found')
    for m in builders:
        cs = [c for c in own_calls(m.node) if (dotted(c.func) or '') == 'self._default_get_make_request_args']
        b = q.bound(ctx, m, cs[0]) if len(cs) == 1 else {}
        ok = len(cs) == 1 and norm(b.get('on_done_after_calls')) == 'on_done_after_calls' and norm(b.get('on_done_before_calls')) == 'on_done_before_calls'
        muts = [c for c in own_calls(m.node) if isinstance(c.func, ast.Attribute) and norm(c.func.value) == 'on_done_after_calls']
        rets = [x for x in own_nodes(m.node) if isinstance(x, ast.Return)]
        var = cs[0]._parent.targets[0].id if cs and isinstance(cs[0]._parent, ast.Assign) else None
        ctx.ob(m, f'{m.name}: forwards both callback lists unchanged and returns the default args', ok and not muts and bool(rets) and all(norm(r.value) == var for r in rets),
               'this request type would lose the permit release / done handler')
    d = creator.methods['_default_get_make_request_args']
    cs = [c for c in own_calls(d.node) if (dotted(c.func) or '') == 'self.get_crt_callback' and len(c.args) >= 2 and norm(c.args[1]) == "'done'"]
    ok = len(cs) == 1 and [norm(q.argn(cs[0], nm, k)) for k, nm in enumerate(('future', 'callback_type', 'before_subscribers', 'after_subscribers'))] \
        == ['future', "'done'", 'on_done_before_calls', 'on_done_after_calls']
    dct = [n for n in own_nodes(d.node) if isinstance(n, ast.Dict) and any(isinstance(k, ast.Constant) and k.value == 'on_done' for k in n.keys)]
    ok = ok and len(dct) == 1 and any(isinstance(k, ast.Constant) and k.value == 'on_done' and q.resolve_local(d, v) is cs[0] for k, v in zip(dct[0].keys, dct[0].values))
    ctx.ob(d, "'on_done': get_crt_callback(future, 'done', on_done_before_calls, on_done_after_calls)", ok, 'the composed on_done callback is not what the CRT request gets')


@rule('C20.b', ['C20'], floor=4)
def callback_composition_order(ctx):
    """get_crt_callback builds before-subscribers, then get_callbacks(future, type), then
    after-subscribers and calls them in that order; AfterDoneHandler is appended to the
    after list behind the release; RenameTempFileHandler goes to the before list."""
    f = ctx.func('crt.S3ClientArgsCreator.get_crt_callback.<locals>.invoke_all_callbacks')
    g = ctx.cfg(f)
    lps = [l for l in own_nodes(f.node) if isinstance(l, ast.For) and isinstance(l.iter, ast.Name)]
    CL = norm(lps[0].iter) if len(lps) == 1 else 'callbacks_list'
    adds = [n for n in own_nodes(f.node) if isinstance(n, ast.AugAssign) and norm(n.target) == CL]
    seq = [norm(n.value) for n in sorted(adds, key=lambda n: n._pos)]
    ok = seq == ['before_subscribers', 'get_callbacks(future, callback_type)', 'after_subscribers']
    if ok:
        a, b, c = [g.nodes_of(n) for n in sorted(adds, key=lambda n: n._pos)]
        ok = g.all_dominate(b, c, g.NORMAL) and not (g.reach(b, labels=g.NORMAL) & set(a)) and not q.guards(sorted(adds, key=lambda n: n._pos)[1])
    ctx.ob(f, 'callbacks_list = before + subscribers + after', ok, f'on_done subscribers must run after the rename and before the permit release / done handler: {seq}')
    init = [v for st, v in q.local_defs(f, CL) if isinstance(st, ast.Assign) and isinstance(v, ast.AST)]
    ctx.ob(f, 'callbacks_list starts empty', len(init) == 1 and norm(init[0]) == '[]', f'{[norm(v) for v in init]}')
    loops = [n for n in own_nodes(f.node) if isinstance(n, ast.For) and norm(n.iter) == CL]
    calls = [c for c, r in q.calls_in(ctx, f) if r.kind == 'open' and loops and isinstance(c.func, ast.Name) and c.func.id == norm(loops[0].target)]
    ok = len(loops) == 1 and calls and all(q.in_loop(c) is loops[0] for c in calls)
    ctx.ob(f, 'for callback in callbacks_list: callback(...) in list order', ok, 'callbacks are not invoked in composition order')
    s = ctx.func('crt.CRTTransferManager._submit_transfer')
    aln = q.names_defined_by(s, lambda v: isinstance(v, ast.List) and any(norm(e) == 'self._release_semaphore' for e in v.elts))
    AL = aln[0] if len(aln) == 1 else 'on_done_after_calls'
    cn = (q.names_defined_by(s, lambda v: isinstance(v, ast.Call) and norm(v.func) == 'CRTTransferCoordinator') or ['coordinator'])[0]
    # the after-list is [release, AfterDoneHandler(coordinator)] - written as one display or display + unconditional append
    els = q.list_elements(s, AL)
    ok = els is not None and [q.ntext(s, e) for e in els] == ['self._release_semaphore', f'AfterDoneHandler({cn})']
    ctx.ob(s, 'on_done_after_calls.append(AfterDoneHandler(coordinator)) - after the release, unconditionally', ok, 'done-callbacks-complete would be signalled before the permit is released / not at all')
    gobj = ctx.func('crt.S3ClientArgsCreator._get_make_request_args_get_object')
    apps = [c for c in own_calls(gobj.node) if isinstance(c.func, ast.Attribute) and c.func.attr == 'append' and c.args and norm(c.args[0]).startswith('RenameTempFileHandler(')]
    ok = len(apps) == 1 and norm(apps[0].func.value) == 'on_done_before_calls' and q.guards_imply(q.guards(apps[0]), 'isinstance(call_args.fileobj, str)')
    ctx.ob(gobj, 'RenameTempFileHandler appended to on_done_before_calls for path downloads', ok, 'the file must be in place (or removed) before on_done subscribers run')
    a = ctx.func('crt.AfterDoneHandler.__call__')
    cs = [c for c in own_calls(a.node) if (dotted(c.func) or '') == 'self._coordinator.set_done_callbacks_complete']
    ctx.ob(a, 'AfterDoneHandler -> coordinator.set_done_callbacks_complete()', len(cs) == 1 and not q.guards(cs[0]), 'shutdown would wait forever')


@rule('C20.d', ['C20'], floor=4)
def shutdown_waits_for_callbacks(ctx):
    """_shutdown waits for every transfer's done callbacks in finally; every submitted
    coordinator is appended to _future_coordinators on both continuations."""
    # on the fully expanded _shutdown (the three small helpers inlined, however the method is cut)
    x = ctx.expanded()
    f = x.func('crt.CRTTransferManager._shutdown')
    from ..ir import ancestors as _anc

    def over_all(c, unless_done=False):
        lp = q.in_loop(c)
        inner = [(e, p) for e, p in q.guards(c) if any(a is lp for a in _anc(e))] if lp is not None else []
        if unless_done:
            inner = [(e, p) for e, p in inner if not (norm(e).endswith('.done()') and p is False)]
        return isinstance(lp, ast.For) and norm(lp.iter) == 'self._future_coordinators' and isinstance(lp.target, ast.Name) \
            and isinstance(c.func, ast.Attribute) and norm(c.func.value) == lp.target.id and not inner
    cs = [c for c in own_calls(f.node) if (dotted(c.func) or '').endswith('wait_until_on_done_callbacks_complete')]
    ok = len(cs) == 1 and over_all(cs[0]) and any(field == 'finalbody' for _, field in q.enclosing_trys(cs[0]))
    ctx.ob(f.qualname, 'self._wait_transfers_done() in finally', ok, 'shutdown could return while done callbacks are still running', node=f.node)
    ctx.ob(f.qualname, 'wait for the done callbacks of every tracked coordinator', ok, 'some transfer is not waited for', node=f.node)
    fin = [c for c in own_calls(f.node) if isinstance(c.func, ast.Attribute) and c.func.attr == 'result' and over_all(c) and not q.in_handler(c)
           and not any(field == 'finalbody' for _, field in q.enclosing_trys(c))]
    ctx.ob(f.qualname, 'self._finish_transfers() inside the try', len(fin) == 1 and any(field == 'body' for _, field in q.enclosing_trys(fin[0])), 'shutdown must wait for the transfers themselves', node=f.node)
    can = [c for c in own_calls(f.node) if isinstance(c.func, ast.Attribute) and c.func.attr == 'cancel' and over_all(c, unless_done=True) and not q.in_handler(c)]
    ctx.ob(f.qualname, 'cancel requested -> self._cancel_transfers() first', len(can) == 1 and q.guards_imply(q.guards(can[0]), 'cancel'), 'shutdown(cancel=True) must cancel', node=f.node)
    s = ctx.func('crt.CRTTransferManager._submit_transfer')
    g = ctx.cfg(s)
    cn = (q.names_defined_by(s, lambda v: isinstance(v, ast.Call) and norm(v.func) == 'CRTTransferCoordinator') or ['coordinator'])[0]
    app = [x for c in own_calls(s.node) if (dotted(c.func) or '') == 'self._future_coordinators.append' and norm(c.args[0]) == cn for x in g.nodes_of(c)]
    ctx.ob(s, 'self._future_coordinators.append(coordinator) on every normal path', bool(app) and g.must_pass([g.entry], app, [g.exit], None), 'an untracked transfer is not waited for at shutdown')
    # the tracking list only grows: nothing removes or replaces entries outside __init__ (a coordinator
    # whose future is resolved may still be running its done callbacks - done() says nothing about them)
    mgr = ctx.cls('crt.CRTTransferManager')
    for m in mgr.methods.values():
        if m.name == '__init__':
            continue
        for n in own_nodes(m.node):
            bad = None
            if isinstance(n, (ast.Assign, ast.AugAssign, ast.Delete)):
                tg = n.targets if isinstance(n, (ast.Assign, ast.Delete)) else [n.target]
                if any('self._future_coordinators' in norm(t) for t in tg):
                    bad = n
            elif isinstance(n, ast.Call) and isinstance(n.func, ast.Attribute) and norm(n.func.value) == 'self._future_coordinators' \
                    and n.func.attr in ('remove', 'pop', 'clear', 'sort', 'reverse', 'insert', 'extend'):
                bad = n
            if bad is not None:
                ctx.ob(m, bad, False, 'a tracked coordinator dropped before its done callbacks completed is not waited for by shutdown')
    ctx.ob(mgr.qualname, '_future_coordinators is only appended to after __init__', True, 'tracking list integrity', trivial=True)
    c = ctx.cls('crt.CRTTransferCoordinator')
    sd = c.methods['set_done_callbacks_complete']
    wt = c.methods['wait_until_on_done_callbacks_complete']
    ok = any((dotted(x.func) or '') == 'self._done_event.set' for x in own_calls(sd.node)) and any((dotted(x.func) or '') == 'self._done_event.wait' for x in own_calls(wt.node))
    ctx.ob(c.qualname, 'done-callbacks event: set by the handler, waited on by shutdown', ok, 'event wiring changed')
