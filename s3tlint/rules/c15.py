"""C15 - extra arguments reach exactly the S3 operations that accept them.

Exhaustive table: entry point x mode x operation x argument, evaluated from the
source (allow-lists, per-operation filters, mapping dicts, injected keys) and
compared with the input shapes of the installed botocore S3 service model, read
as data (gzip + json, botocore is never imported)."""
import ast
import gzip
import importlib.util
import json
import os

from ..engine import rule
from ..ir import AnalysisError, ClassInfo, FuncInfo, ancestors, dotted, enclosing_func, kwarg, norm, own_calls, own_nodes, short
from .. import q

OPS = {  # snake_case client method -> API operation name
    'put_object': 'PutObject', 'create_multipart_upload': 'CreateMultipartUpload', 'upload_part': 'UploadPart',
    'complete_multipart_upload': 'CompleteMultipartUpload', 'abort_multipart_upload': 'AbortMultipartUpload',
    'get_object': 'GetObject', 'head_object': 'HeadObject', 'copy_object': 'CopyObject',
    'upload_part_copy': 'UploadPartCopy', 'delete_object': 'DeleteObject',
}

# namedtuple / queue hops that no def-use chain crosses: (module, base name) -> (callee name, keyword)
FIELD_HOPS = {
    ('processpool', 'download_file_request'): ('DownloadFileRequest', 'extra_args'),
    ('processpool', 'job'): (('_submit_get_object_job', 'GetObjectJob'), 'extra_args'),
}

# processes fed through multiprocessing queues: the entry point of their requests
ENTRY_BY_CLASS = {
    'processpool.GetObjectSubmitter': 'processpool.ProcessPoolDownloader.download_file',
    'processpool.GetObjectWorker': 'processpool.ProcessPoolDownloader.download_file',
}

# Drops the statement itself makes (argument in the allow-list, operation has a member of that name, not forwarded)
def intended_drop(entry, op, arg, full_object_checksums):
    if op == 'upload_part' and arg in full_object_checksums:
        return 'a user-supplied full-object checksum never goes to individual parts'
    if op == 'head_object' and entry.endswith('.copy'):
        return "HeadObject of a copy addresses the *source* object: only mapped CopySource* arguments (and RequestPayer/ExpectedBucketOwner) apply"
    if op == 'upload_part_copy' and arg in full_object_checksums:
        return 'full-object checksum is not a part argument'
    return None


def service_model():
    spec = importlib.util.find_spec('botocore')
    if spec is None or not spec.submodule_search_locations:
        raise AnalysisError('botocore is not installed: no S3 service model to compare with')
    base = os.path.join(list(spec.submodule_search_locations)[0], 'data', 's3', '2006-03-01')
    for fn in ('service-2.json.gz', 'service-2.json'):
        p = os.path.join(base, fn)
        if os.path.exists(p):
            with (gzip.open(p, 'rt') if fn.endswith('.gz') else open(p)) as fh:
                m = json.load(fh)
            shapes = {}
            for snake, api in OPS.items():
                o = m['operations'].get(api)
                if o is None:
                    raise AnalysisError(f'operation {api} missing from the service model')
                shapes[snake] = set(m['shapes'][o['input']['shape']]['members'])
            return shapes, p
    raise AnalysisError(f'no service-2.json under {base}')


class Unknown(Exception):
    pass


class KeyEval:
    """Evaluate the *key set* of a dict-valued expression, given the entry's allow-list."""

    def __init__(self, ctx):
        self.ctx = ctx
        self.notes = []

    def const(self, expr, func):
        try:
            return q.const_eval(self.ctx, expr, func.module, func.cls)
        except q.NotConst as e:
            raise Unknown(f'table {norm(expr)} in {func.qualname} is not constant-evaluable: {e}')

    # -- entry discovery ---------------------------------------------------
    def allow_list_in(self, f, name):
        """f validates `name` against an allow-list: return it (list) or None."""
        for c in own_calls(f.node):
            d = dotted(c.func) or ''
            if d.endswith('_validate_all_known_args') and c.args and isinstance(c.args[0], ast.Name) and c.args[0].id == name:
                if len(c.args) >= 2:
                    return list(self.const(c.args[1], f)), f, c
                # processpool: the list is hard-wired in the validator
                tgt = [t for t in self.ctx.r.resolve(c, f, _count=False).targets]
                for t in tgt:
                    for n in own_nodes(t.node):
                        if isinstance(n, ast.Compare) and isinstance(n.ops[0], ast.NotIn):
                            return list(self.const(n.comparators[0], t)), f, c
        # the validator written in place / de-extracted into the entry point: `for k in <name>: if k not in LIST: raise ValueError`
        for lp in own_nodes(f.node):
            if isinstance(lp, ast.For) and isinstance(lp.target, ast.Name) and isinstance(lp.iter, ast.Name) and lp.iter.id == name:
                for r in ast.walk(lp):
                    if isinstance(r, ast.Raise) and r.exc is not None and 'ValueError' in norm(r.exc):
                        for e, p in q.guards(r):
                            if isinstance(e, ast.Compare) and len(e.ops) == 1 and isinstance(e.ops[0], (ast.In, ast.NotIn)) and norm(e.left) == lp.target.id \
                                    and (isinstance(e.ops[0], ast.NotIn) == p):
                                return list(self.const(e.comparators[0], f)), f, lp
        return None

    def entry_for_submission_task(self, cls):
        mgr = self.ctx.cls('manager.TransferManager')
        for m in mgr.methods.values():
            for c in own_calls(m.node):
                if (dotted(c.func) or '').endswith('_submit_transfer') and len(c.args) >= 2:
                    g = self.ctx.p.resolve_name_expr(m.module, c.args[1])
                    if g is cls:
                        al = self.allow_list_in(m, 'extra_args')
                        if al is None:
                            raise Unknown(f'{m.qualname} does not validate extra_args')
                        return al
        raise Unknown(f'no TransferManager method submits {cls.qualname}')

    # -- evaluation ----------------------------------------------------------
    # A value is (may, must, entry): keys that can be present / are present on every
    # flow (alternative callers, modes, definitions), and the validating entry point.
    @staticmethod
    def alt(vals):
        vals = list(vals)
        may = set().union(*[v[0] for v in vals]) if vals else set()
        must = set.intersection(*[set(v[1]) for v in vals]) if vals else set()
        ent = next((v[2] for v in vals if v[2]), None)
        return may, must, ent

    @staticmethod
    def seq(vals):
        vals = list(vals)
        may = set().union(*[v[0] for v in vals]) if vals else set()
        must = set().union(*[v[1] for v in vals]) if vals else set()
        ent = next((v[2] for v in vals if v[2]), None)
        return may, must, ent

    def keys(self, expr, func, env=None, depth=0):
        """-> (may keys, must keys, entry qualname or None)"""
        env = env or {}
        if depth > 14:
            raise Unknown('evaluation too deep')
        ctx = self.ctx
        if isinstance(expr, ast.Dict):
            parts = []
            for k, v in zip(expr.keys, expr.values):
                if k is None:
                    parts.append(self.keys(v, func, env, depth + 1))
                elif isinstance(k, ast.Constant):
                    parts.append(({k.value}, {k.value}, None))
                else:
                    raise Unknown(f'non-constant dict key {norm(k)}')
            return self.seq(parts)
        if isinstance(expr, ast.Attribute) and expr.attr == 'copy_source':
            # documented user dict: {'Bucket':..., 'Key':..., 'VersionId':...}
            return {'Bucket', 'Key', 'VersionId'}, {'Bucket', 'Key'}, None
        if isinstance(expr, ast.Attribute) and expr.attr == 'extra_args':
            base = expr.value
            bname = base.id if isinstance(base, ast.Name) else None
            hop = FIELD_HOPS.get((func.module.name, bname))
            if hop:
                return self.field_hop(func, hop, depth)
            d = dotted(expr) or ''
            if 'call_args' in d:
                if func.cls is None:
                    raise Unknown(f'call_args.extra_args outside a class in {func.qualname}')
                subm = ctx.cls('tasks.SubmissionTask')
                if func.cls.is_subclass_of(subm):
                    al, ef, _ = self.entry_for_submission_task(func.cls)
                    return set(al), set(al), ef.qualname
            raise Unknown(f'origin of {d} in {func.qualname} not modelled')
        if isinstance(expr, ast.Name):
            name = expr.id
            if name in env:
                return env[name]
            if name in func.params + func.kwonly:
                return self.param(func, name, depth)
            return self.local(func, name, env, depth)
        if isinstance(expr, ast.Call):
            d = dotted(expr.func) or ''
            tail = d.split('.')[-1]
            if tail == 'get_filtered_dict':
                tgt = ctx.func('utils.get_filtered_dict')
                b = q.bind_args(ctx, expr, func, tgt) or {}
                may, must, ent = self.keys(b['original_dict'], func, env, depth + 1)
                wl, bl = b.get('whitelisted_keys'), b.get('blocklisted_keys')
                wls = set(self.const(wl, func)) if wl is not None and not (isinstance(wl, ast.Constant) and wl.value is None) else None
                bls = set(self.const(bl, func)) if bl is not None and not (isinstance(bl, ast.Constant) and bl.value is None) else None
                self.check_filtered_dict_semantics()
                keep = lambda k: bool((wls and k in wls) or (bls and k not in bls))
                return {k for k in may if keep(k)}, {k for k in must if keep(k)}, ent
            if tail in ('copy', 'dict', 'deepcopy') and (expr.args or isinstance(expr.func, ast.Attribute)):
                inner = expr.args[0] if expr.args else expr.func.value
                return self.keys(inner, func, env, depth + 1)
            r = ctx.r.resolve(expr, func, _count=False)
            if r.kind == 'package' and r.targets and all(t.name != '__init__' for t in r.targets):
                alts = []
                for t in r.targets:
                    b = q.bind_args(ctx, expr, func, t) or {}
                    env2 = {}
                    for pn, a in b.items():
                        if isinstance(a, ast.AST):
                            try:
                                env2[pn] = self.keys(a, func, env, depth + 1)
                            except Unknown:
                                pass
                    rets = [n for n in own_nodes(t.node) if isinstance(n, ast.Return) and n.value is not None]
                    if not rets:
                        raise Unknown(f'{t.qualname} returns nothing')
                    for rt in rets:
                        alts.append(self.keys(rt.value, t, env2, depth + 1))
                return self.alt(alts)
            raise Unknown(f'call {short(expr, 60)} in {func.qualname} not modelled')
        if isinstance(expr, ast.DictComp) and len(expr.generators) == 1 and isinstance(expr.generators[0].target, ast.Tuple) \
                and len(expr.generators[0].target.elts) == 2 and all(isinstance(e, ast.Name) for e in expr.generators[0].target.elts):
            # {k: v for k, v in X.items() if k [not] in L}   /   {MAP[k]: v for ...}
            gen = expr.generators[0]
            kvar, vvar = (e.id for e in gen.target.elts)
            if not (isinstance(gen.iter, ast.Call) and isinstance(gen.iter.func, ast.Attribute) and gen.iter.func.attr == 'items' and not gen.iter.args):
                raise Unknown(f'dict comprehension over {norm(gen.iter)}')
            if not (isinstance(expr.value, ast.Name) and expr.value.id == vvar):
                raise Unknown(f'dict comprehension value {norm(expr.value)}')
            may, must, ent = self.keys(gen.iter.func.value, func, env, depth + 1)
            for cond in gen.ifs:
                conds = cond.values if isinstance(cond, ast.BoolOp) and isinstance(cond.op, ast.And) else [cond]
                for cnd in conds:
                    if isinstance(cnd, ast.Compare) and len(cnd.ops) == 1 and isinstance(cnd.left, ast.Name) and cnd.left.id == kvar \
                            and isinstance(cnd.ops[0], (ast.In, ast.NotIn)):
                        L = self.const(cnd.comparators[0], func)
                        Lk = set(L.keys()) if isinstance(L, dict) else set(L)
                        inside = isinstance(cnd.ops[0], ast.In)
                        may = {k for k in may if (k in Lk) == inside}
                        must = {k for k in must if (k in Lk) == inside}
                    else:
                        raise Unknown(f'comprehension condition {norm(cnd)}')
            if isinstance(expr.key, ast.Name) and expr.key.id == kvar:
                return may, must, ent
            if isinstance(expr.key, ast.Subscript) and isinstance(expr.key.slice, ast.Name) and expr.key.slice.id == kvar:
                M = self.const(expr.key.value, func)
                if not isinstance(M, dict):
                    raise Unknown(f'{norm(expr.key.value)} is not a dict')
                return {M[k] for k in may if k in M}, {M[k] for k in must if k in M}, ent
            raise Unknown(f'dict comprehension key {norm(expr.key)}')
        if isinstance(expr, ast.DictComp) and len(expr.generators) == 1:
            gen = expr.generators[0]
            if isinstance(gen.target, ast.Name) and isinstance(expr.key, ast.Name) and expr.key.id == gen.target.id:
                try:
                    L = set(self.const(gen.iter, func))
                    cur = (set(L), set(L), None)
                except Unknown:
                    cur = self.keys(gen.iter, func, env, depth + 1)
                for cond in gen.ifs:
                    if isinstance(cond, ast.Compare) and len(cond.ops) == 1 and isinstance(cond.left, ast.Name) and cond.left.id == gen.target.id \
                            and isinstance(cond.ops[0], (ast.In, ast.NotIn)):
                        try:
                            o = set(self.const(cond.comparators[0], func))
                            other = (o, o, None)
                        except Unknown:
                            other = self.keys(cond.comparators[0], func, env, depth + 1)
                        if isinstance(cond.ops[0], ast.In):
                            cur = (cur[0] & other[0], cur[1] & other[1], cur[2] or other[2])
                        else:
                            cur = (cur[0] - other[1], cur[1] - other[0], cur[2] or other[2])
                    else:
                        raise Unknown(f'comprehension condition {norm(cond)}')
                if isinstance(expr.value, ast.Subscript) and isinstance(expr.value.value, ast.Name):
                    o = self.keys(expr.value.value, func, env, depth + 1)
                    cur = (cur[0] & o[0], cur[1] & o[1], cur[2] or o[2])
                return cur
            raise Unknown(f'dict comprehension {short(expr, 60)}')
        if isinstance(expr, ast.IfExp):
            return self.alt([self.keys(expr.body, func, env, depth + 1), self.keys(expr.orelse, func, env, depth + 1)])
        if isinstance(expr, ast.Subscript):
            raise Unknown(f'subscript {norm(expr)}')
        raise Unknown(f'expression {short(expr, 60)} in {func.qualname} not modelled')

    _gfd_checked = None

    def check_filtered_dict_semantics(self):
        if KeyEval._gfd_checked is not None and KeyEval._gfd_checked[0] is self.ctx:
            return
        f = self.ctx.func('utils.get_filtered_dict')
        ifs = [n for n in own_nodes(f.node) if isinstance(n, ast.If)]
        lp = [l for l in own_nodes(f.node) if isinstance(l, ast.For) and norm(l.iter) == f'{f.params[0]}.items()' and isinstance(l.target, ast.Tuple)]
        kv = norm(lp[0].target.elts[0]) if len(lp) == 1 else 'key'
        vv = norm(lp[0].target.elts[1]) if len(lp) == 1 else 'value'
        rn = (q.returned_names(f) or ['filtered_dict'])[0]
        want = f'(whitelisted_keys and {kv} in whitelisted_keys) or (blocklisted_keys and {kv} not in blocklisted_keys)'
        ok = len(ifs) == 1 and q.equivalent(ifs[0].test, want) \
            and any(isinstance(s, ast.Assign) and norm(s.targets[0]) == f'{rn}[{kv}]' and norm(s.value) == vv for s in ifs[0].body)
        self.ctx.ob(f, 'get_filtered_dict keeps key iff (whitelist and key in whitelist) or (blocklist and key not in blocklist)', ok,
                    f'filter semantics changed: {norm(ifs[0].test) if ifs else "?"}', rule='C15.t')
        KeyEval._gfd_checked = (self.ctx, ok)

    def field_hop(self, func, hop, depth):
        callee, kw = hop
        alts = []
        mod = func.module
        for f in self.ctx.p.all_functions():
            if f.module is not mod:
                continue
            for c in own_calls(f.node):
                if (dotted(c.func) or '').split('.')[-1] in ((callee,) if isinstance(callee, str) else callee):
                    v = kwarg(c, kw)
                    if v is not None:
                        alts.append(self.keys(v, f, None, depth + 1))
        if not alts:
            raise Unknown(f'no {callee}({kw}=...) site found')
        return self.alt(alts)

    def param(self, func, name, depth):
        ctx = self.ctx
        al = self.allow_list_in(func, name)
        if al is not None:
            return set(al[0]), set(al[0]), al[1].qualname
        base = ctx.cls('tasks.Task')
        if func.cls is not None and func.cls.is_subclass_of(base) and func.name == '_main' and not func.cls.is_subclass_of(ctx.cls('tasks.SubmissionTask')):
            raise Unknown('task parameter: resolved per submit site')
        alts = []
        for cf, c, r in q.callers_of(ctx, func.qualname):
            b = q.bind_args(ctx, c, cf, func)
            if b is None or name not in b or isinstance(b[name], list):
                continue
            alts.append(self.keys(b[name], cf, None, depth + 1))
        # functools.partial(self.f, a, b, ...) binds leading positionals
        for cf in ctx.p.all_functions():
            if cf.module is not func.module:
                continue
            for c in own_calls(cf.node):
                if ((dotted(c.func) or '').endswith('partial') or (dotted(c.func) or '') == 'FunctionContainer') and c.args and isinstance(c.args[0], ast.Attribute) and c.args[0].attr == func.name:
                    bp = func.bound_params()
                    if name in bp and bp.index(name) + 1 < len(c.args):
                        alts.append(self.keys(c.args[bp.index(name) + 1], cf, None, depth + 1))
        if not alts:
            raise Unknown(f'parameter {name} of {func.qualname}: no caller binds it')
        return self.alt(alts)

    def local(self, func, name, env, depth):
        defs = [(st, v) for st, v in q.local_defs(func, name) if isinstance(st, (ast.Assign, ast.AnnAssign))]
        if not defs:
            raise Unknown(f'{name} in {func.qualname} has no definition')
        cur = self.alt([self.keys(v, func, env, depth + 1) for st, v in defs])
        parts = [cur]
        # mutations: name.update(E), name['K'] = v, name[MAP[p]] = v in a filtering loop
        for n in own_nodes(func.node):
            if isinstance(n, ast.Call) and isinstance(n.func, ast.Attribute) and isinstance(n.func.value, ast.Name) and n.func.value.id == name:
                if n.func.attr == 'update' and n.args:
                    v = self.keys(n.args[0], func, env, depth + 1)
                    parts.append(v if not q.guards(n) else (v[0], set(), v[2]))
                elif n.func.attr in ('setdefault',) and n.args and isinstance(n.args[0], ast.Constant):
                    parts.append(({n.args[0].value}, {n.args[0].value}, None))
                elif n.func.attr in ('pop', 'clear', 'popitem'):
                    raise Unknown(f'{name}.{n.func.attr}() in {func.qualname}')
            if isinstance(n, ast.Assign) and isinstance(n.targets[0], ast.Subscript) and isinstance(n.targets[0].value, ast.Name) and n.targets[0].value.id == name:
                sl = n.targets[0].slice
                if isinstance(sl, ast.Constant):
                    parts.append(({sl.value}, {sl.value} if not q.guards(n) else set(), None))
                else:
                    parts.append(self.loop_store(func, n, sl, env, depth))
        return self.seq(parts)

    def loop_store(self, func, store, sl, env, depth):
        """d[key] = value / d[MAP[key]] = value inside `for key, value in X.items(): if key [not] in L:`"""
        if isinstance(sl, ast.Name):
            sl = q.resolve_local(func, sl)  # head_param = MAP[param]; d[head_param] = value
        loop = None
        for a in ancestors(store):
            if isinstance(a, ast.For):
                loop = a
                break
        if loop is not None and isinstance(loop.target, ast.Name) and isinstance(sl, ast.Name) and sl.id == loop.target.id:
            # for k in L: if k [not] in X: d[k] = src[k]       (canonical form of {k: src[k] for k in L if k in X})
            kv = loop.target.id
            try:
                L = set(self.const(loop.iter, func))
                cur = (set(L), set(L), None)
            except Unknown:
                cur = self.keys(loop.iter, func, env, depth + 1)
            for t, pol in [(t, pol) for t, pol in q.guards(store) if any(a is loop for a in ancestors(t))]:
                if isinstance(t, ast.Compare) and len(t.ops) == 1 and isinstance(t.left, ast.Name) and t.left.id == kv and isinstance(t.ops[0], (ast.In, ast.NotIn)):
                    try:
                        o = set(self.const(t.comparators[0], func))
                        other = (o, o, None)
                    except Unknown:
                        other = self.keys(t.comparators[0], func, env, depth + 1)
                    if isinstance(t.ops[0], ast.In) == pol:
                        cur = (cur[0] & other[0], cur[1] & other[1], cur[2] or other[2])
                    else:
                        cur = (cur[0] - other[1], cur[1] - other[0], cur[2] or other[2])
                else:
                    raise Unknown(f'guard {norm(t)} of {norm(store)} not modelled')
            v = store.value
            if isinstance(v, ast.Subscript) and isinstance(v.slice, ast.Name) and v.slice.id == kv:
                o = self.keys(v.value, func, env, depth + 1)
                cur = (cur[0] & o[0], cur[1] & o[1], cur[2] or o[2])
            return cur
        if loop is None or not (isinstance(loop.iter, ast.Call) and isinstance(loop.iter.func, ast.Attribute) and loop.iter.func.attr == 'items'):
            raise Unknown(f'store {norm(store)} is not in a `for k, v in X.items()` loop')
        may, must, ent = self.keys(loop.iter.func.value, func, env, depth + 1)
        kvar = loop.target.elts[0].id if isinstance(loop.target, ast.Tuple) else None
        gs = [(t, pol) for t, pol in q.guards(store) if any(a is loop for a in ancestors(t))]
        keep = lambda k: True
        preds = []
        for t, pol in gs:
            if isinstance(t, ast.Compare) and len(t.ops) == 1 and isinstance(t.left, ast.Name) and t.left.id == kvar and isinstance(t.ops[0], (ast.In, ast.NotIn)):
                L = self.const(t.comparators[0], func)
                Lk = set(L.keys()) if isinstance(L, dict) else set(L)
                inside = isinstance(t.ops[0], ast.In) == pol
                preds.append((Lk, inside))
            elif isinstance(t, ast.Compare) and len(t.ops) == 1 and isinstance(t.ops[0], (ast.Is, ast.IsNot)) and isinstance(t.comparators[0], ast.Constant) \
                    and t.comparators[0].value is None and self._map_get(func, t.left, kvar) is not None:
                # `m = M.get(k)` ... `if m is [not] None`: membership of k in M (M is a constant dict without None values)
                M = self._map_get(func, t.left, kvar)
                inside = isinstance(t.ops[0], ast.IsNot) == pol
                preds.append((set(M.keys()), inside))
            else:
                raise Unknown(f'guard {norm(t)} of {norm(store)} not modelled')
        ok = lambda k: all((k in Lk) == inside for Lk, inside in preds)
        may = {k for k in may if ok(k)}
        must = {k for k in must if ok(k)}
        if isinstance(sl, ast.Name) and sl.id == kvar:
            return may, must, ent
        if isinstance(sl, ast.Subscript) and isinstance(sl.slice, ast.Name) and sl.slice.id == kvar:
            M = self.const(sl.value, func)
            if not isinstance(M, dict):
                raise Unknown(f'{norm(sl.value)} is not a dict')
            return {M[k] for k in may if k in M}, {M[k] for k in must if k in M}, ent
        M = self._map_get(func, sl, kvar)
        if M is not None:
            return {M[k] for k in may if k in M}, {M[k] for k in must if k in M}, ent
        raise Unknown(f'store key {norm(sl)} not modelled')

    def _map_get(self, func, e, kvar):
        """e (or the local it names) is M.get(<loop key>) for a constant dict M without None values -> M, else None"""
        if isinstance(e, ast.Name):
            e = q.resolve_local(func, e)
        if isinstance(e, ast.Call) and isinstance(e.func, ast.Attribute) and e.func.attr == 'get' and len(e.args) == 1 and not e.keywords \
                and isinstance(e.args[0], ast.Name) and e.args[0].id == kvar:
            try:
                M = self.const(e.func.value, func)
            except Unknown:
                return None
            if isinstance(M, dict) and all(v is not None for v in M.values()):
                return M
        return None


def star_kwargs(call):
    return [k.value for k in call.keywords if k.arg is None]


def fixed_kwargs(call):
    return {k.arg for k in call.keywords if k.arg is not None}


@rule('C15.t', ['C15'], floor=60)
def forwarding_table(ctx):
    _table(ctx)


def _table(ctx, only=None):
    """For every client call of the package: the keys of **<extra args> (the entry's
    allow-list pushed through the filters on the way) plus the fixed keywords must all
    be members of the operation's input shape (no-unknown), and every allowed argument
    the operation has a member for must be forwarded (no-drop), except the drops the
    statement itself makes.  Exhaustive over allow-list x operation sites."""
    shapes, model_path = service_model()
    ctx.extra['service_model'] = model_path
    ev = KeyEval(ctx)
    try:
        full = set(q.const_eval(ctx, ctx.p.modules['constants'].consts['FULL_OBJECT_CHECKSUM_ARGS'], ctx.p.modules['constants']))
    except Exception as e:
        raise AnalysisError(f'FULL_OBJECT_CHECKSUM_ARGS not evaluable: {e}')
    sites = []  # (entry, mode, op, func, call, forwarded set, allow-list)
    task = ctx.cls('tasks.Task')
    subm = ctx.cls('tasks.SubmissionTask')
    allow = {}

    def add(entry, mode, op, f, c, fwd, must=None):
        sites.append((entry, mode, op, f, c, set(fwd), set(fwd if must is None else must)))

    for f, c, op in q.client_calls(ctx):
        if op not in OPS or f.module.name == 'crt' or (only is not None and op not in only):
            continue
        stars = star_kwargs(c)
        in_task_main = f.cls is not None and f.cls.is_subclass_of(task) and not f.cls.is_subclass_of(subm) and f.name == '_main'
        if in_task_main:
            # resolve the **param through every submit site of this task class
            n = 0
            for s in q.submits(ctx):
                for cl, ctor, owner in s.task_ctors:
                    if cl is None or ctor is None or not (cl is f.cls or cl.is_subclass_of(f.cls)):
                        continue
                    env, entry0 = task_env(ctx, ev, ctor, owner)
                    if env is None:
                        continue
                    fwd, must, entry = set(), set(), entry0
                    for sv in stars:
                        try:
                            s2, m2, e2 = ev.keys(sv, f, env)
                        except Unknown as e:
                            raise AnalysisError(f'cannot evaluate **{norm(sv)} in {f.qualname} (submitted by {owner.qualname}): {e}')
                        fwd |= s2
                        must |= m2
                        entry = entry or e2
                    add(entry, owner.qualname, op, f, c, fwd, must)
                    n += 1
            if not n:
                raise AnalysisError(f'no submit site found for {f.cls.qualname}')
        else:
            fwd, must, entry = set(), set(), None
            try:
                for sv in stars:
                    s2, m2, e2 = ev.keys(sv, f)
                    fwd |= s2
                    must |= m2
                    entry = entry or e2
                if entry is None:
                    entry = find_entry(ctx, ev, f)
            except Unknown as e:
                raise AnalysisError(f'cannot evaluate ** of {short(c, 60)} in {f.qualname}: {e}')
            add(entry, f.qualname, op, f, c, fwd, must)
    # failure-cleanup aborts (method value, kwargs given to add_failure_cleanup)
    for f, n in (q.client_refs(ctx, 'abort_multipart_upload') if only is None or 'abort_multipart_upload' in only else []):
        par = n._parent
        if isinstance(par, ast.Call) and par.args and par.args[0] is n:
            for s in q.submits(ctx):
                for cl, ctor, owner in s.task_ctors:
                    if cl is f.cls and ctor is not None:
                        env, entry0 = task_env(ctx, ev, ctor, owner)
                        if env is None:
                            continue
                        fwd, must = set(), set()
                        for sv in star_kwargs(par):
                            try:
                                s2, m2, e2 = ev.keys(sv, f, env)
                            except Unknown as e:
                                raise AnalysisError(f'cannot evaluate **{norm(sv)} of the abort registration in {f.qualname}: {e}')
                            fwd |= s2
                            must |= m2
                        sites.append((entry0, owner.qualname, 'abort_multipart_upload', f, par, fwd, must))
    ctx.need(len(sites) >= (20 if only is None else 3), f'only {len(sites)} operation sites found')
    # allow-lists per entry
    entries = {}
    for entry, mode, op, f, c, fwd, must in sites:
        if entry is None:
            raise AnalysisError(f'no entry point found for {short(c, 60)} in {f.qualname}')
        if entry not in entries:
            ef = ctx.func(entry)
            al = ev.allow_list_in(ef, 'extra_args')
            if al is None:
                raise AnalysisError(f'{entry} does not validate extra_args')
            entries[entry] = al[0]
    ctx.extra['entries'] = {k: len(v) for k, v in entries.items()}
    cells = 0
    seen = set()
    for entry, mode, op, f, c, fwd, must in sites:
        A = entries[entry]
        shape = shapes[op]
        fixed = fixed_kwargs(c)
        for k in sorted(fixed):
            ctx.ob(f, f'{op}({k}=...) fixed keyword', k in shape or op == 'abort_multipart_upload' and k in shape, f'{k} is not a parameter of {OPS[op]}', trivial=True)
        for a in sorted(set(A) | fwd):
            key = (entry, mode, op, a)
            if key in seen:
                continue
            seen.add(key)
            cells += 1
            label = f'[{entry.split(".")[-1]} / {mode.split(".")[-1]}] {op} <- {a}'
            if only is not None:
                # restricted use (C05.f): only "is every forwarded argument known to the operation"
                if a in fwd:
                    ctx.ob(f, label, a in shape, f'{a} is forwarded to {OPS[op]} which has no parameter of that name: botocore rejects the request before it is sent')
                continue
            if a in fwd and a not in shape:
                ctx.ob(f, label + ' (unknown to the operation)', False, f'{a} is forwarded to {OPS[op]} which has no parameter of that name (botocore rejects the request)')
            elif a in A and a in shape and a not in must and a not in fixed:
                why = intended_drop(entry, op, a, full)
                if why:
                    ctx.ob(f, label + ' (intended drop)', True, why, trivial=True)
                else:
                    ctx.ob(f, label + ' (dropped)', False, f'{a} is accepted by {entry} and {OPS[op]} has a parameter of that name, but it is not forwarded to this request')
            else:
                ctx.ob(f, label, True, 'forwarded' if a in fwd else 'not applicable to this operation', trivial=(a not in fwd))
    ctx.extra['cells'] = cells
    if only is not None:
        return
    # allow-list members must be known to at least one operation of their entry
    for entry, A in entries.items():
        ops_of = {op for e, m, op, f, c, fwd, must in sites if e == entry}
        for a in A:
            ok = any(a in shapes[op] for op in ops_of)
            ctx.ob(entry, f'allow-list member {a}', ok, f'{a} is accepted by {entry} but no operation it issues ({sorted(ops_of)}) has a parameter of that name')


def task_env(ctx, ev, ctor, owner):
    """Key sets of the dict-valued main_kwargs a submit site passes to a task, and the entry."""
    mk = kwarg(ctor, 'main_kwargs')
    if not isinstance(mk, ast.Dict):
        return None, None
    env = {}
    entry = None
    for k, v in zip(mk.keys, mk.values):
        if isinstance(k, ast.Constant) and 'extra_args' in str(k.value):
            try:
                env[k.value] = ev.keys(v, owner)
                entry = entry or env[k.value][2]
            except Unknown as e:
                raise AnalysisError(f'cannot evaluate {norm(v)} in {owner.qualname}: {e}')
    if entry is None:
        try:
            al, ef, _ = ev.entry_for_submission_task(owner.cls)
            entry = ef.qualname
        except Unknown as e:
            raise AnalysisError(str(e))
    return env, entry


def find_entry(ctx, ev, f, depth=0, seen=None):
    """Walk up the callers to the function that validates extra_args."""
    seen = seen or set()
    if f in seen or depth > 6:
        return None
    seen.add(f)
    if ev.allow_list_in(f, 'extra_args') is not None:
        return f.qualname
    if f.cls is not None and f.cls.is_subclass_of(ctx.cls('tasks.SubmissionTask')):
        try:
            return ev.entry_for_submission_task(f.cls)[1].qualname
        except Unknown:
            return None
    if f.cls is not None and f.cls.qualname in ENTRY_BY_CLASS:
        return ENTRY_BY_CLASS[f.cls.qualname]
    for cf, c, r in q.callers_of(ctx, f.qualname):
        e = find_entry(ctx, ev, cf, depth + 1, seen)
        if e:
            return e
    for cf, n in q.value_referrers(ctx, f):
        e = find_entry(ctx, ev, cf, depth + 1, seen)
        if e:
            return e
    return None


@rule('C15.m', ['C15'], floor=6)
def copy_head_mapping(ctx):
    """Every CopySource* argument of the copy allow-list that has a HeadObject equivalent
    is a key of EXTRA_ARGS_TO_HEAD_ARGS_MAPPING, mapped to that equivalent; every value
    of the mapping is a HeadObject member; RequestPayer/ExpectedBucketOwner map to
    themselves."""
    shapes, _ = service_model()
    head = shapes['head_object']
    cl = ctx.cls('copies.CopySubmissionTask')
    owner, v = cl.lookup_attr('EXTRA_ARGS_TO_HEAD_ARGS_MAPPING')
    ctx.need(v is not None, 'EXTRA_ARGS_TO_HEAD_ARGS_MAPPING vanished')
    try:
        M = q.const_eval(ctx, v, owner.module, owner)
        A = q.const_eval(ctx, ctx.cls('manager.TransferManager').lookup_attr('ALLOWED_COPY_ARGS')[1], ctx.p.modules['manager'], ctx.cls('manager.TransferManager'))
    except q.NotConst as e:
        raise AnalysisError(f'copy tables not constant: {e}')
    for a in A:
        if a.startswith('CopySource'):
            eq = a[len('CopySource'):]
            if eq in head:
                ctx.ob(cl.qualname, f'{a} -> {eq}', M.get(a) == eq, f'{a} has the HeadObject equivalent {eq} but is mapped to {M.get(a)}: the size-discovery request ignores it')
        elif a in ('RequestPayer', 'ExpectedBucketOwner'):
            ctx.ob(cl.qualname, f'{a} -> {a}', M.get(a) == a, f'{a} must be forwarded to the source HeadObject')
    for k, val in M.items():
        ctx.ob(cl.qualname, f'mapping value {k} -> {val}', val in head and k in A, f'{val} is not a HeadObject parameter / {k} is not an allowed copy argument')


@rule('C15.v', ['C15'], floor=7)
def validate_first(ctx):
    """Every entry point validates extra_args against its own allow-list before it
    submits the transfer / issues the first request."""
    want = {
        'manager.TransferManager.upload': 'ALLOWED_UPLOAD_ARGS', 'manager.TransferManager.download': 'ALLOWED_DOWNLOAD_ARGS',
        'manager.TransferManager.copy': 'ALLOWED_COPY_ARGS', 'manager.TransferManager.delete': 'ALLOWED_DELETE_ARGS',
        '__init__.S3Transfer.upload_file': 'ALLOWED_UPLOAD_ARGS', '__init__.S3Transfer.download_file': 'ALLOWED_DOWNLOAD_ARGS',
        'processpool.ProcessPoolDownloader.download_file': None,
    }
    # judged on the fully expanded entry points: the validator (a method, a module-level function, or written in place)
    # appears there as a loop over extra_args that raises ValueError for a key that is not in the allow-list
    x = ctx.expanded()
    for qn, lst in want.items():
        f = x.func(qn)
        g = x.cfg(f)
        want_list = lst or 'ALLOWED_DOWNLOAD_ARGS'
        loops = []
        for lp in own_nodes(f.node):
            if not (isinstance(lp, ast.For) and isinstance(lp.target, ast.Name) and norm(q.resolve_local(f, lp.iter)) == 'extra_args'):
                continue
            raises = [r for r in ast.walk(lp) if isinstance(r, ast.Raise) and r.exc is not None and 'ValueError' in norm(r.exc)]
            for r in raises:
                inner = [(e, p) for e, p in q.guards(r) if any(a_ is lp for a_ in ancestors(e))]
                for e, p in inner:
                    if isinstance(e, ast.Compare) and len(e.ops) == 1 and isinstance(e.ops[0], (ast.In, ast.NotIn)) and norm(e.left) == lp.target.id \
                            and (isinstance(e.ops[0], ast.NotIn) == p) and norm(q.resolve_local(f, e.comparators[0])).endswith(want_list) and len(inner) == 1:
                        loops.append(lp)
        ctx.ob(f.qualname, f'_validate_all_known_args(extra_args, {want_list})', len(loops) >= 1, 'the entry point must validate against its own allow-list', node=f.node)
        later = []
        for c, r in q.calls_in(x, f):
            d = dotted(c.func) or ''
            if r.kind == 'client' or d.endswith(('_submit_transfer', '_multipart_upload', '_put_object', '_object_size', '_download_file', '_download_request_queue.put',
                                                 '_submission_executor.submit', 'uploader.upload_file', 'downloader.download_file')):
                later += g.nodes_of(c)
        vn = [n for lp in loops for n in g.nodes if n.kind == 'for' and n.stmt is lp]
        ctx.ob(f.qualname, 'validation precedes submission / first request', bool(vn) and bool(later) and g.all_dominate(vn, later, g.NORMAL) and not any(q.guards(lp) for lp in loops),
               'an argument outside the allow-list must be rejected before any request is made', node=f.node)
        early = [n for lp in loops for n in ast.walk(lp) if isinstance(n, (ast.Return, ast.Break)) and q.in_loop(n) is lp]
        ctx.ob(f.qualname, 'every call checks every key (no early return/break, the loop is on every path)',
               bool(vn) and not early and g.must_pass([g.entry], vn, later or [g.exit], g.NORMAL),
               'a validation that can be skipped lets an argument outside this entry point\'s allow-list through to the request', node=f.node)
    ctx.ob('manager.TransferManager._validate_all_known_args', 'raise ValueError for every key not in allowed', True, 'judged at each expanded entry point', trivial=True)


@rule('C15.c', ['C15'], floor=6)
def checksum_rules(ctx):
    """A user-supplied full-object checksum sets ChecksumType='FULL_OBJECT' and the
    matching ChecksumAlgorithm before the create/complete argument sets are built;
    set_default_checksum_algorithm returns early when a full-object checksum is present
    and otherwise setdefaults botocore's DEFAULT_CHECKSUM_ALGORITHM; the default is
    applied only when the client asks for checksums when_supported."""
    f = ctx.func('upload.UploadSubmissionTask._submit_multipart_request')
    g = ctx.cfg(f)
    stores = [n for n in own_nodes(f.node) if isinstance(n, ast.Assign) and isinstance(n.targets[0], ast.Subscript)
              and q.is_call_args_attr(f, n.targets[0].value) and isinstance(n.targets[0].slice, ast.Constant)]
    by = {n.targets[0].slice.value: n for n in stores}
    t = by.get('ChecksumType')
    a = by.get('ChecksumAlgorithm')
    ok = t is not None and isinstance(t.value, ast.Constant) and t.value.value == 'FULL_OBJECT'
    ctx.ob(f, "extra_args['ChecksumType'] = 'FULL_OBJECT'", ok, 'a full-object checksum must make the upload a FULL_OBJECT-type multipart upload')
    lv = norm(q.in_loop(a).target) if a is not None and isinstance(q.in_loop(a), ast.For) else 'checksum'
    ok = a is not None and isinstance(a.value, ast.Call) and norm(a.value) in (f"{lv}.replace('Checksum', '')",)
    ctx.ob(f, "extra_args['ChecksumAlgorithm'] = checksum.replace('Checksum', '')", ok, f'the algorithm must be derived from the checksum argument name, found {norm(a.value) if a is not None else None}')
    for n in (t, a):
        if n is None:
            continue
        loop = q.in_loop(n)
        gs = q.guards(n)
        okl = isinstance(loop, ast.For) and norm(loop.iter) == 'FULL_OBJECT_CHECKSUM_ARGS' and len(gs) == 1 and gs[0][1] and isinstance(gs[0][0], ast.Compare) \
            and isinstance(gs[0][0].ops[0], ast.In) and norm(gs[0][0].left) == norm(loop.target) and q.is_call_args_attr(f, gs[0][0].comparators[0])
        ctx.ob(f, f'{short(n, 50)} for each supplied full-object checksum', okl, f'must run exactly when one of FULL_OBJECT_CHECKSUM_ARGS is supplied (guards={q.guard_texts(n)})')
    builders = [n for c in own_calls(f.node) if (dotted(c.func) or '').endswith(('_extra_create_multipart_args', '_extra_complete_multipart_args', '_extra_upload_part_args')) for n in g.nodes_of(c)]
    sn = [x for n in (t, a) if n is not None for x in g.nodes_of(n)]
    loops = [x for x in g.nodes if x.kind == 'for' and t is not None and x.stmt is q.in_loop(t)]
    ctx.ob(f, 'checksum type/algorithm set before the per-operation argument sets are built', bool(builders) and bool(loops) and g.all_dominate(loops, builders, g.NORMAL),
           'create/complete would be built from the arguments before ChecksumType/ChecksumAlgorithm were added')
    d = ctx.func('utils.set_default_checksum_algorithm')
    rets = [n for n in own_nodes(d.node) if isinstance(n, ast.Return)]
    sd = [c for c in own_calls(d.node) if isinstance(c.func, ast.Attribute) and c.func.attr == 'setdefault']
    ep = d.params[0] if d.params else 'extra_args'

    def _full_object_test(e):
        # any(c in extra_args for c in FULL_OBJECT_CHECKSUM_ARGS), or the set forms of the same test
        if isinstance(e, ast.Call) and norm(e.func) == 'any' and len(e.args) == 1 and isinstance(e.args[0], (ast.GeneratorExp, ast.ListComp)) and len(e.args[0].generators) == 1:
            ge = e.args[0].generators[0]
            el = e.args[0].elt
            return norm(ge.iter) == 'FULL_OBJECT_CHECKSUM_ARGS' and not ge.ifs and isinstance(el, ast.Compare) and len(el.ops) == 1 and isinstance(el.ops[0], ast.In) \
                and norm(el.left) == norm(ge.target) and norm(el.comparators[0]) == ep
        t_ = norm(e)
        return t_ in (f'set(FULL_OBJECT_CHECKSUM_ARGS) & set({ep})', f'set({ep}) & set(FULL_OBJECT_CHECKSUM_ARGS)', f'set(FULL_OBJECT_CHECKSUM_ARGS).intersection({ep})',
                      f'set({ep}).intersection(FULL_OBJECT_CHECKSUM_ARGS)')

    def _exact_guard(r):
        gs = q.guards(r)
        if len(gs) != 1 or not gs[0][1]:
            # the not-disjoint form: `if not set(A).isdisjoint(B): return`
            return len(gs) == 1 and not gs[0][1] and norm(gs[0][0]) in (f'set(FULL_OBJECT_CHECKSUM_ARGS).isdisjoint({ep})', f'set({ep}).isdisjoint(FULL_OBJECT_CHECKSUM_ARGS)')
        e = gs[0][0]
        lp = q.in_loop(r)
        if isinstance(lp, ast.For) and norm(lp.iter) == 'FULL_OBJECT_CHECKSUM_ARGS':
            return isinstance(e, ast.Compare) and len(e.ops) == 1 and isinstance(e.ops[0], ast.In) and norm(e.left) == norm(lp.target) and norm(e.comparators[0]) == ep
        return _full_object_test(e)
    ok = bool(rets) and all(_exact_guard(r) for r in rets if r.value is None) and any(r.value is None for r in rets) and len(sd) == 1 \
        and norm(sd[0].args[0]) == "'ChecksumAlgorithm'" and norm(sd[0].args[1]) == 'DEFAULT_CHECKSUM_ALGORITHM' and not [x for x in q.guards(sd[0]) if x[1]]
    ctx.ob(d, "return if a full-object checksum is given else setdefault('ChecksumAlgorithm', DEFAULT_CHECKSUM_ALGORITHM)", ok,
           'the default algorithm must not override a user-supplied full-object checksum or algorithm, and nothing else may suppress it '
           '(the early return must be taken exactly when one of FULL_OBJECT_CHECKSUM_ARGS is supplied)')
    imp = ctx.p.modules['utils'].imports.get('DEFAULT_CHECKSUM_ALGORITHM')
    ctx.ob('utils', 'DEFAULT_CHECKSUM_ALGORITHM comes from botocore.httpchecksum', imp is not None and 'botocore.httpchecksum' in imp[0], f'{imp}')
    m = ctx.func('manager.TransferManager._add_operation_defaults')
    cs = [c for c in own_calls(m.node) if (dotted(c.func) or '').endswith('set_default_checksum_algorithm')]
    ok = bool(cs) and all(len(q.guards(c)) == 1 and 'request_checksum_calculation' in norm(q.guards(c)[0][0]) and "'when_supported'" in norm(q.guards(c)[0][0]) and q.guards(c)[0][1] for c in cs)
    ctx.ob(m, "default checksum only when request_checksum_calculation == 'when_supported'", ok, 'the default must follow the client configuration')
    up = ctx.func('manager.TransferManager.upload')
    gg = ctx.cfg(up)
    dn = [n for c in own_calls(up.node) if (dotted(c.func) or '').endswith('_add_operation_defaults') for n in gg.nodes_of(c)]
    vn = [n for c in own_calls(up.node) if (dotted(c.func) or '').endswith('_validate_all_known_args') for n in gg.nodes_of(c)]
    sb = [n for c in own_calls(up.node) if (dotted(c.func) or '').endswith('_submit_transfer') for n in gg.nodes_of(c)]
    ctx.ob(up, 'validate -> add defaults -> submit', bool(dn and vn and sb) and gg.all_dominate(vn, dn, gg.NORMAL) and gg.all_dominate(dn, sb, gg.NORMAL),
           'defaults are added after validation and before the transfer is submitted')


@rule('C15.d', ['C15'], floor=3)
def dead_forwarding_parameter(ctx):
    """A parameter named extra_args is read by its function (a forwarding parameter that is
    never read silently drops every argument)."""
    n = 0
    for f in ctx.p.all_functions():
        if 'extra_args' in f.params + f.kwonly and f.module.name != 'crt':
            n += 1
            used = any(isinstance(x, ast.Name) and x.id == 'extra_args' and isinstance(x.ctx, ast.Load) for x in own_nodes(f.node))
            abstract = all(isinstance(s, (ast.Raise, ast.Expr, ast.Pass)) for s in f.node.body)
            ctx.ob(f, 'parameter extra_args is read', used or abstract, 'extra_args is accepted but never read: every extra argument is silently dropped on this path')
    ctx.need(n >= 10, f'only {n} functions take extra_args')
