"""C06 - file downloads are published atomically and leave no temporary files."""
import ast

from ..engine import rule
from ..ir import ClassInfo, dotted, kwarg, norm, own_calls, own_nodes, short
from .. import q

# Where the user's destination name may go: (callee tail, position or keyword)
ALLOWED_SINKS = {
    ('get_temp_filename', 0), ('get_temp_filename', 'filename'),
    ('rename_file', 1), ('rename_file', 'new_filename'),
    ('is_special_file', 0), ('isinstance', 0), ('is_compatible', 0),
    ('_do_file_rename', 2), ('_finalize_download', 2),
    ('_submit_get_object_job', 'filename'), ('GetObjectJob', 'filename'),  # the job record carries it to the worker (job.filename is a source there)
    ('RenameTempFileHandler', 1), ('RenameTempFileHandler', 'final_filename'),
    ('debug', None), ('format', None), ('join', None),
    ('ProgressCallbackInvoker', None),
    ('OnBodyFileObjWriter', 0),  # crt: the non-path branch (fileobj is a stream there)
}

HOLDERS = {'self._final_filename'}  # attributes that may hold the destination name (locals are tracked as aliases)

# (function, tainted source expressions, note) - the destination name in each front-end
SOURCES = [
    ('download.DownloadFilenameOutputManager.get_fileobj_for_io_writes', {'self._final_filename', 'transfer_future.meta.call_args.fileobj'}),
    ('download.DownloadFilenameOutputManager.get_final_io_task', {'self._final_filename'}),
    ('download.DownloadFilenameOutputManager._get_temp_fileobj', {'self._final_filename'}),
    ('download.IORenameFileTask._main', {'final_filename'}),
    ('__init__.S3Transfer.download_file', {'filename'}),
    ('processpool.GetObjectSubmitter._submit_get_object_jobs', {'download_file_request.filename'}),
    ('processpool.GetObjectSubmitter._allocate_temp_file', {'download_file_request.filename'}),
    ('processpool.GetObjectSubmitter._submit_single_get_object_job', {'download_file_request.filename'}),
    ('processpool.GetObjectSubmitter._submit_ranged_get_object_jobs', {'download_file_request.filename'}),
    ('processpool.GetObjectWorker._do_run', {'job.filename'}),
    ('processpool.GetObjectWorker._run_get_object_job', {'job.filename'}),
    ('processpool.GetObjectWorker._finalize_download', {'filename'}),
    ('processpool.GetObjectWorker._do_file_rename', {'filename'}),
    ('crt.S3ClientArgsCreator._get_make_request_args_get_object', {'call_args.fileobj'}),
    ('crt.RenameTempFileHandler.__call__', {'self._final_filename'}),
]


OPTIONAL_SOURCES = {'download.DownloadFilenameOutputManager._get_temp_fileobj', 'processpool.GetObjectSubmitter._allocate_temp_file',
                    'processpool.GetObjectWorker._do_file_rename', 'processpool.GetObjectWorker._run_get_object_job'}


def _mentions(expr, tainted):
    """A tainted name occurs in expr, not counting occurrences inside nested calls
    (those are judged at the nested call)."""
    if isinstance(expr, ast.Call):
        return None
    stack = [expr]
    while stack:
        n = stack.pop()
        d = dotted(n) if isinstance(n, (ast.Name, ast.Attribute)) else None
        if d and d in tainted:
            return d
        for ch in ast.iter_child_nodes(n):
            if isinstance(ch, ast.Call) and ch is not expr:
                continue
            stack.append(ch)
    return None


@rule('C06.a', ['C06'], floor=12)
def destination_name_is_never_opened(ctx):
    """Taint: the user's destination path (manager, legacy, process pool, CRT) flows only
    into get_temp_filename(.), string concatenation producing the temp name, the second
    argument of rename_file, is_special_file/compatibility probes and logging - never
    into open/DeferredOpenFile/allocate/remove_file/recv_filepath or the first argument
    of rename_file.  (FIFOs/devices are streaming destinations: C16, not C06.)"""
    n = 0
    for qn, tainted in SOURCES:
        if qn in OPTIONAL_SOURCES and qn not in ctx.p.functions:
            continue  # a small helper that may have been inlined into its (also listed) caller
        f = ctx.func(qn)
        tainted = set(tainted)
        # locals assigned directly from a tainted expression are tainted too (aliases),
        # except temp names derived through get_temp_filename / concatenation
        for st, v in [(s, v) for name in {x.id for x in own_nodes(f.node) if isinstance(x, ast.Name)} for s, v in q.local_defs(f, name)]:
            pass
        for node in own_nodes(f.node):
            if isinstance(node, ast.Assign) and len(node.targets) == 1 and isinstance(node.value, (ast.Name, ast.Attribute)):
                if _mentions(node.value, tainted) and dotted(node.value) in tainted:
                    d = dotted(node.targets[0])
                    if d:
                        tainted.add(d)
        for node in own_nodes(f.node):
            if isinstance(node, ast.Assign) and isinstance(node.value, (ast.Name, ast.Attribute)) and dotted(node.value) in tainted:
                for t in node.targets:
                    d = dotted(t) or norm(t)
                    if isinstance(t, ast.Name):
                        continue  # a local alias: already tainted
                    ctx.ob(f, node, d in HOLDERS, f'the destination name is stored into {d}: only {sorted(HOLDERS)} may hold it (a temp-name slot holding the final name makes every write go to the destination)')
        for c in own_calls(f.node):
            callee = (dotted(c.func) or norm(c.func)).split('.')[-1]
            for i, a in enumerate(c.args):
                t = _mentions(a, tainted)
                if t:
                    n += 1
                    ok = (callee, i) in ALLOWED_SINKS or (callee, None) in ALLOWED_SINKS
                    ctx.ob(f, f'{callee}(arg {i} <- {t})', ok, f'the destination name {t} is passed to {short(c, 70)}: the final path could be opened/removed before the download is complete')
            for k in c.keywords:
                t = _mentions(k.value, tainted)
                if t:
                    n += 1
                    ok = (callee, k.arg) in ALLOWED_SINKS or (callee, None) in ALLOWED_SINKS or callee in ('IORenameFileTask',)
                    if isinstance(k.value, ast.Dict):
                        # main_kwargs={'final_filename': self._final_filename, ...}
                        ok = all((isinstance(kk, ast.Constant) and kk.value == 'final_filename') or not _mentions(vv, tainted) for kk, vv in zip(k.value.keys, k.value.values))
                    ctx.ob(f, f'{callee}({k.arg}= <- {t})', ok, f'the destination name {t} is passed to {short(c, 70)}')
        # stores
        for node in own_nodes(f.node):
            if isinstance(node, ast.Assign) and isinstance(node.targets[0], ast.Subscript) and _mentions(node.value, tainted):
                key = node.targets[0].slice
                ctx.ob(f, node, False if (isinstance(key, ast.Constant) and key.value in ('recv_filepath', 'send_filepath')) else True,
                       'the CRT must receive into the temporary file, not the destination')
    ctx.need(n >= 12, f'only {n} uses of the destination name found')
    # temp names come from the destination name (same directory => rename is atomic)
    for qn, src in (('download.DownloadFilenameOutputManager.get_fileobj_for_io_writes', 'transfer_future.meta.call_args.fileobj'),
                    ('processpool.GetObjectSubmitter._allocate_temp_file', 'download_file_request.filename'),
                    ('crt.S3ClientArgsCreator._get_make_request_args_get_object', 'call_args.fileobj')):
        f = ctx.func(qn)
        cs = [c for c in own_calls(f.node) if (dotted(c.func) or '').endswith('get_temp_filename')]
        ctx.ob(f, f'temp name = get_temp_filename({src})', len(cs) == 1 and cs[0].args and q.ntext(f, cs[0].args[0]) == src, 'the temporary file must live next to the destination')
    # the temp name always differs from the destination: the random suffix is appended AFTER any truncation of the base name
    tf = ctx.func('utils.OSUtils.get_temp_filename')
    rets = [x for x in own_nodes(tf.node) if isinstance(x, ast.Return) and x.value is not None]
    okt = False
    if len(rets) == 1:
        rv = q.resolve_local(tf, rets[0].value)
        base = q.resolve_local(tf, rv.args[-1]) if isinstance(rv, ast.Call) and norm(rv.func).endswith('path.join') and rv.args else rv
        if isinstance(base, ast.BinOp) and isinstance(base.op, ast.Add):
            right = norm(q.inline_locals(tf, base.right))
            left = base.left.value if isinstance(base.left, ast.Subscript) else base.left  # name[:limit] or name
            okt = 'random_file_extension()' in right and 'os.extsep' in right and norm(q.resolve_local(tf, left)) == f'os.path.basename({tf.params[1]})'
        if isinstance(rv, ast.Call) and norm(rv.func).endswith('path.join'):
            okt = okt and len(rv.args) == 2 and norm(q.resolve_local(tf, rv.args[0])) == f'os.path.dirname({tf.params[1]})'
    ctx.ob(tf, 'temp name = join(dirname(filename), <base name, possibly truncated> + extsep + random extension)', okt,
           'a truncation applied after the suffix can cut the suffix off: the temporary file IS the destination (partial data visible, cleanup deletes the old file)')
    f = ctx.func('__init__.S3Transfer.download_file')
    tn = q.names_defined_by(f, lambda v: isinstance(v, ast.BinOp) and norm(v).startswith('filename +') and 'random_file_extension()' in norm(v))
    ctx.ob(f, 'temp_filename = filename + os.extsep + random_file_extension()', len(tn) == 1 and len(q.local_defs(f, tn[0])) == 1, f'temp-name locals: {tn}')
    # what gets opened / allocated / received into is the temp name
    # on the fully expanded get_fileobj_for_io_writes (whether or not _get_temp_fileobj exists as a helper)
    x = ctx.expanded()
    f = x.func('download.DownloadFilenameOutputManager.get_fileobj_for_io_writes')
    cs = [c for c in own_calls(f.node) if (dotted(c.func) or '').endswith('_get_fileobj_from_filename')]
    ctx.ob(f.qualname, '_get_fileobj_from_filename(self._temp_filename)', len(cs) == 1 and q.self_alias_text(f, cs[0].args[0]) == 'self._temp_filename', 'writes must go to the temporary file', node=f.node)
    f = ctx.func('processpool.GetObjectSubmitter._allocate_temp_file')
    cs = [c for c in own_calls(f.node) if (dotted(c.func) or '').endswith('.allocate')]
    ok = len(cs) == 1 and 'get_temp_filename(' in (q.ntext(f, cs[0].args[0]) or '') and q.returned_names(f) == [norm(cs[0].args[0])]
    ctx.ob(f, 'allocate(temp_filename, size) and return temp_filename', ok, 'the pre-allocated file must be the temporary one, and it is what the jobs write to')
    f = ctx.func('crt.S3ClientArgsCreator._get_make_request_args_get_object')
    st = [n for n in own_nodes(f.node) if isinstance(n, ast.Assign) and isinstance(n.targets[0], ast.Subscript) and isinstance(n.targets[0].slice, ast.Constant)
          and n.targets[0].slice.value == 'recv_filepath']
    ctx.ob(f, "make_request_args['recv_filepath'] = recv_filepath (the temp name)", len(st) == 1 and isinstance(st[0].value, ast.Name)
           and any('get_temp_filename' in norm(v) for _, v in q.local_defs(f, st[0].value.id) if isinstance(v, ast.AST)), 'the CRT must receive into the temp file')
    f = ctx.func('__init__.S3Transfer.download_file')
    cs = [c for c in own_calls(f.node) if (dotted(c.func) or '').endswith('_download_file')]
    ctx.ob(f, '_download_file(bucket, key, temp_filename, ...)', len(cs) == 1 and len(cs[0].args) >= 3 and tn and norm(cs[0].args[2]) == tn[0], 'legacy downloads must write to the temp name')


def _compat_rename_is_atomic(ctx):
    """compat.rename_file is os.rename (an atomic replace on POSIX) except on Windows, where - and only where - the destination may
    be removed first.  Judged on the module's top level: every binding of the name that does more than rename (removes or unlinks
    the destination) must sit under a test of sys.platform / os.name for Windows."""
    m = ctx.p.modules['compat']
    n = 0

    def visit(stmts, win_guarded):
        nonlocal n
        for st in stmts:
            if isinstance(st, ast.If):
                test, negated = st.test, False
                while isinstance(test, ast.UnaryOp) and isinstance(test.op, ast.Not):
                    test, negated = test.operand, not negated
                if isinstance(test, ast.Compare) and len(test.ops) == 1 and isinstance(test.ops[0], (ast.NotEq, ast.NotIn, ast.IsNot)):
                    negated = not negated
                t = norm(test)
                is_win = ('sys.platform' in t and 'win' in t) or ('os.name' in t and 'nt' in t)
                visit(st.body, win_guarded or (is_win and not negated))
                visit(st.orelse, win_guarded or (is_win and negated))
            elif isinstance(st, ast.FunctionDef) and st.name == 'rename_file':
                n += 1
                removes = [c for c in ast.walk(st) if isinstance(c, ast.Call) and (dotted(c.func) or '') in ('os.remove', 'os.unlink', 'remove', 'unlink')]
                ren = [c for c in ast.walk(st) if isinstance(c, ast.Call) and (dotted(c.func) or '') in ('os.rename', 'os.replace')]
                ctx.ob('compat.<module>', f"def rename_file{' (Windows only)' if win_guarded else ''}: {'remove + ' if removes else ''}rename", bool(ren) and (win_guarded or not removes),
                       'outside Windows the destination is removed before the rename: between the two calls (or if the rename fails) the destination does not exist and its '
                       'previous content is gone although the download did not succeed', node=st)
            elif isinstance(st, ast.Assign) and any(isinstance(t_, ast.Name) and t_.id == 'rename_file' for t_ in st.targets):
                n += 1
                ctx.ob('compat.<module>', f'rename_file = {norm(st.value)}', norm(st.value) in ('os.rename', 'os.replace'), 'the publish step must be one atomic rename', node=st)
    visit(m.tree.body, False)
    ctx.need(n >= 1, 'compat.rename_file vanished')


@rule('C06.b', ['C06', 'C19', 'C20'], floor=5)
def rename_is_final_and_last(ctx):
    """rename_file(temp, final) call sites are exactly the four finalisers; the manager's
    renaming task closes the file first, is built only by get_final_io_task with
    is_final=True, and runs on the IO executor behind every write."""
    _compat_rename_is_atomic(ctx)
    allowed = {'download.IORenameFileTask._main', '__init__.S3Transfer.download_file', 'processpool.GetObjectWorker._do_file_rename',
               'processpool.GetObjectWorker._finalize_download',  # the finaliser itself, when its rename helper is written in place (C06.d judges its shape)
               'crt.RenameTempFileHandler.__call__', 'utils.OSUtils.rename_file', '__init__.OSUtils.rename_file'}
    n = 0
    for f, c, r in q.call_index(ctx):
        d = dotted(c.func) or ''
        if d.split('.')[-1] == 'rename_file' and f.module.name != 'compat':
            n += 1
            ctx.ob(f, c, f.qualname in allowed, 'a rename outside the finalisers can publish a partial file')
    ctx.need(n >= 4, f'only {n} rename_file call sites')
    f = ctx.func('download.IORenameFileTask._main')
    g = ctx.cfg(f)
    cl = [x for c in own_calls(f.node) if (dotted(c.func) or '') == 'fileobj.close' for x in g.nodes_of(c)]
    rn = [x for c in own_calls(f.node) if (dotted(c.func) or '').endswith('rename_file') for x in g.nodes_of(c)]
    ctx.ob(f, 'fileobj.close() before rename_file(fileobj.name, final_filename)', bool(cl and rn) and g.all_dominate(cl, rn, g.NORMAL), 'buffered data must be flushed before the file is published')
    for sb in q.submits(ctx):
        for tc, ctor, owner in sb.task_ctors:
            if tc is not None and tc.module.name == 'download' and tc.name in ('IORenameFileTask', 'IOCloseTask', 'CompleteDownloadNOOPTask'):
                exs = q.executor_origins(ctx, sb.func, sb.executor)
                ctx.ob(sb.func, f'{tc.name} submitted to {" | ".join(exs)}', set(exs) <= {'io_executor', 'self._io_executor'},
                       'the final task must queue behind every write on the single IO thread, otherwise the rename can overtake pending writes')
    rc = [c for c in own_calls(f.node) if (dotted(c.func) or '').endswith('rename_file')]
    ctx.ob(f, 'rename_file(fileobj.name, final_filename)', len(rc) == 1 and norm(rc[0].args[0]) == 'fileobj.name' and norm(rc[0].args[1]) == 'final_filename', 'source must be the temp file, target the destination')
    cls = ctx.cls('download.IORenameFileTask')
    for ff, c, r in q.call_index(ctx):
        if r.kind == 'package' and r.recv and cls in r.recv and any(t.name == '__init__' for t in r.targets):
            ok = ff.qualname == 'download.DownloadFilenameOutputManager.get_final_io_task' and q.ctor_is_final(ctx, cls, c)
            mk = kwarg(c, 'main_kwargs')
            okk = isinstance(mk, ast.Dict) and {k.value: norm(v) for k, v in zip(mk.keys, mk.values) if isinstance(k, ast.Constant)} == \
                {'fileobj': 'self._temp_fileobj', 'final_filename': 'self._final_filename', 'osutil': 'self._osutil'}
            ctx.ob(ff, c, ok and okk, 'the rename task must be the final task of a filename download, renaming the temp file object to the final name')
    # legacy: rename only in the else branch of the download try
    f = ctx.func('__init__.S3Transfer.download_file')
    rc = [c for c in own_calls(f.node) if (dotted(c.func) or '').endswith('rename_file')]
    tn = q.names_defined_by(f, lambda v: isinstance(v, ast.BinOp) and norm(v).startswith('filename +'))
    # path rule: the rename is reached only through the normal completion of the download call - it is dominated by
    # that call and cannot be reached from any of the try's handlers (else-clause or fall-through after re-raising handlers)
    g = ctx.cfg(f)
    dl = [n for c in own_calls(f.node) if (dotted(c.func) or '').endswith('_download_file') for n in g.nodes_of(c)]
    hn = [n for n in g.nodes if n.kind == 'handler']
    rn = [n for c in rc for n in g.nodes_of(c)]
    after_success = bool(dl) and bool(rn) and g.all_dominate(dl, rn, None) and not (g.reach(hn, labels=None) & set(rn)) \
        and not (g.reach(dl, labels=('exc',), include_src=False) & set(rn) if False else set())
    ok = len(rc) == 1 and after_success and not q.in_handler(rc[0]) and tn and norm(rc[0].args[0]) == tn[0] and norm(rc[0].args[1]) == 'filename'
    ctx.ob(f, 'rename_file(temp_filename, filename) only when the download did not raise', ok, 'the destination must be replaced only by a complete download')


@rule('C06.c', ['C06'], floor=3)
def cleanup_registered_with_the_temp_handle(ctx):
    """Every function that creates a write-mode DeferredOpenFile registers
    add_failure_cleanup(f.close) before returning it; _get_temp_fileobj additionally
    registers add_failure_cleanup(remove_file, temp), after the close."""
    n = 0
    for f, c, r in q.call_index(ctx):
        if r.kind == 'package' and r.recv and any(isinstance(t, ClassInfo) and t.qualname == 'utils.DeferredOpenFile' for t in r.recv) and any(t.name == '__init__' for t in r.targets):
            mode = kwarg(c, 'mode') or (c.args[2] if len(c.args) > 2 else None)
            if not (isinstance(mode, ast.Constant) and 'w' in str(mode.value)):
                continue
            n += 1
            g = ctx.cfg(f)
            var = c._parent.targets[0].id if isinstance(c._parent, ast.Assign) and isinstance(c._parent.targets[0], ast.Name) else None
            regs = [x for c2 in own_calls(f.node) if (dotted(c2.func) or '').endswith('add_failure_cleanup') and c2.args and norm(c2.args[0]) == f'{var}.close' for x in g.nodes_of(c2)]
            ctx.ob(f, f'add_failure_cleanup({var}.close) on every path after creating the write handle', bool(regs) and g.must_pass(g.nodes_of(c), regs, [g.exit], g.NORMAL),
                   'a failed download would leave the temp file open (and on Windows undeletable)')
    ctx.need(n >= 1, 'no write-mode DeferredOpenFile creation found')
    # on the fully expanded get_fileobj_for_io_writes: open the temp file, register its removal, keep and return the handle
    xc = ctx.expanded()
    f = xc.func('download.DownloadFilenameOutputManager.get_fileobj_for_io_writes')
    g = xc.cfg(f)
    openc = [c for c in own_calls(f.node) if (dotted(c.func) or '').endswith('_get_fileobj_from_filename')]
    opens = [x for c in openc for x in g.nodes_of(c)]
    rm = [c for c in own_calls(f.node) if (dotted(c.func) or '').endswith('add_failure_cleanup') and c.args and norm(c.args[0]).endswith('remove_file')]
    ok = len(rm) == 1 and len(rm[0].args) == 2 and q.self_alias_text(f, rm[0].args[1]) == 'self._temp_filename' and not q.guards(rm[0])
    ctx.ob(f.qualname, 'add_failure_cleanup(self._osutil.remove_file, self._temp_filename)', ok and g.must_pass([g.entry], [x for c in rm for x in g.nodes_of(c)], [g.exit], g.NORMAL),
           'a failed or cancelled download would leave its temporary file behind', node=f.node)
    ctx.ob(f.qualname, 'close is registered before remove', bool(opens) and bool(rm) and g.all_dominate(opens, [x for c in rm for x in g.nodes_of(c)], g.NORMAL), 'cleanups run in registration order', node=f.node)
    # the handle that is opened is the one kept in self._temp_fileobj and returned
    rets = [q.self_alias_text(f, x.value) for x in own_nodes(f.node) if isinstance(x, ast.Return)]
    st = [n for n in own_nodes(f.node) if isinstance(n, ast.Assign) and any(dotted(t) == 'self._temp_fileobj' for t in n.targets)]
    kept = len(st) == 1 and len(openc) == 1 and q.resolve_local(f, st[0].value) is openc[0]
    ctx.ob(f.qualname, 'returns self._temp_fileobj = the opened temp handle', rets == ['self._temp_fileobj'] and kept, f'returns {rets}', node=f.node)


@rule('C06.d', ['C06', 'C19', 'C20', 'C02', 'C03', 'C04'], floor={'*': 8, 'C04': 1})
def both_outcomes_handled(ctx):
    """Sibling agreement of the non-manager finalisers: legacy download_file - handler
    removes the temp file and re-raises, else renames; process pool _finalize_download -
    exception => remove, otherwise rename, rename failure => record + remove, notify_done
    after all three; CRT RenameTempFileHandler - error => remove, otherwise rename,
    rename failure => remove + set_exception."""
    # legacy ranged download: the IO thread is told to stop only after the part fetchers were joined.  The sentinel is queued on
    # every exit (finally), and not from inside the `with executor` block: queued earlier, the writer stops reading while fetchers
    # are still producing, a fetcher blocks for ever in put() on the full queue and the join - and download_file - never return
    lf = ctx.func('__init__.MultipartDownloader._download_file_as_future')
    puts = [c for c in own_calls(lf.node) if isinstance(c.func, ast.Attribute) and c.func.attr == 'put' and c.args and norm(c.args[0]) == 'SHUTDOWN_SENTINEL']
    ctx.need(puts, 'legacy _download_file_as_future no longer queues the shutdown sentinel')
    for c in puts:
        from ..ir import ancestors
        withs = [a for a in ancestors(c) if isinstance(a, ast.With) and any('executor' in norm(it.context_expr).lower() for it in a.items)]
        fin = any(field == 'finalbody' for _, field in q.enclosing_trys(c))
        ctx.ob(lf, 'SHUTDOWN_SENTINEL is queued in finally, after the executor block was left (fetchers joined)', fin and not withs,
               'the writer must outlive the fetchers: a sentinel queued while parts are still being fetched (first failure inside the with block) leaves a fetcher '
               'blocked on the full IO queue and the download never returns')
    if ctx.prop == 'C04':
        return
    f = ctx.func('__init__.S3Transfer.download_file')
    trys = [t for t in own_nodes(f.node) if isinstance(t, ast.Try) and any((dotted(c.func) or '').endswith('_download_file') for s in t.body for c in ast.walk(s) if isinstance(c, ast.Call))]
    ctx.need(trys, 'legacy download_file: no try around _download_file')
    t = trys[0]
    hs = [h for h in t.handlers if h.type is not None and norm(h.type) in ('Exception', 'BaseException')]
    tn = q.names_defined_by(f, lambda v: isinstance(v, ast.BinOp) and norm(v).startswith('filename +'))
    ok = bool(hs) and bool(tn) and any((dotted(c.func) or '').endswith('remove_file') and norm(c.args[0]) == tn[0] for s in hs[0].body for c in ast.walk(s) if isinstance(c, ast.Call)) \
        and isinstance(hs[0].body[-1], ast.Raise)
    ctx.ob(f, 'except Exception: remove_file(temp_filename); raise', ok, 'a failed legacy download must remove its temp file and report the error')
    # legacy ranged download: both controller futures are waited for and their exceptions retrieved
    f = ctx.func('__init__.MultipartDownloader.download_file')
    ws = [c for c in own_calls(f.node) if (dotted(c.func) or '').endswith('futures.wait')]
    rw = norm(kwarg(ws[0], 'return_when')) if ws and kwarg(ws[0], 'return_when') is not None else 'ALL_COMPLETED'
    ctl = q.names_defined_by(f, lambda v: isinstance(v, ast.Call) and 'executor_cls' in norm(v.func))
    subs = [c for c in own_calls(f.node) if isinstance(c.func, ast.Attribute) and c.func.attr == 'submit' and norm(c.func.value) in ctl]
    waited = []
    fs_ = q.resolve_local(f, q.argn(ws[0], 'fs', 0)) if ws and q.argn(ws[0], 'fs', 0) is not None else None
    if isinstance(fs_, ast.List):
        for e in fs_.elts:
            v = q.resolve_local(f, e)
            waited.append(next((c for c in subs if c is v), None))
    ok = len(ws) == 1 and rw.split('.')[-1] in ('FIRST_EXCEPTION', 'ALL_COMPLETED') and len(subs) == 2 \
        and len(waited) == 2 and all(w is not None for w in waited) and waited[0] is not waited[1]
    ctx.ob(f, f'wait([parts_future, io_future], return_when={rw.split(".")[-1]})', ok,
           'the download must not return before both the part fetcher and the IO writer finished without error: a late write error would be lost and a truncated file published')
    # the part fetchers run through executor.map: its results must be consumed, that is where a fetcher's exception surfaces
    # (an unconsumed map iterator swallows every part failure: the parts future "succeeds", the truncated temp file is renamed)
    nmap = 0
    for m in [x for x in ctx.p.all_functions() if x.module.name == '__init__']:
        for c in own_calls(m.node):
            if not (isinstance(c.func, ast.Attribute) and c.func.attr == 'map' and c.args and 'executor' in norm(c.func.value).lower()):
                continue
            nmap += 1
            par = c._parent
            # handed to something (list(), parts.extend(), a loop, a comprehension, a return): taken as iterated there;
            # a bare expression statement, or a local that is never read again, is the unconsumed form
            consumed = not isinstance(par, ast.Expr)
            if isinstance(par, ast.Assign) and len(par.targets) == 1 and isinstance(par.targets[0], ast.Name):
                nm = par.targets[0].id
                consumed = any(isinstance(x, ast.Name) and x.id == nm and isinstance(x.ctx, ast.Load) for x in own_nodes(m.node))
            ctx.ob(m, c, consumed, 'the results of executor.map are never iterated: exceptions raised by the mapped part transfers are never retrieved, '
                                   'so a failed part goes unnoticed and the incomplete result is published as success')
    ctx.need(nmap >= 2, f'only {nmap} executor.map sites found in the legacy module')
    # on the fully expanded download_file: .result() of every finished future, unconditionally, after the wait
    xf = ctx.expanded().func('__init__.MultipartDownloader.download_file')
    xg = ctx.expanded().cfg(xf)
    xw = [n for c in own_calls(xf.node) if (dotted(c.func) or '').endswith('futures.wait') for n in xg.nodes_of(c)]
    rs = [c for c in own_calls(xf.node) if isinstance(c.func, ast.Attribute) and c.func.attr == 'result' and not c.args and isinstance(q.in_loop(c), ast.For)]
    ok = len(rs) == 1 and not q.guards(rs[0]) and bool(xw) and xg.all_dominate(xw, xg.nodes_of(rs[0]), xg.NORMAL) \
        and isinstance(q.in_loop(rs[0]).target, ast.Name) and norm(rs[0].func.value) == q.in_loop(rs[0]).target.id
    ctx.ob(f, 'results of the finished futures are retrieved (errors propagate)', ok, 'exceptions of the controller futures must be re-raised')
    # process pool: judged on the fully expanded _finalize_download (the rename helper inlined, however it is cut)
    xp = ctx.expanded()
    f = xp.func('processpool.GetObjectWorker._finalize_download')
    g = xp.cfg(f)
    exc_test = 'self._transfer_monitor.get_exception(transfer_id)'
    rn = [c for c in own_calls(f.node) if (dotted(c.func) or '').endswith('rename_file')]
    rm_all = [c for c in own_calls(f.node) if (dotted(c.func) or '').endswith('remove_file')]
    rm = [c for c in rm_all if q.in_handler(c) is None]          # the failed-download branch
    rm_h = [c for c in rm_all if q.in_handler(c) is not None]    # cleanup after a failing rename
    nd = [c for c in own_calls(f.node) if (dotted(c.func) or '').endswith('notify_done')]

    def _gi(c, want):
        gs = q.guards(c)
        # the recorded exception may be held in a local that is only tested (flag substitution handles that) or tested directly
        return q.guards_imply(gs, want)
    ok = len(rm) == 1 and len(rn) == 1 and _gi(rm[0], exc_test) and _gi(rn[0], f'not {exc_test}') and norm(rm[0].args[0]) == 'temp_filename'
    ctx.ob(f.qualname, 'exception => remove_file(temp) else rename', ok, 'finalisation must remove the temp file exactly when the download failed, otherwise publish it', node=f.node)
    # done is signalled after the file is in place or removed, on every path of the finalisation - judged in the expanded worker loop
    # (the signal may sit in the finaliser or right behind its call)
    wf = xp.func('processpool.GetObjectWorker._do_run')
    wg = xp.cfg(wf)
    wnd = [x for c in own_calls(wf.node) if (dotted(c.func) or '').endswith('notify_done') for x in wg.nodes_of(c)]
    wfile = [x for c in own_calls(wf.node) if (dotted(c.func) or '').endswith(('rename_file', 'remove_file')) for x in wg.nodes_of(c)]
    heads = [x for x in wg.nodes if x.kind == 'while']
    fin_ifs = [n for n in own_nodes(wf.node) if isinstance(n, ast.If) and any(isinstance(c, ast.Call) and (dotted(c.func) or '').endswith('rename_file') for c in ast.walk(n))
               and any(isinstance(c, ast.Call) and (dotted(c.func) or '').endswith('remove_file') for c in ast.walk(n))]
    fin_ifs = [n for n in fin_ifs if not any(n is not m and any(n is y for y in ast.walk(m)) for m in fin_ifs)]   # the outermost
    okd = len(fin_ifs) == 1 and bool(wnd) and bool(heads)
    if okd:
        start = wg.nodes_of(fin_ifs[0].body[0])
        okd = wg.must_pass(start, wnd, heads + [wg.exit], wg.NORMAL) and not (wg.reach(wnd, avoid=heads, labels=wg.NORMAL) & set(wfile))
    ctx.ob(wf.qualname, 'notify_done(transfer_id) after publish/cleanup on every path', okd, 'done must be signalled only after the file is in place or removed', node=wf.node)
    hs = [h for h in own_nodes(f.node) if isinstance(h, ast.ExceptHandler) and rn and any(field == 'body' and t is h._parent for t, field in q.enclosing_trys(rn[0]))]
    ok = bool(hs) and any((dotted(c.func) or '').endswith('notify_exception') for c in ast.walk(hs[0]) if isinstance(c, ast.Call)) \
        and any(q.in_handler(c) is hs[0] and norm(c.args[0]) == 'temp_filename' for c in rm_h)
    ctx.ob(f.qualname, 'rename failure => notify_exception + remove_file(temp)', ok and len(rn) == 1 and norm(rn[0].args[0]) == 'temp_filename' and norm(rn[0].args[1]) == 'filename',
           'a failing rename must be reported and must not leave the temp file', node=f.node)
    # CRT
    f = ctx.func('crt.RenameTempFileHandler.__call__')
    rm = [c for c in own_calls(f.node) if (dotted(c.func) or '').endswith('remove_file')]
    rn = [c for c in own_calls(f.node) if (dotted(c.func) or '').endswith('rename_file')]
    ev = q.names_defined_by(f, lambda v: norm(v) == "kwargs['error']")
    en = ev[0] if ev else 'error'
    ok = len(rn) == 1 and q.guards_imply(q.guards(rn[0]), f'not {en}') and any(q.guards_imply(q.guards(c), en) and not q.in_handler(c) for c in rm) \
        and all(norm(c.args[0]) == 'self._temp_filename' for c in rm) and norm(rn[0].args[0]) == 'self._temp_filename' and norm(rn[0].args[1]) == 'self._final_filename'
    ctx.ob(f, 'error => remove_file(temp) else rename_file(temp, final)', ok, 'the CRT download handler must publish on success and clean up on error')
    hs = [h for h in own_nodes(f.node) if isinstance(h, ast.ExceptHandler)]
    ok = bool(hs) and any(q.in_handler(c) is hs[0] for c in rm) and any((dotted(c.func) or '').endswith('set_exception') for c in ast.walk(hs[0]) if isinstance(c, ast.Call))
    ctx.ob(f, 'rename failure => remove_file(temp) + set_exception', ok, 'a failing rename must be reported and must not leave the temp file')
    ctx.ob(f, "error = kwargs['error']", len(ev) == 1 and len(q.local_defs(f, ev[0])) == 1, 'the outcome must be taken from the CRT done callback')
    # allocate cleans up after itself
    f = ctx.func('utils.OSUtils.allocate')
    hs = [h for h in own_nodes(f.node) if isinstance(h, ast.ExceptHandler)]
    ok = bool(hs) and any((dotted(c.func) or '').endswith('remove_file') for c in ast.walk(hs[0]) if isinstance(c, ast.Call)) and isinstance(hs[0].body[-1], ast.Raise)
    ctx.ob(f, 'allocate: OSError => remove_file(filename); raise', ok, 'a failed pre-allocation must not leave an empty temp file')
    # ... and reserves exactly the object's size (the pre-allocated length is the length of the published file when fewer bytes
    # are written: a size rounded up publishes padding as object content)
    fa = ctx.func('compat.fallocate')
    szp = fa.params[1] if len(fa.params) > 1 else 'size'
    sized = [c for c in own_calls(fa.node) if isinstance(c.func, ast.Attribute) and c.func.attr in ('posix_fallocate', 'truncate', 'ftruncate')]
    ctx.need(sized, 'compat.fallocate no longer sizes the file')
    for c in sized:
        a_ = c.args[-1] if c.args else None
        ctx.ob(fa, f'{norm(c.func)}(..., {szp})', a_ is not None and norm(a_) == szp, f'the length reserved must be the size asked for, found {norm(a_)}')
    al = [c for c in own_calls(f.node) if (dotted(c.func) or '').endswith('fallocate')]
    ctx.ob(f, 'allocate: fallocate(f, size)', len(al) == 1 and len(al[0].args) == 2 and norm(al[0].args[1]) == (f.params[2] if len(f.params) > 2 else 'size'), 'the size handed on must be the size asked for')
