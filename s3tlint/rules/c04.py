"""C04 - every transfer terminates: no deadlock, hang or lost wake-up."""
import ast

from ..engine import rule
from ..ir import AnalysisError, ClassInfo, ancestors, dotted, kwarg, norm, own_calls, own_nodes, short
from .. import q

COORD = 'futures.TransferCoordinator'

# open calls that are not callbacks: one line of reason each
OPEN_CALL_EXEMPT = {
    ('futures.TransferCoordinator.cancel', 'exc_type'):
        'exception class chosen by the manager (CancelledError/FatalError); its constructor cannot re-enter the coordinator',
}


def lock_id(ctx, func, lockname):
    """('class qualname', attr) for a `self._x_lock` held in func."""
    parts = lockname.split('.')
    if parts[0] == 'self' and func.cls is not None and len(parts) == 2:
        for c in func.cls.mro():
            if parts[1] in c.init_attrs:
                return (c.qualname, parts[1])
        return (func.cls.qualname, parts[1])
    return (func.qualname, lockname)


def lock_regions(ctx, func):
    """[(lock_id, node)] for every call made in func while a lock is syntactically held."""
    out = []
    for c, r in q.calls_in(ctx, func):
        for name in q.locks_held(c):
            out.append((lock_id(ctx, func, name), c, r))
    return out


def reentrant_locks(ctx):
    """Locks a subscriber callback can try to take through the future's public methods."""
    fut = ctx.cls('futures.TransferFuture')
    L = {}
    for mname in ('done', 'result', 'cancel', 'set_exception'):
        m = fut.lookup(mname)
        ctx.need(m is not None, f'TransferFuture.{mname} vanished')
        fs = [m] + [t for c, r in q.calls_in(ctx, m) if r.kind == 'package' for t in r.targets]
        for f in fs:
            for n in own_nodes(f.node):
                if isinstance(n, ast.With):
                    for it in n.items:
                        if q.is_lock_expr(it.context_expr):
                            L.setdefault(lock_id(ctx, f, dotted(it.context_expr)), []).append(f'{mname} -> {f.qualname}')
    return L


def open_calls_reachable(ctx, call, res, func, depth=8):
    """Paths to open calls reachable from one call site."""
    hits = []
    if res.kind == 'open':
        if (func.qualname, res.ext) not in OPEN_CALL_EXEMPT:
            hits.append([f'{func.qualname}: {short(call, 60)}'])
        return hits
    if res.kind != 'package':
        return hits
    for t in res.targets:
        seen = q.transitive_callees(ctx, t, depth=depth)
        for f, path in seen.items():
            for c2, r2 in q.calls_in(ctx, f):
                if r2.kind == 'open' and (f.qualname, r2.ext) not in OPEN_CALL_EXEMPT:
                    hits.append(path + [f'{short(c2, 50)}'])
    return hits


@rule('C04.a', ['C04', 'C08'], floor=3)
def no_user_code_under_state_lock(ctx):
    """No open call (user callback / registered cleanup) is reachable from inside a
    region holding a lock that the future's public methods (done/result/cancel/
    set_exception) acquire: a callback calling back into its own future would block
    forever on the non-reentrant lock."""
    L = reentrant_locks(ctx)
    ctx.need(L, 'no lock is acquired by TransferFuture public methods: lock model changed')
    ctx.extra['reentrant_locks'] = {f'{a}.{b}': v for (a, b), v in L.items()}
    n = 0
    for f in ctx.p.all_functions():
        for lid, c, r in lock_regions(ctx, f):
            if lid not in L:
                continue
            n += 1
            hits = open_calls_reachable(ctx, c, r, f)
            ctx.ob(f, c, not hits, (f'user code runs while {lid[0]}.{lid[1]} is held: ' + ' -> '.join(hits[0])) if hits else 'no open call reachable',
                   trivial=(r.kind != 'package'))
    ctx.need(n > 0, 'no call is made under the state lock: lock regions not recognised')


@rule('C04.a2', ['C04'], tier='thorough', floor=1)
def lock_graph_acyclic(ctx):
    """Package-wide lock graph (edge L1 -> L2: L2 acquired, transitively, while L1 is
    held) has no cycle and no self-edge."""
    edges = {}
    for f in ctx.p.all_functions():
        for lid, c, r in lock_regions(ctx, f):
            if r.kind != 'package':
                continue
            for t in r.targets:
                for g, path in q.transitive_callees(ctx, t, depth=6).items():
                    for n in own_nodes(g.node):
                        if isinstance(n, ast.With):
                            for it in n.items:
                                if q.is_lock_expr(it.context_expr):
                                    l2 = lock_id(ctx, g, dotted(it.context_expr))
                                    edges.setdefault(lid, {}).setdefault(l2, (f, c, path))
    # also direct nesting
    for f in ctx.p.all_functions():
        for n in own_nodes(f.node):
            if isinstance(n, ast.With) and any(q.is_lock_expr(it.context_expr) for it in n.items):
                inner = lock_id(ctx, f, dotted([it.context_expr for it in n.items if q.is_lock_expr(it.context_expr)][0]))
                for name in q.locks_held(n):
                    edges.setdefault(lock_id(ctx, f, name), {}).setdefault(inner, (f, n, [f.qualname]))
    ctx.extra['lock_edges'] = sorted(f'{a[0]}.{a[1]} -> {b[0]}.{b[1]}' for a, bs in edges.items() for b in bs)
    # cycle detection
    locks = set(edges) | {b for bs in edges.values() for b in bs}
    color = {}
    cyc = []

    def dfs(u, stack):
        color[u] = 1
        for v in edges.get(u, {}):
            if color.get(v) == 1:
                cyc.append(stack + [u, v])
            elif v not in color:
                dfs(v, stack + [u])
        color[u] = 2
    for l in sorted(locks):
        if l not in color:
            dfs(l, [])
    if not locks:
        ctx.ob('<package>', 'lock graph', True, 'no nested locking', trivial=True)
    for a in sorted(locks):
        mine = [c for c in cyc if a in c]
        f, c, path = (None, None, None)
        if mine:
            u, v = mine[0][-2], mine[0][-1]
            f, c, path = edges[u][v]
        ctx.ob(f or '<package>', c if c is not None else f'lock {a[0]}.{a[1]}', not mine,
               ('lock cycle: ' + ' -> '.join(f'{x[0]}.{x[1]}' for x in mine[0])) if mine else 'acyclic')


@rule('C04.b', ['C04', 'C08', 'C05'], floor=2)
def announce_order(ctx):
    """In announce_done: failure cleanups (iff status != success) precede
    _done_event.set(), which precedes _run_done_callbacks(), on every path."""
    f = ctx.func(f'{COORD}.announce_done')
    g = ctx.cfg(f)
    sets = [n for c in q.find_calls(f, '_done_event.set') for n in g.nodes_of(c)]
    runs = [n for c in q.find_calls(f, '_run_done_callbacks') for n in g.nodes_of(c)]
    cleans = [n for c in q.find_calls(f, '_run_failure_cleanups') for n in g.nodes_of(c)]
    ctx.ob(f, '_done_event.set() before _run_done_callbacks()', bool(sets and runs) and g.all_dominate(sets, runs, g.NORMAL),
           'result() must be unblocked before on_done callbacks run (a callback calling result() would block)')
    ctx.ob(f, '_done_event.set() on every path', bool(sets) and g.must_pass([g.entry], sets, [g.exit], g.NORMAL),
           'announce_done must always unblock result()')
    ctx.ob(f, '_run_done_callbacks() on every path', bool(runs) and g.must_pass([g.entry], runs, [g.exit], g.NORMAL),
           'announce_done must always run the done callbacks')
    if ctx.prop in ('C05', 'C04', 'C08'):
        ok = bool(cleans and sets) and not (g.reach(sets, labels=g.NORMAL) & set(cleans))
        ctx.ob(f, '_run_failure_cleanups() before _done_event.set()', ok,
               'cleanups (abort, temp-file removal) must finish before result() unblocks and before on_done')
        for c in q.find_calls(f, '_run_failure_cleanups'):
            gs = q.guards(c)
            ok = q.guards_imply(gs, "self.status != 'success'") or q.guards_imply(gs, "self._status != 'success'")
            ok2 = any(norm(e) in ("self.status != 'success'", "self._status != 'success'") and pol for e, pol in gs) and len(gs) == 1
            ctx.ob(f, c, ok and ok2, f'failure cleanups must run exactly when the status is not success (guards={q.guard_texts(c)})')


# ---------------------------------------------------------------------------
# C04.c exactly one finaliser per submission path
# ---------------------------------------------------------------------------

def _final_io_task_ok(ctx):
    """Every override of get_final_io_task returns a task that is final."""
    base = ctx.cls('download.DownloadOutputManager')
    out = []
    for c in [base] + base.all_subclasses():
        m = c.methods.get('get_final_io_task')
        if m is None:
            continue
        rets = [n for n in own_nodes(m.node) if isinstance(n, ast.Return) and n.value is not None]
        if not rets:
            if any(isinstance(n, ast.Raise) for n in own_nodes(m.node)):
                continue  # abstract
            out.append((m, m.node, False, 'returns nothing'))
            continue
        for rt in rets:
            ctors = q.task_ctors_of(ctx, rt.value, m)
            ok = bool(ctors) and all(cl is not None and q.ctor_is_final(ctx, cl, call) for cl, call, _ in ctors)
            out.append((m, rt, ok, 'final task must be constructed with is_final=True: '
                        + ', '.join(f'{cl.name if cl else "?"}' for cl, _, _ in ctors)))
    return out


def _is_final_task_expr(ctx, expr, func):
    """expr denotes a final task: a ctor with is_final or the result of get_final_io_task()."""
    if isinstance(expr, ast.Name):
        for _, v in q.local_defs(func, expr.id):
            if isinstance(v, ast.AST) and _is_final_task_expr(ctx, v, func):
                return True
        return False
    if isinstance(expr, ast.Call):
        d = dotted(expr.func)
        if d and d.endswith('.get_final_io_task'):
            return True
        ctors = q.task_ctors_of(ctx, expr, func)
        return bool(ctors) and all(cl is not None and q.ctor_is_final(ctx, cl, call) for cl, call, _ in ctors)
    return False


def _events_in_call(ctx, call, func, res, notes):
    """Number of finaliser events a single call expression contributes, or a helper range."""
    # coordinator.submit(executor, task)
    if res.kind == 'package' and any(t.qualname == f'{COORD}.submit' for t in res.targets) and len(call.args) >= 2:
        task = call.args[1]
        ctors = q.task_ctors_of(ctx, task, func)
        n = 0
        for cl, ctor, _ in ctors:
            if cl is not None and q.ctor_is_final(ctx, cl, ctor):
                n = 1
            if ctor is not None:
                dc = kwarg(ctor, 'done_callbacks')
                if isinstance(dc, (ast.List, ast.Tuple)):
                    for e in dc.elts:
                        if _is_final_task_expr(ctx, e, func):
                            n += 1
        return (n, n)
    # invoker.finalize()
    if isinstance(call.func, ast.Attribute) and call.func.attr == 'finalize' and res.kind == 'package' \
            and any(t.qualname == 'utils.CountCallbackInvoker.finalize' for t in res.targets):
        inv = call.func.value
        if isinstance(inv, ast.Name):
            for _, v in q.local_defs(func, inv.id):
                if isinstance(v, ast.Call) and v.args:
                    if _callback_submits_final(ctx, v.args[0], func):
                        return (1, 1)
        notes.append(f'{func.qualname}: finalize() of an invoker whose callback does not submit a final task')
        return (0, 0)
    return None


def _callback_submits_final(ctx, expr, func, depth=0):
    """expr is FunctionContainer(coord.submit, executor, <final task>) or a helper returning one."""
    if depth > 3:
        return False
    if isinstance(expr, ast.Call):
        r = ctx.r.resolve(expr, func, _count=False)
        if r.kind == 'package':
            for t in r.targets:
                if t.qualname == 'utils.FunctionContainer.__init__' and len(expr.args) >= 3:
                    a0 = expr.args[0]
                    if isinstance(a0, ast.Attribute) and a0.attr == 'submit' and _is_final_task_expr(ctx, expr.args[2], func):
                        return True
                elif t.name != '__init__':
                    for n in own_nodes(t.node):
                        if isinstance(n, ast.Return) and n.value is not None and _callback_submits_final(ctx, n.value, t, depth + 1):
                            return True
    if isinstance(expr, ast.Name):
        for _, v in q.local_defs(func, expr.id):
            if isinstance(v, ast.AST) and _callback_submits_final(ctx, v, func, depth + 1):
                return True
    return False


def finaliser_range(ctx, func, notes, stack=()):
    """(min, max) number of finaliser arrangements over all normal paths of func,
    private helpers inlined."""
    if func in stack:
        return (0, 0)
    g = ctx.cfg(func)
    weight = {}
    for c, r in q.calls_in(ctx, func):
        ev = _events_in_call(ctx, c, func, r, notes)
        via_self = isinstance(c.func, ast.Attribute) and isinstance(c.func.value, ast.Name) and c.func.value.id == 'self'
        via_alias = isinstance(c.func, ast.Name) and c.func.id not in func.params  # a local bound to self.<helper> (possibly one of several)
        if ev is None and r.kind == 'package' and (via_self or via_alias) and func.cls is not None:
            # helper of the same class hierarchy
            rngs = [finaliser_range(ctx, t, notes, stack + (func,)) for t in r.targets
                    if t.cls is not None and (t.cls in func.cls.mro() or func.cls in t.cls.mro()) and t.name != '__init__']
            if rngs:
                ev = (min(a for a, _ in rngs), max(b for _, b in rngs))
        if ev is None or ev == (0, 0):
            continue
        if q.in_loop(c) is not None and ev[1] > 0:
            notes.append(f'{func.qualname}: finaliser inside a loop: {short(c, 70)}')
            ev = (0, 99)
        for n in g.nodes_of(c):
            a, b = weight.get(n, (0, 0))
            weight[n] = (a + ev[0], b + ev[1])
    memo = {}
    onstack = set()

    def dfs(n):
        if n is g.exit:
            return (0, 0)
        if n in memo:
            return memo[n]
        onstack.add(n)
        best = None
        for m, l in g.succ[n]:
            if l not in g.NORMAL or m in onstack:
                continue
            r = dfs(m)
            if r is None:
                continue
            best = r if best is None else (min(best[0], r[0]), max(best[1], r[1]))
        onstack.discard(n)
        if best is None:
            memo[n] = None
            return None
        w = weight.get(n, (0, 0))
        memo[n] = (best[0] + w[0], best[1] + w[1])
        return memo[n]
    r = dfs(g.entry)
    return r if r is not None else (0, 0)


@rule('C04.c', ['C04', 'C08'], floor=6)
def one_finaliser_per_submission_path(ctx):
    """On every normal-exit path of each _submit (helpers inlined) exactly one finaliser
    arrangement exists: a non-loop submit of an is_final task; or a final task from
    get_final_io_task() in done_callbacks of a non-loop submitted task; or a
    CountCallbackInvoker whose callback submits the final task, incremented once per
    loop iteration paired with done_callbacks=[invoker.decrement], finalize() after
    the loop.  Every override of get_final_io_task returns a final task."""
    base = ctx.cls('tasks.SubmissionTask')
    subs = [c for c in base.all_subclasses() if '_submit' in c.methods]
    ctx.need(len(subs) >= 4, f'only {len(subs)} SubmissionTask subclasses with _submit found')
    for c in subs:
        f = c.methods['_submit']
        notes = []
        lo, hi = finaliser_range(ctx, f, notes)
        ctx.ob(f, '_submit: finaliser arrangements per normal path', (lo, hi) == (1, 1),
               f'every normal path must set up exactly one finaliser, found between {lo} and {hi}' + ('; ' + '; '.join(notes) if notes else ''))
    for m, node, ok, detail in _final_io_task_ok(ctx):
        ctx.ob(m, node, ok, detail)
    # invoker pairing
    for f in ctx.p.all_functions():
        for c, r in q.calls_in(ctx, f):
            if r.kind == 'package' and any(t.qualname == 'utils.CountCallbackInvoker.increment' for t in r.targets):
                loop = q.in_loop(c)
                inv = norm(c.func.value)
                ok = loop is not None
                paired = False
                if loop is not None:
                    for n in ast.walk(loop):
                        if isinstance(n, ast.keyword) and n.arg == 'done_callbacks' and f'{inv}.decrement' in norm(n.value):
                            paired = True
                g = ctx.cfg(f)
                fins = [n for c2 in own_calls(f.node) if norm(c2.func) == f'{inv}.finalize' for n in g.nodes_of(c2)]
                loopn = [n for n in g.nodes if n.stmt is loop and n.kind in ('for', 'while')] if loop is not None else []
                post = bool(fins) and bool(loopn) and g.must_pass(loopn, fins, [g.exit], g.NORMAL) and not any(q.in_loop(n.ast) for n in fins)
                ctx.ob(f, c, ok and paired and post,
                       f'increment() must be paired with done_callbacks=[{inv}.decrement] in the same iteration and finalize() must follow the loop on every path '
                       f'(in_loop={ok}, paired={paired}, finalize_after_loop={post})')


@rule('C04.d', ['C04'], floor=3)
def waits_only_on_earlier_same_stage(ctx):
    """Every future named in pending_main_kwargs is the result of a submit that precedes
    the waiting task's submit on every path and targets the same executor expression
    (FIFO executor => the awaited task is dequeued first; no cyclic wait)."""
    n = 0
    for s in q.submits(ctx):
        for cl, ctor, owner in s.task_ctors:
            if ctor is None or owner is not s.func:
                continue
            pk = kwarg(ctor, 'pending_main_kwargs')
            if pk is None:
                continue
            if not isinstance(pk, ast.Dict):
                ctx.ob(s.func, ctor, False, 'pending_main_kwargs is not a dict literal: dependencies cannot be checked')
                continue
            g = ctx.cfg(s.func)
            here = g.nodes_of(s.call)
            for k, v in zip(pk.keys, pk.values):
                n += 1
                srcs = _future_sources(ctx, v, s.func)
                if not srcs:
                    ctx.ob(s.func, v, False, f'pending kwarg {norm(k)}: {norm(v)} is not the result of a submit in this function')
                    continue
                for sub in srcs:
                    same = norm(sub.args[0]) == s.executor_text if sub.args else False
                    before = g.all_dominate(g.nodes_of(sub), here, g.NORMAL) or _loop_before(g, sub, s.call)
                    ctx.ob(s.func, f'{norm(k)}: {norm(v)} <- {short(sub, 60)}', same and before,
                           f'awaited future must come from an earlier submit to the same executor (same_executor={same}, earlier={before})')
    ctx.need(n >= 3, f'only {n} pending kwargs found')


def _future_sources(ctx, v, func):
    """submit() calls whose result flows into Name v (directly or via list.append)."""
    out = []
    if not isinstance(v, ast.Name):
        return out
    for st, val in q.local_defs(func, v.id):
        if isinstance(val, ast.Call) and _is_coord_submit(ctx, val, func):
            out.append(val)
    for c in own_calls(func.node):
        if isinstance(c.func, ast.Attribute) and c.func.attr == 'append' and norm(c.func.value) == v.id and c.args:
            a = c.args[0]
            if isinstance(a, ast.Call) and _is_coord_submit(ctx, a, func):
                out.append(a)
    return out


def _is_coord_submit(ctx, call, func):
    r = ctx.r.resolve(call, func, _count=False)
    return r.kind == 'package' and any(t.qualname == f'{COORD}.submit' for t in r.targets)


def _loop_before(g, sub, later):
    """sub sits in a loop that wholly precedes ``later`` (the list is complete)."""
    loop = q.in_loop(sub)
    if loop is None:
        return False
    if any(a is loop for a in ancestors(later)):
        return False
    ln = [n for n in g.nodes if n.stmt is loop and n.kind in ('for', 'while')]
    return bool(ln) and g.all_dominate(ln, g.nodes_of(later), g.NORMAL)


@rule('C04.e', ['C04', 'C12', 'C10', 'C11'], floor=5)
def condition_discipline(ctx):
    """SlidingWindowSemaphore: wait() only inside a while whose test reads the guarded
    counter, with the condition held; acquire()/release() of the condition paired
    through try/finally; the release path that increments the counter passes
    notify/notify_all; a non-blocking acquire raises instead of waiting."""
    cls = ctx.cls('utils.SlidingWindowSemaphore')
    waits = 0
    for f in cls.methods.values():
        g = ctx.cfg(f)
        for c in own_calls(f.node):
            d = dotted(c.func) or ''
            if d.endswith('_condition.wait'):
                waits += 1
                loop = q.in_loop(c)
                ok = isinstance(loop, ast.While) and '_count' in q.attr_names_in(loop.test)
                held = q.locks_held(c)
                ctx.ob(f, c, ok and 'self._condition' in held, f'wait() must sit in `while <count test>` with the condition held (held={held})')
                gs = q.guards(c)
                ctx.ob(f, f'{short(c)}: only when blocking', q.guards_imply(gs, 'blocking'),
                       f'a non-blocking acquire must never reach wait() (guards={q.guard_texts(c)})')
            if d.endswith('_condition.acquire') or d.endswith('_lock.acquire'):
                st = c._parent
                blk = q.containing_block(st) if isinstance(st, ast.Expr) else None
                ok = False
                if blk is not None:
                    i = [k for k, s in enumerate(blk) if s is st][0]
                    nxt = blk[i + 1] if i + 1 < len(blk) else None
                    lock = d.rsplit('.', 1)[0]
                    ok = isinstance(nxt, ast.Try) and any(isinstance(s, ast.Expr) and isinstance(s.value, ast.Call) and dotted(s.value.func) == lock + '.release'
                                                          for s in nxt.finalbody)
                ctx.ob(f, c, ok, 'acquire() must be immediately followed by try/finally releasing the same lock')
        # increments of the counter must be accompanied by a notify on the same path
        incs = [n for n in own_nodes(f.node) if isinstance(n, ast.AugAssign) and isinstance(n.op, ast.Add) and dotted(n.target) == 'self._count']
        if incs:
            notes = [n for c in own_calls(f.node) if (dotted(c.func) or '').endswith(('_condition.notify', '_condition.notify_all')) for n in g.nodes_of(c)]
            for inc in incs:
                bad = False
                for node in g.nodes_of(inc):
                    a = node in g.reach([g.entry], avoid=notes, labels=g.NORMAL, include_src=True)
                    b = bool(g.reach([node], avoid=notes, labels=g.NORMAL) & {g.exit})
                    if a and b:
                        bad = True
                ctx.ob(f, inc, not bad, 'a path increments the free count without waking a waiter (lost wake-up)')
    ctx.need(waits >= 1, 'no condition wait found in SlidingWindowSemaphore')
    # TaskSemaphore: failing non-blocking acquire raises
    f = ctx.func('utils.TaskSemaphore.acquire')
    acq = [c for c in own_calls(f.node) if (dotted(c.func) or '').endswith('_semaphore.acquire')]
    ctx.need(acq, 'TaskSemaphore.acquire no longer calls the underlying semaphore')
    for c in acq:
        # some raise of the function is taken exactly when the underlying acquire returned false (the result tested directly or
        # through a local that is only tested: q.guards substitutes such flags)
        rs_ = [r for r in own_nodes(f.node) if isinstance(r, ast.Raise) and r.exc is not None and 'NoResourcesAvailable' in norm(r.exc)]
        ok = any(q.guards_imply(q.guards(r), f'not {norm(c)}') and len(q.guards(r)) == 1 for r in rs_) and bool(c.args) and norm(c.args[0]) == f.params[2 if len(f.params) > 2 else -1]
        ctx.ob(f, c, ok, 'a failed (non-blocking) acquire must raise NoResourcesAvailable and the blocking flag must be forwarded')


@rule('C04.f', ['C04', 'C10', 'C11', 'C12', 'C18'], floor=4)
def permits_come_back(ctx):
    """BoundedExecutor.submit: the semaphore released by the done-callback is the same
    local that was acquired, with the token that acquire returned; acquire precedes
    the executor submit; add_done_callback(release) follows on every normal path;
    the tag selects the semaphore."""
    f = ctx.func('futures.BoundedExecutor.submit')
    g = ctx.cfg(f)
    acqs = [c for c, r in q.calls_in(ctx, f) if r.kind == 'package' and any(t.name == 'acquire' and t.cls and t.cls.qualname.startswith('utils.') for t in r.targets)]
    ctx.ob(f, 'exactly one semaphore acquire', len(acqs) == 1, f'found {len(acqs)} acquire calls')
    if len(acqs) != 1:
        return
    acq = acqs[0]
    sem = norm(acq.func.value)
    st = acq._parent
    tok = st.targets[0].id if isinstance(st, ast.Assign) and isinstance(st.targets[0], ast.Name) else None
    rel = [c for c in own_calls(f.node) if any(isinstance(a, ast.Attribute) and a.attr == 'release' for a in c.args)]
    ok = False
    relname = None
    for c in rel:
        a0 = c.args[0]
        if norm(a0.value) == sem and tok is not None and any(isinstance(a, ast.Name) and a.id == tok for a in c.args[1:]):
            ok = True
            if isinstance(c._parent, ast.Assign) and isinstance(c._parent.targets[0], ast.Name):
                relname = c._parent.targets[0].id
    ctx.ob(f, f'release callback bound to {sem}.release with token {tok}', ok,
           'the done-callback must release the semaphore that was acquired, with the token acquire returned')
    # release(tag, token) mirrors acquire(tag, ...): same tag expression, in the positions the semaphores define, and the tag is
    # the transfer's id (the sliding window is kept per transfer; counting semaphores ignore both arguments, so a slip here
    # shows only on the in-memory download window: ValueError swallowed in the done callback, the permit never returns)
    task_p = f.params[1] if len(f.params) > 1 else 'task'
    atag = q.argn(acq, 'tag', 0)
    ctx.ob(f, f'{sem}.acquire({task_p}.transfer_id, ...)', atag is not None and norm(q.resolve_local(f, atag)) == f'{task_p}.transfer_id',
           f'the window is kept per transfer: the tag must be the id of the transfer the task belongs to, found {norm(atag) if atag is not None else None} '
           '(a per-task tag makes every task token 0 of its own window: the sliding window degrades to a plain counter and parts are requested arbitrarily far ahead)')
    for c in rel:
        if norm(c.args[0].value) != sem:
            continue
        rest = [norm(a) if isinstance(a, ast.Name) and a.id == tok else norm(q.resolve_local(f, a)) for a in c.args[1:]]
        ctx.ob(f, f'release arguments are (tag, token) = ({norm(atag) if atag is not None else "?"}, {tok})',
               atag is not None and rest == [norm(q.resolve_local(f, atag)), tok],
               f'release is called with {rest}: SlidingWindowSemaphore.release(tag, acquire_token) takes the tag first; swapped or different arguments are rejected '
               '(ValueError inside the done callback, swallowed) and the permit is never returned')
    adds = [c for c in own_calls(f.node) if isinstance(c.func, ast.Attribute) and c.func.attr == 'add_done_callback'
            and c.args and isinstance(c.args[0], ast.Name) and c.args[0].id == relname]
    addn = [n for c in adds for n in g.nodes_of(c)]
    ctx.ob(f, 'add_done_callback(release) after acquire on every normal path',
           bool(addn) and g.must_pass(g.nodes_of(acq), addn, [g.exit], g.NORMAL), 'a permit that is not released by the task future leaks (executor wedges)')
    # the release callable is only ever handed to the task future: calling it directly gives the permit back while the
    # task may still be queued or running (ThreadPoolExecutor.submit can raise after it queued the work item)
    if relname is not None:
        uses = [x for x in own_nodes(f.node) if isinstance(x, ast.Name) and x.id == relname and isinstance(x.ctx, ast.Load)]
        bad = [x for x in uses if not (isinstance(x._parent, ast.Call) and x in x._parent.args and isinstance(x._parent.func, ast.Attribute) and x._parent.func.attr == 'add_done_callback')]
        ctx.ob(f, f'{relname} is used only as the done-callback of the task future', not bad,
               'a permit released by anything but the completion of its task lets one more task into the stage than the limit allows'
               + (': ' + short(bad[0]._parent, 60) if bad else ''))
    direct = [c for c in own_calls(f.node) if isinstance(c.func, ast.Attribute) and c.func.attr == 'release' and norm(c.func.value) in (sem, 'self._semaphore')]
    for c in direct:
        h = q.in_handler(c)
        covers_acquire = h is not None and any(acq is x for s_ in h._parent.body for x in ast.walk(s_))
        in_finally = any(field == 'finalbody' and any(acq is x for s_ in t.body for x in ast.walk(s_)) for t, field in q.enclosing_trys(c))
        ctx.ob(f, c, False,
               ('this release also runs when the acquire itself failed (e.g. a rejected non-blocking submit): a permit that was never taken is given back and the limit grows'
                if covers_acquire or in_finally else
                'a permit is given back only by the completion of its task (the done-callback bound to the acquired semaphore and token): a direct release can name the wrong '
                'semaphore and runs while the task may already be queued'))
    subs = [c for c in own_calls(f.node) if (dotted(c.func) or '').endswith('_executor.submit')]
    ctx.ob(f, 'acquire precedes executor.submit', bool(subs) and g.all_dominate(g.nodes_of(acq), [n for c in subs for n in g.nodes_of(c)], g.NORMAL),
           'the task must not be handed to the pool before a permit is held')
    # semaphore selection
    defs = q.local_defs(f, sem) if sem.isidentifier() else []
    texts = {norm(v): q.guard_texts(s) for s, v in defs if isinstance(v, ast.AST)}
    ok = 'self._semaphore' in texts and any(k.startswith('self._tag_semaphores[') and g_ == [('tag', True)] for k, g_ in texts.items())
    ctx.ob(f, f'{sem} = stage semaphore, overridden by self._tag_semaphores[tag] under `if tag`', ok, f'semaphore selection not recognised: {texts}')
    # blocking default and no caller passes block=False
    d = f.defaults_map().get('block')
    ctx.ob(f, 'block defaults to True', isinstance(d, ast.Constant) and d.value is True, 'a full stage must block the submitter, not fail')
    ok = acq.args and len(acq.args) >= 2 and norm(acq.args[1]) == 'block'
    ctx.ob(f, acq, bool(ok), 'the block flag must be forwarded to acquire')
    for cf, c, r in q.callers_of(ctx, f.qualname):
        b = q.bind_args(ctx, c, cf, f) or {}
        v = b.get('block')
        ctx.ob(cf, c, v is None or (isinstance(v, ast.Constant) and v.value is True), 'package callers must submit with block=True', trivial=True)


# field -> lock that must be held at every access outside __init__ (frozen after reading every access)
GUARDED_FIELDS = {
    ('utils.CountCallbackInvoker', '_count'): 'self._lock',
    ('utils.CountCallbackInvoker', '_is_finalized'): 'self._lock',
    ('manager.TransferCoordinatorController', '_tracked_transfer_coordinators'): 'self._lock',
    ('futures.TransferCoordinator', '_associated_futures'): 'self._associated_futures_lock',
    ('futures.TransferCoordinator', '_done_callbacks'): 'self._done_callbacks_lock',
    ('futures.TransferCoordinator', '_failure_cleanups'): 'self._failure_cleanups_lock',
    ('processpool.TransferMonitor', '_id_count'): 'self._init_lock',
}
# documented unlocked accesses: (function, field) -> reason
UNLOCKED_OK = {
    ('futures.TransferCoordinator.failure_cleanups', '_failure_cleanups'): 'read-only property; its one caller (_run_failure_cleanups) holds the lock',
}


@rule('C04.h', ['C04', 'C08', 'C18', 'C19'], floor=10)
def shared_bookkeeping_under_its_lock(ctx):
    """Every access (outside __init__) of the counters/collections that decide when a
    transfer is finalised, tracked or called back - CountCallbackInvoker._count /
    _is_finalized, the controller's tracked set, the coordinator's associated futures,
    done callbacks and failure cleanups - happens while that object's lock is held; the
    finalise decision of CountCallbackInvoker is taken in the same lock region as the
    update (no lost or doubled final task)."""
    for (cq, field), lock in GUARDED_FIELDS.items():
        cl = ctx.cls(cq)
        n = 0
        for m in cl.methods.values():
            if m.name == '__init__':
                continue
            for x in own_nodes(m.node):
                if isinstance(x, ast.Attribute) and x.attr == field and isinstance(x.value, ast.Name) and x.value.id == 'self':
                    n += 1
                    if (m.qualname, field) in UNLOCKED_OK:
                        ctx.ob(m, f'self.{field} (documented unlocked access)', True, UNLOCKED_OK[(m.qualname, field)], trivial=True)
                        continue
                    held = q.locks_held(x)
                    from ..ir import enclosing_stmt
                    ctx.ob(m, f'self.{field} @ {short(enclosing_stmt(x), 50)}', lock in held,
                           f'self.{field} is accessed without {lock} (held: {held}): a concurrent update can be lost or seen half-way')
        ctx.need(n > 0, f'{cq}.{field} is never accessed')
    inv = ctx.cls('utils.CountCallbackInvoker')
    for mname in ('decrement', 'finalize'):
        m = inv.methods[mname]
        calls = [c for c, r in q.calls_in(ctx, m) if r.kind == 'open']
        ctx.ob(m, f'{mname}: the callback is invoked at most at one site', len(calls) == 1, f'{len(calls)} callback sites')
        for c in calls:
            gs = q.guards_under_lock(c, 'self._lock')
            want = 'self._is_finalized and self._count == 0' if mname == 'decrement' else 'self._count == 0'
            ok = q.guards_imply(gs, want) and 'self._lock' in q.locks_held(c)
            ctx.ob(m, f'{mname}: callback iff finalized and count == 0, decided under the lock', ok,
                   f'the final task would be submitted twice or never (guards under lock: {[(norm(e), p) for e, p in gs]})')
    # the count itself: +1 per increment, -1 per decrement, each exactly once on every normal path and under the lock; the callback
    # test in decrement is made after the decrement; increment refuses a finalised counter and decrement an empty one
    for mname, op in (('increment', ast.Add), ('decrement', ast.Sub)):
        m = inv.methods[mname]
        gm = ctx.cfg(m)
        steps = [n for n in own_nodes(m.node) if isinstance(n, ast.AugAssign) and dotted(n.target) == 'self._count']
        other = [n for n in own_nodes(m.node) if isinstance(n, ast.Assign) and any(dotted(t) == 'self._count' for t in n.targets)]
        ok = len(steps) == 1 and not other and isinstance(steps[0].op, op) and isinstance(steps[0].value, ast.Constant) and steps[0].value.value == 1 \
            and 'self._lock' in q.locks_held(steps[0]) and q.in_loop(steps[0]) is None and gm.must_pass([gm.entry], gm.nodes_of(steps[0]), [gm.exit], gm.NORMAL)
        ctx.ob(m, f"{mname}: self._count {'+' if op is ast.Add else '-'}= 1, once on every normal path, under the lock", ok,
               'the counter no longer counts outstanding work one by one: the final task is submitted early (before all writes) or never')
        rs = [n for n in own_nodes(m.node) if isinstance(n, ast.Raise)]
        want = 'self._is_finalized' if mname == 'increment' else 'self._count == 0'
        okr = len(rs) == 1 and q.guards_imply(q.guards(rs[0]), want) and len(q.guards(rs[0])) == 1 and bool(steps) \
            and not (gm.reach(gm.nodes_of(steps[0]), labels=gm.NORMAL) & set(gm.nodes_of(rs[0])))
        ctx.ob(m, f'{mname}: refuses when {want}, before touching the count', okr, 'misuse must surface as an error instead of corrupting the count')
        if mname == 'decrement' and steps:
            cbs = [c for c, r in q.calls_in(ctx, m) if r.kind == 'open']
            ctx.ob(m, 'decrement: the zero test that releases the callback is made after the decrement',
                   bool(cbs) and all(gm.all_dominate(gm.nodes_of(steps[0]), gm.nodes_of(c), gm.NORMAL) for c in cbs), 'tested before the decrement the last job never triggers the final task')
    fin = inv.methods['finalize']
    st = [n for n in own_nodes(fin.node) if isinstance(n, ast.Assign) and dotted(n.targets[0]) == 'self._is_finalized']
    ctx.ob(fin, 'finalize: self._is_finalized = True under the lock, before the count test', len(st) == 1 and 'self._lock' in q.locks_held(st[0])
           and isinstance(st[0].value, ast.Constant) and st[0].value.value is True, 'finalisation flag must be published atomically with the count test')
