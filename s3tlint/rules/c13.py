"""C13 - bandwidth limit is respected without starving or over-throttling."""
import ast

from ..engine import rule
from ..ir import ClassInfo, dotted, kwarg, norm, own_calls, own_nodes, short
from .. import q
from .. import cfg as cfgmod


@rule('C13.a', ['C13'], floor=12)
def everything_is_wrapped_by_one_bucket(ctx):
    """LeakyBucket is constructed once, in TransferManager.__init__, sized by max_bandwidth
    under `max_bandwidth is not None`; upload() and download() hand that limiter to the
    submission task; every upload body factory passes the raw source through
    _wrap_fileobj (which applies the limiter when present); GetObjectTask wraps the
    response body under `if bandwidth_limiter` inside the attempt; the limiter gives
    every stream the same bucket."""
    # one bucket
    sites = [(f, c) for f, c, r in q.call_index(ctx) if r.kind == 'package' and r.recv and any(isinstance(t, ClassInfo) and t.qualname == 'bandwidth.LeakyBucket' for t in r.recv)
             and any(t.name == '__init__' for t in r.targets) and not isinstance(c.func, ast.Attribute)]
    ctx.ob('<package>', 'LeakyBucket constructed at exactly one site', len(sites) == 1, f'{len(sites)} construction sites: transfers would not share one limit')
    for f, c in sites:
        gs_ = [(ast.parse(q.self_alias_text(f, e), mode='eval').body if isinstance(e, ast.AST) else e, pol) for e, pol in q.guards(c)]
        ok = f.qualname == 'manager.TransferManager.__init__' and q.guards_imply(gs_, 'self._config.max_bandwidth is not None') \
            and c.args and q.self_alias_text(f, c.args[0]) == 'self._config.max_bandwidth' and q.in_loop(c) is None
        ctx.ob(f, c, ok, 'the bucket must be created once per manager with the configured max_bandwidth')
    mi = ctx.func('manager.TransferManager.__init__')
    lims = []
    for fn, v in ctx.cls('manager.TransferManager').init_attrs.get('_bandwidth_limiter', []):
        if fn is mi:
            cands = [d for _, d in q.local_defs(mi, v.id)] if isinstance(v, ast.Name) else [v]
            lims += [d for d in cands if isinstance(d, ast.Call)]
    arg0 = q.resolve_local(mi, lims[0].args[0]) if len(lims) == 1 and lims[0].args else None
    ok = len(lims) == 1 and norm(lims[0].func) == 'BandwidthLimiter' and isinstance(arg0, ast.Call) and norm(arg0.func) == 'LeakyBucket' \
        and any(arg0 is c for _, c in sites)
    ctx.ob(mi, 'self._bandwidth_limiter = BandwidthLimiter(<that bucket>)', ok, 'the manager-wide limiter must wrap the bucket')
    for mname in ('upload', 'download'):
        m = ctx.func(f'manager.TransferManager.{mname}')
        st = [n for n in own_nodes(m.node) if isinstance(n, ast.Assign) and isinstance(n.targets[0], ast.Subscript)
              and isinstance(n.targets[0].slice, ast.Constant) and n.targets[0].slice.value == 'bandwidth_limiter']
        ok = len(st) == 1 and norm(st[0].value) == 'self._bandwidth_limiter' and q.guards_imply(q.guards(st[0]), 'self._bandwidth_limiter') and len(q.guards(st[0])) == 1
        dict_name = norm(st[0].targets[0].value) if st else None
        passed = any(r.kind == 'package' and any(t.name == '_submit_transfer' for t in r.targets) and any(isinstance(a, ast.Name) and a.id == dict_name for a in list(c.args) + [k.value for k in c.keywords])
                     for c, r in q.calls_in(ctx, m))
        ctx.ob(m, f"{mname}(): extra_main_kwargs['bandwidth_limiter'] = self._bandwidth_limiter", ok and passed, f'{mname}s would not be throttled')
    # limiter -> stream uses the shared bucket
    g = ctx.func('bandwidth.BandwidthLimiter.get_bandwith_limited_stream')
    cs = [c for c in own_calls(g.node) if norm(c.func) == 'BandwidthLimitedStream']
    ok = len(cs) == 1 and len(cs[0].args) >= 3 and norm(cs[0].args[1]) == 'self._leaky_bucket' and norm(cs[0].args[0]) == g.params[1] and norm(cs[0].args[2]) == g.params[2]
    ctx.ob(g, 'BandwidthLimitedStream(fileobj, self._leaky_bucket, transfer_coordinator, ...)', ok, 'each stream must consume from the shared bucket and watch its own coordinator')
    # upload side
    w = ctx.func('upload.UploadInputManager._wrap_fileobj')
    cs = [c for c in own_calls(w.node) if (dotted(c.func) or '').endswith('get_bandwith_limited_stream')]
    # path rule: on every path to a return, the value returned is the limited stream (of the wrapped object) when a limiter is
    # configured, and the limiter is by-passed only when there is none
    gw = ctx.cfg(w)
    rets = [n for n in own_nodes(w.node) if isinstance(n, ast.Return) and n.value is not None]
    okp = len(cs) == 1 and bool(rets)
    seen_lim = False
    for r in rets:
        res = gw.path_conditions([gw.entry], gw.nodes_of(r), labels=gw.NORMAL, with_nodes=True)
        if not res:
            okp = False
            continue
        for conds, nodes in res:
            via = set()      # locals that hold the limited stream on this path
            for n in nodes[:-1]:
                st = n.ast if n.kind == 'stmt' else None
                if isinstance(st, ast.Assign) and len(st.targets) == 1 and isinstance(st.targets[0], ast.Name):
                    if any(x is cs[0] for x in ast.walk(st.value)) if cs else False:
                        via.add(st.targets[0].id)
                    elif not (isinstance(st.value, ast.Name) and st.value.id in via):
                        via.discard(st.targets[0].id)
                    else:
                        via.add(st.targets[0].id)
            limited = (isinstance(r.value, ast.Name) and r.value.id in via) or (bool(cs) and any(x is cs[0] for x in ast.walk(r.value)))
            has_limiter = q.guards_imply(conds, 'self._bandwidth_limiter')
            no_limiter = q.guards_imply(conds, 'not self._bandwidth_limiter')
            if limited:
                seen_lim = True
                okp = okp and has_limiter
            else:
                okp = okp and no_limiter
    ctx.ob(w, '_wrap_fileobj applies the limiter when present and returns the wrapped object', okp and seen_lim, 'upload bodies would bypass the limiter')
    ir = [c for c in own_calls(w.node) if norm(c.func) == 'InterruptReader']
    ctx.ob(w, '_wrap_fileobj wraps with InterruptReader (C03.f/C07.f)', len(ir) == 1 and not q.guards(ir[0]), 'uploads of a failed transfer would keep reading')
    base = ctx.cls('upload.UploadInputManager')
    n = 0
    for cl in base.all_subclasses():
        for m in cl.methods.values():
            for c in own_calls(m.node):
                if (dotted(c.func) or '').endswith('open_file_chunk_reader_from_fileobj'):
                    n += 1
                    fo = kwarg(c, 'fileobj') or (c.args[0] if c.args else None)
                    ok = isinstance(fo, ast.Name) and any(isinstance(v, ast.Call) and (dotted(v.func) or '') == 'self._wrap_fileobj' for _, v in q.local_defs(m, fo.id))
                    if ok:
                        g2 = ctx.cfg(m)
                        wn = [x for _, v in q.local_defs(m, fo.id) if isinstance(v, ast.Call) and (dotted(v.func) or '') == 'self._wrap_fileobj' for x in g2.nodes_of(v)]
                        ok = g2.all_dominate(wn, g2.nodes_of(c), g2.NORMAL)
                    ctx.ob(m, c, ok, 'the body handed to the chunk reader must be the _wrap_fileobj() result on every path')
    ctx.need(n >= 3, f'only {n} body construction sites found')
    us = ctx.func('upload.UploadSubmissionTask._submit')
    def _is_manager_cls(fx):
        fx = q.resolve_local(us, fx)
        return isinstance(fx, ast.Call) and (dotted(fx.func) or '').endswith('_get_upload_input_manager_cls')
    ok = any(_is_manager_cls(c.func) and any(isinstance(a, ast.Name) and a.id == 'bandwidth_limiter' for a in list(c.args) + [k.value for k in c.keywords]) for c in own_calls(us.node))
    ctx.ob(us, 'the input manager receives bandwidth_limiter', ok, 'the limiter never reaches the upload bodies')
    # download side
    t = ctx.func('download.GetObjectTask._main')
    cs = [c for c in own_calls(t.node) if (dotted(c.func) or '').endswith('get_bandwith_limited_stream')]
    ok = len(cs) == 1 and q.guards_imply(q.guards(cs[0]), 'bandwidth_limiter') and isinstance(q.in_loop(cs[0]), ast.For) \
        and any(field == 'body' for _, field in q.enclosing_trys(cs[0]))
    ctx.ob(t, 'response body wrapped by the limiter inside every attempt', ok, 'retried streams (or all streams) would not be throttled')
    if cs:
        var = cs[0]._parent.targets[0].id if isinstance(cs[0]._parent, ast.Assign) and isinstance(cs[0]._parent.targets[0], ast.Name) else None
        its = [c for c in own_calls(t.node) if norm(c.func) == 'DownloadChunkIterator']
        ctx.ob(t, f'DownloadChunkIterator reads from the wrapped stream ({var})', bool(its) and all(c.args and norm(c.args[0]) == var for c in its)
               and norm(cs[0].args[0]) == var and norm(cs[0].args[1]) == 'self._transfer_coordinator', 'chunks must be read through the limited stream')
    for s in q.submits(ctx):
        for cl, ctor, owner in s.task_ctors:
            if cl is not None and ctor is not None and cl.is_subclass_of(ctx.cls('download.GetObjectTask')):
                mk = kwarg(ctor, 'main_kwargs')
                ok = isinstance(mk, ast.Dict) and any(isinstance(k, ast.Constant) and k.value == 'bandwidth_limiter' and norm(v) == 'bandwidth_limiter' for k, v in zip(mk.keys, mk.values))
                ctx.ob(owner, f"{cl.name}: 'bandwidth_limiter': bandwidth_limiter", ok, 'the limiter is not handed to the GET task')


@rule('C13.b', ['C13'], floor=2)
def dead_transfer_stops_waiting(ctx):
    """The wait loop in _consume_through_leaky_bucket tests the coordinator's exception on
    every iteration and raises it when the loop ends that way."""
    f = ctx.func('bandwidth.BandwidthLimitedStream._consume_through_leaky_bucket')
    loops = [n for n in own_nodes(f.node) if isinstance(n, ast.While)]
    ctx.need(loops, 'no wait loop in _consume_through_leaky_bucket')
    lp = loops[0]
    ok = q.equivalent(lp.test, 'not self._transfer_coordinator.exception')
    ctx.ob(f, f'while {norm(lp.test)}', ok, 'the wait must end as soon as the transfer has an exception')
    raises = [n for n in lp.orelse for n in ast.walk(n) if isinstance(n, ast.Raise)] if lp.orelse else \
        [n for n in own_nodes(f.node) if isinstance(n, ast.Raise) and not any(a is lp for a in __import__('s3tlint.ir', fromlist=['ancestors']).ancestors(n))]
    ok = bool(raises) and all(r.exc is not None and norm(r.exc) == 'self._transfer_coordinator.exception' for r in raises)
    ctx.ob(f, "raise self._transfer_coordinator.exception after the loop", ok, "a read of a failed/cancelled transfer must raise that transfer's error")


def _consume_may_raise(node):
    a = node.ast
    if isinstance(a, ast.Raise):
        return True
    if a is not None and node.kind == 'stmt':
        for c in ast.walk(a):
            if isinstance(c, ast.Call) and (dotted(c.func) or '').endswith('.consume'):
                return True
    return False


@rule('C13.c', ['C13'], floor=1)
def scheduled_token_is_released_or_unscheduled(ctx):
    """Typestate on the request token: LeakyBucket.consume can put the caller's token
    into the scheduler and is the only thing that takes it out.  In every function that
    catches RequestExceededException from consume(_, token), every exit reachable after
    that handler passes a later consume with the same token that returns normally, or
    a call that removes the token (cancel_scheduled_consumption)."""
    # each stream identifies its own consumption requests: a fresh RequestToken per BandwidthLimitedStream, never shared
    # (the scheduler keys waiting requests by token: two streams with one token release / unschedule each other)
    bl = ctx.cls('bandwidth.BandwidthLimitedStream')
    tv = [(fn, v) for fn, v in bl.init_attrs.get('_request_token', [])]
    ok_tok = len(tv) == 1 and tv[0][0].name == '__init__' and isinstance(tv[0][1], ast.Call) and norm(tv[0][1].func) == 'RequestToken' and not tv[0][1].args \
        and not q.guards(q_stmt_of(tv[0][1]))
    ctx.ob(bl.methods['__init__'], 'self._request_token = RequestToken() (one fresh token per stream)', ok_tok,
           f"the stream's token must be its own: {[norm(v) for _, v in tv]}")
    n = 0
    for f in ctx.p.all_functions():
        hs = [h for h in own_nodes(f.node) if isinstance(h, ast.ExceptHandler) and h.type is not None and 'RequestExceededException' in norm(h.type)]
        if not hs:
            continue
        g = cfgmod.CFG(f.node, _consume_may_raise)
        for h in hs:
            t = h._parent
            cons = [c for s in t.body for c in ast.walk(s) if isinstance(c, ast.Call) and (dotted(c.func) or '').endswith('.consume')]
            if not cons:
                continue
            n += 1
            tok = norm(cons[0].args[1]) if len(cons[0].args) > 1 else None
            cn = set(x for c in cons for x in g.nodes_of(c))
            uns = set(x for c in own_calls(f.node) if isinstance(c.func, ast.Attribute) and c.func.attr in ('cancel_scheduled_consumption', 'process_scheduled_consumption', 'unschedule')
                      and any(norm(a) == tok for a in c.args) for x in g.nodes_of(c))
            hn = [x for x in g.nodes if x.kind == 'handler' and x.ast is h]
            # search: leaving a consume node by its normal edge is success
            # (boolean locals set to a constant on the way are remembered: `ok = False` in the handler makes the `if ok: return`
            # that follows infeasible - the shape a retry body takes when it is written as a helper returning a success flag)
            def _consts_after(node, consts):
                st = node.ast if node.kind == 'stmt' else None
                if isinstance(st, ast.Assign) and len(st.targets) == 1 and isinstance(st.targets[0], ast.Name):
                    c2 = dict(consts)
                    if isinstance(st.value, ast.Constant) and isinstance(st.value.value, bool):
                        c2[st.targets[0].id] = st.value.value
                    else:
                        c2.pop(st.targets[0].id, None)
                    return c2
                return consts
            start = [(x, ()) for x in hn]
            seen, stack, bad = set(start), list(start), None
            prev = {x: None for x in hn}
            while stack and bad is None:
                a, cs_ = stack.pop()
                consts = _consts_after(a, dict(cs_))
                for b, l in g.succ[a]:
                    if a in cn and l != 'exc':
                        continue  # consume returned normally: token released
                    if a in cn and b is g.rexit:
                        continue  # an exception other than RequestExceededException: out of scope
                    if a.kind in ('if', 'while') and l in ('t', 'f') and a.ast is not None:
                        t_, pol_ = a.ast, l == 't'
                        while isinstance(t_, ast.UnaryOp) and isinstance(t_.op, ast.Not):
                            t_, pol_ = t_.operand, not pol_
                        if isinstance(t_, ast.Name) and t_.id in consts and consts[t_.id] != pol_:
                            continue  # contradicts what the flag was just set to
                    key = (b, tuple(sorted(consts.items())))
                    if b in uns or key in seen:
                        continue
                    prev.setdefault(b, a)
                    if b in (g.exit, g.rexit):
                        bad = b
                        break
                    seen.add(key)
                    stack.append(key)
            path = []
            x = bad
            while x is not None:
                path.append(x)
                x = prev.get(x)
            ctx.ob(f, f'except RequestExceededException: token {tok} released or unscheduled on every exit', bad is None,
                   'an exit leaves the token scheduled: the scheduler\'s accumulated wait never shrinks and every later throttled read waits longer: '
                   + ' -> '.join(f'{p.kind}@{p.line}:{short(p.ast, 30) if p.ast is not None else ""}' for p in reversed(path)))
    ctx.need(n >= 1, 'no RequestExceededException handler around consume() found')
    # the bucket is the only one touching the scheduler, under its lock
    for f, c, r in q.call_index(ctx):
        if r.kind == 'package' and any(t.cls is not None and t.cls.qualname == 'bandwidth.ConsumptionScheduler' and t.name != '__init__' for t in r.targets):
            ok = f.cls is not None and f.cls.qualname == 'bandwidth.LeakyBucket'
            held = True
            if ok:
                # reached from a method that holds self._lock
                pubs = [m for m in f.cls.methods.values() if any(isinstance(n, ast.With) and any(q.is_lock_expr(i.context_expr) for i in n.items) for n in own_nodes(m.node))]
                held = 'self._lock' in q.locks_held(c) or any(f in q.transitive_callees(ctx, m, depth=3) for m in pubs)
            ctx.ob(f, c, ok and held, 'the scheduler may only be used by LeakyBucket under its lock')


@rule('C13.d', ['C13'], floor=3)
def small_bodies_are_charged(ctx):
    """close() consumes when limiting is enabled and bytes are pending, before closing the
    wrapped object; read() consumes before reading once the threshold is reached and
    limiting is enabled."""
    f = ctx.func('bandwidth.BandwidthLimitedStream.close')
    g = ctx.cfg(f)
    cons = [c for c in own_calls(f.node) if (dotted(c.func) or '').endswith('_consume_through_leaky_bucket')]
    cl = [c for c in own_calls(f.node) if (dotted(c.func) or '').endswith('_fileobj.close')]
    ok = len(cons) == 1 and q.guards_imply(q.guards(cons[0]), 'self._bandwidth_limiting_enabled and self._bytes_seen') and \
        q.equivalent(' and '.join(('' if pol else 'not ') + f'({norm(e)})' for e, pol in q.guards(cons[0])), 'self._bandwidth_limiting_enabled and self._bytes_seen')
    ctx.ob(f, 'close(): consume pending bytes when limiting is enabled', ok, 'bodies smaller than the threshold would never be charged')
    ctx.ob(f, 'close(): wrapped object is closed on every normal path, after the consume', bool(cl) and g.must_pass([g.entry], [n for c in cl for n in g.nodes_of(c)], [g.exit], g.NORMAL)
           and not (g.reach([n for c in cl for n in g.nodes_of(c)], labels=g.NORMAL) & set(n for c in cons for n in g.nodes_of(c))), 'close must always close the wrapped object')
    r = ctx.func('bandwidth.BandwidthLimitedStream.read')
    g = ctx.cfg(r)
    reads = [c for c in own_calls(r.node) if (dotted(c.func) or '').endswith('_fileobj.read')]
    cons = [n for c in own_calls(r.node) if (dotted(c.func) or '').endswith('_consume_through_leaky_bucket') for n in g.nodes_of(c)]
    # path rule: no consume-free path to a read is consistent with (enabled and threshold reached)
    rn = [n for c in reads for n in g.nodes_of(c)]
    pcs = g.path_conditions([g.entry], rn, avoid=cons, labels=g.NORMAL)
    ctx.need(pcs is not None, 'too many paths in BandwidthLimitedStream.read')
    ok = bool(cons) and bool(rn) and all(
        q.guards_imply(pc, 'not self._bandwidth_limiting_enabled or self._bytes_seen < self._bytes_threshold') for pc in pcs)
    # and a read is reached on every normal path
    ok = ok and g.must_pass([g.entry], rn, [g.exit], g.NORMAL)
    ctx.ob(r, 'read(): consume precedes the read once the threshold is reached', ok, 'reads past the threshold must go through the bucket first')
    acc = [n for n in own_nodes(r.node) if isinstance(n, ast.AugAssign) and dotted(n.target) == 'self._bytes_seen' and norm(n.value) == r.params[1]]
    ctx.ob(r, 'self._bytes_seen += amount', len(acc) == 1 and q.guards_imply(q.guards(acc[0]), 'self._bandwidth_limiting_enabled'), 'requested bytes must be accounted while limiting is enabled')
    c = ctx.func('bandwidth.BandwidthLimitedStream._consume_through_leaky_bucket')
    cs = [x for x in own_calls(c.node) if (dotted(x.func) or '').endswith('_leaky_bucket.consume')]
    ok = bool(cs) and all(len(x.args) == 2 and q.derives_from(c, x.args[0], lambda n: isinstance(n, ast.Attribute) and n.attr == '_bytes_seen')
                          and norm(x.args[1]) == 'self._request_token' for x in cs)
    ctx.ob(c, 'consume(self._bytes_seen, self._request_token)', ok, 'the amount charged must be the bytes seen, with the stream\'s own token')
    rs = [n for n in own_nodes(c.node) if isinstance(n, ast.Assign) and dotted(n.targets[0]) == 'self._bytes_seen' and norm(n.value) == '0']
    ctx.ob(c, 'self._bytes_seen = 0 after a granted consume', len(rs) == 1 and any(field in ('body', 'orelse') for _, field in q.enclosing_trys(rs[0]))
           and not q.in_handler(rs[0]), 'charged bytes must not be charged again')


@rule('C13.e', ['C13'], floor=4)
def scheduler_accounting_is_paired(ctx):
    """ConsumptionScheduler: the amount schedule_consumption adds to _total_wait is stored
    in the token's record under a key, and process_scheduled_consumption subtracts exactly
    that entry of the popped record (clamped at 0); the wait returned to the caller is the
    accumulated total; the stream sleeps exactly the advised retry_time before it
    re-consumes (a retry releases the scheduled request whatever time has passed)."""
    from ..poly import equal as _peq
    sc = ctx.func('bandwidth.ConsumptionScheduler.schedule_consumption')
    amount, token = sc.params[3], sc.params[2]
    eff = q.straightline(sc)
    ctx.need(eff is not None, 'schedule_consumption is no longer a straight line of assignments')
    tot = eff.get('self._total_wait')
    ctx.ob(sc, 'self._total_wait += time_to_consume', tot is not None and _peq(tot, f'self._total_wait + {amount}'),
           f'each scheduled request must add its own share to the accumulated wait; new total = {norm(tot) if tot is not None else None}')
    recs = [(k_, v) for k_, v in eff.items() if k_.startswith('self._tokens_to_scheduled_consumption[') and isinstance(v, ast.Dict)]
    key = None
    if len(recs) == 1:
        for k, v in zip(recs[0][1].keys, recs[0][1].values):
            if isinstance(k, ast.Constant) and norm(v) == amount:
                key = k.value
    ctx.ob(sc, f'the share is recorded in the token record (key {key!r})', key is not None and recs[0][0] == f'self._tokens_to_scheduled_consumption[{token}]' if recs else False,
           'the record must remember how much this request added')
    ret = eff.get('<return>')
    ctx.ob(sc, 'returns the accumulated wait (after adding its share)', ret is not None and tot is not None and _peq(ret, f'self._total_wait + {amount}'),
           'a request must wait for everything scheduled before it plus its own share')
    pr = ctx.func('bandwidth.ConsumptionScheduler.process_scheduled_consumption')
    pops = [c for c in own_calls(pr.node) if (dotted(c.func) or '') == 'self._tokens_to_scheduled_consumption.pop']
    eff2 = q.straightline(pr)
    ctx.need(eff2 is not None, 'process_scheduled_consumption is no longer a straight line of assignments')
    tot2 = eff2.get('self._total_wait')
    ok = False
    if tot2 is not None and key is not None and len(pops) == 1:
        popt = norm(pops[0])
        want = f"self._total_wait - {popt}['{key}']"
        ok = norm(tot2) in (f'max({want}, 0)', f'max(0, {want})')
    ctx.ob(pr, f"self._total_wait = max(self._total_wait - record[{key!r}], 0) for the popped record", ok,
           f'releasing a request must give back exactly the share it added; found {norm(tot2) if tot2 is not None else None}')
    ctx.ob(pr, 'the token record is removed', len(pops) == 1 and norm(pops[0].args[0]) == pr.params[1], 'a released token must no longer count as scheduled')
    # the stream sleeps the advised time
    f = ctx.func('bandwidth.BandwidthLimitedStream._consume_through_leaky_bucket')
    hs = [h for h in own_nodes(f.node) if isinstance(h, ast.ExceptHandler) and h.type is not None and 'RequestExceededException' in norm(h.type)]
    ctx.need(hs, 'no RequestExceededException handler in the stream')
    for h in hs:
        sl = [c for c in ast.walk(h) if isinstance(c, ast.Call) and (dotted(c.func) or '').endswith('.sleep')]
        ok = len(sl) == 1 and len(sl[0].args) == 1 and norm(sl[0].args[0]) == f'{h.name}.retry_time' and sl[0]._parent in h.body
        ctx.ob(f, f'sleep({h.name}.retry_time) before re-consuming', ok,
               'a shorter sleep followed by the retry releases the scheduled request early: the limit is exceeded in proportion to the number of waiting streams')
    # on the fully expanded consume() (helpers inlined, whichever way they are cut)
    x = ctx.expanded()
    rb = x.func('bandwidth.LeakyBucket.consume')
    cs = [c for c in own_calls(rb.node) if (dotted(c.func) or '').endswith('schedule_consumption')]
    raises = []
    for n in own_nodes(rb.node):
        if isinstance(n, ast.Raise) and n.exc is not None:
            ex = q.resolve_local(rb, n.exc)
            if isinstance(ex, ast.Call) and 'RequestExceededException' in norm(ex.func):
                raises.append(ex)
    wait = q.resolve_local(rb, cs[0]._parent.targets[0]) if len(cs) == 1 and isinstance(cs[0]._parent, ast.Assign) else (cs[0] if len(cs) == 1 else None)
    ok = len(cs) == 1 and len(raises) == 1 and q.resolve_local(rb, q.argn(raises[0], 'retry_time', 1)) is cs[0]
    share = q.argn(cs[0], 'time_to_consume', 2) if len(cs) == 1 else None
    ok2 = share is not None and (q.ntext(rb, share) or '').replace(' ', '') in ('amt/float(self._max_rate)', 'amt/self._max_rate')
    ctx.ob(rb.qualname, 'retry_time of the exception = the wait returned by the scheduler; share = amt / max_rate', ok and ok2,
           'the advised wait must be the scheduled one and a request\'s share its size at the maximum rate', node=rb.node)


@rule('C13.f', ['C13'], floor=2)
def clock_is_read_under_the_bucket_lock(ctx):
    """LeakyBucket.consume reads the clock while holding the bucket lock, and every value it
    hands to the rate tracker / scheduler as "now" is that reading: a timestamp taken before
    the lock can be older than the tracker's last one (negative interval -> infinite rate ->
    traffic below the limit is throttled, permanently once recorded)."""
    f = ctx.func('bandwidth.LeakyBucket.consume')
    clocks = [c for c in own_calls(f.node) if (dotted(c.func) or '').endswith('_time_utils.time')]
    ctx.ob(f, 'self._time_utils.time() inside `with self._lock`', len(clocks) == 1 and 'self._lock' in q.locks_held(clocks[0]),
           'the clock must be read after the lock is taken')
    tn = clocks[0]._parent.targets[0].id if len(clocks) == 1 and isinstance(clocks[0]._parent, ast.Assign) and isinstance(clocks[0]._parent.targets[0], ast.Name) else None
    users = [c for c in own_calls(f.node) if (dotted(c.func) or '').startswith('self._') and not (dotted(c.func) or '').endswith('_time_utils.time')
             and any(isinstance(a, ast.Name) and a.id == tn for a in c.args)]
    ctx.ob(f, f'{tn} (the locked reading) is the time passed on', tn is not None and len(users) >= 2 and len(q.local_defs(f, tn)) == 1,
           'a second/other clock value would make projected and recorded rates disagree')


def q_stmt_of(node):
    from ..ir import enclosing_stmt
    return enclosing_stmt(node)


@rule('C13.g', ['C13'], floor=3)
def smoothing_allowance_is_a_quarter(ctx):
    """The 1.25 of the property is 1/alpha of the exponential moving average the bucket
    projects with: a consume() is let through when alpha*new + (1-alpha)*current <=
    max_rate, so one sample can exceed the limit by the factor 1/alpha at most.  The
    bucket the manager builds uses the default tracker, and the default alpha, evaluated
    from the source, lies in [0.8, 1]."""
    lb = ctx.func('bandwidth.LeakyBucket.__init__')
    tr = [c for c in own_calls(lb.node) if norm(c.func) == 'BandwidthRateTracker']
    ctx.need(tr, 'LeakyBucket.__init__ no longer builds its BandwidthRateTracker')
    rt = ctx.func('bandwidth.BandwidthRateTracker.__init__')
    ap = rt.params[1] if len(rt.params) > 1 else 'alpha'
    for c in tr:
        a = q.argn(c, ap, 0)
        if a is None:
            a = rt.defaults_map().get(ap)
        try:
            val = q.const_eval(ctx, a, rt.module) if a is not None else None
        except Exception:
            val = None
        ok = isinstance(val, (int, float)) and not isinstance(val, bool) and 0.8 <= val <= 1
        ctx.ob(lb, f'default tracker alpha = {val}', ok,
               f'with alpha={val} a single consume may exceed the limit by the factor 1/alpha = {round(1 / val, 3) if isinstance(val, (int, float)) and val else "?"} > 1.25 '
               '(bursts after idle samples go through unthrottled)')
    st = [norm(v) for fn, v in ctx.cls('bandwidth.BandwidthRateTracker').init_attrs.get('_alpha', []) if fn is rt]
    ctx.ob(rt, f'self._alpha = {ap}', st == [ap], f'found {st}')
    # the manager's bucket takes the defaults (no tracker of its own)
    sites = [(f, c) for f, c, r in q.call_index(ctx) if norm(c.func) == 'LeakyBucket' and f.module.name != 'bandwidth']
    for f, c in sites:
        ctx.ob(f, c, len(c.args) + len(c.keywords) == 1, 'the bucket is given its own tracker / scheduler / clock: the allowance argued from the defaults does not apply')
    ctx.need(sites, 'no LeakyBucket construction site outside bandwidth.py')
    # projected rate = alpha * new + (1 - alpha) * current, wherever in the tracker it is computed
    from ..poly import equal
    cl = ctx.cls('bandwidth.BandwidthRateTracker')
    n = 0
    for m in cl.methods.values():
        for r in [x.value for x in own_nodes(m.node) if isinstance(x, (ast.Return, ast.Assign)) and x.value is not None and '_alpha' in norm(x.value)]:
            if norm(r) in (ap, f'self._{ap}'):
                continue
            X = None
            for b in ast.walk(r):
                if isinstance(b, ast.BinOp) and isinstance(b.op, ast.Mult):
                    if norm(b.left) == 'self._alpha':
                        X = b.right
                    elif norm(b.right) == 'self._alpha':
                        X = b.left
                    if X is not None:
                        break
            ok = False
            if X is not None:
                want = ast.parse(f'self._alpha * ({norm(X)}) + (1 - self._alpha) * self._current_rate', mode='eval').body
                try:
                    ok = equal(r, want)
                except Exception:
                    ok = False
            n += 1
            ctx.ob(m, f'moving average = alpha * new + (1 - alpha) * current ({norm(r)[:70]})', ok, 'the weights must sum to one with alpha on the new sample: otherwise 1/alpha is not the allowance')
    ctx.need(n >= 1, 'the moving-average expression was not found in BandwidthRateTracker')


@rule('C13.h', ['C13', 'C09'], floor=5)
def upload_bodies_are_charged_only_while_sent(ctx):
    """Upload bodies are created with limiting switched off and are switched on by the
    request-created handler (signal_transferring) and off again by the before-sign handler
    (signal_not_transferring): reads botocore makes while it prepares the request
    (checksums over the body for http endpoints, signing) are not transfers and must be
    neither charged nor delayed - charged twice, demand below the limit is throttled."""
    w = ctx.func('upload.UploadInputManager._wrap_fileobj')
    cs = [c for c in own_calls(w.node) if (dotted(c.func) or '').endswith('get_bandwith_limited_stream')]
    ctx.need(len(cs) == 1, '_wrap_fileobj no longer creates exactly one limited stream')
    gl = ctx.func('bandwidth.BandwidthLimiter.get_bandwith_limited_stream')
    en = gl.params[3] if len(gl.params) > 3 else 'enabled'
    a = q.argn(cs[0], en, 2)
    ctx.ob(w, f'get_bandwith_limited_stream(..., {en}=False)', isinstance(a, ast.Constant) and a.value is False,
           f'upload bodies must start with limiting off (found {norm(a) if a is not None else "the default"}): reads made before the request is sent would be charged')
    dis = [c for c in own_calls(gl.node) if isinstance(c.func, ast.Attribute) and c.func.attr == 'disable_bandwidth_limiting']
    st = [c for c in own_calls(gl.node) if norm(c.func) == 'BandwidthLimitedStream']
    sv = st[0]._parent.targets[0].id if len(st) == 1 and isinstance(st[0]._parent, ast.Assign) and isinstance(st[0]._parent.targets[0], ast.Name) else None
    rets = [norm(n.value) for n in own_nodes(gl.node) if isinstance(n, ast.Return) and n.value is not None]
    ok = len(dis) == 1 and sv is not None and norm(dis[0].func.value) == sv and q.guards_imply(q.guards(dis[0]), f'not {en}') and len(q.guards(dis[0])) == 1 and rets == [sv]
    ctx.ob(gl, f'if not {en}: stream.disable_bandwidth_limiting(); return stream', ok, 'the flag must reach the stream that is returned')
    cl = ctx.cls('bandwidth.BandwidthLimitedStream')
    for meth, val in (('enable_bandwidth_limiting', True), ('disable_bandwidth_limiting', False)):
        m = cl.methods.get(meth)
        ctx.need(m is not None, f'BandwidthLimitedStream.{meth} vanished')
        sts = [n for n in own_nodes(m.node) if isinstance(n, ast.Assign) and dotted(n.targets[0]) == 'self._bandwidth_limiting_enabled']
        ctx.ob(m, f'self._bandwidth_limiting_enabled = {val}', len(sts) == 1 and isinstance(sts[0].value, ast.Constant) and sts[0].value.value is val and not q.guards(sts[0]), 'toggle broken')
    for meth, target in (('signal_transferring', 'enable_bandwidth_limiting'), ('signal_not_transferring', 'disable_bandwidth_limiting')):
        m = cl.methods.get(meth)
        ctx.need(m is not None, f'BandwidthLimitedStream.{meth} vanished')
        calls = [c for c in own_calls(m.node) if (dotted(c.func) or '') == f'self.{target}']
        direct = [n for n in own_nodes(m.node) if isinstance(n, ast.Assign) and dotted(n.targets[0]) == 'self._bandwidth_limiting_enabled'
                  and isinstance(n.value, ast.Constant) and n.value.value is (target.startswith('enable'))]
        ctx.ob(m, f'{meth} -> {target}', (len(calls) == 1 and not q.guards(calls[0])) or (len(direct) == 1 and not q.guards(direct[0])),
               'the transfer signal must switch the limiter (on while sending, off while preparing)')


def _nonfinite(e):
    """expression is float('inf') / float('nan') / math.inf / math.nan (either sign)"""
    for x in ast.walk(e):
        if isinstance(x, ast.Call) and norm(x.func) == 'float' and x.args and isinstance(x.args[0], ast.Constant) and isinstance(x.args[0].value, str) \
                and x.args[0].value.strip('+-').lower() in ('inf', 'infinity', 'nan'):
            return True
        if isinstance(x, ast.Attribute) and norm(x) in ('math.inf', 'math.nan', 'numpy.inf'):
            return True
    return False


@rule('C13.i', ['C13'], floor=1)
def no_infinite_rate_is_remembered(ctx):
    """The tracker's moving average is alpha*new + (1-alpha)*old: once it is infinite (or NaN)
    it is infinite for ever, every later consume() is projected to exceed the limit, and
    every read - however far below the limit - is delayed for the rest of the manager's
    life.  The projection may use an infinite sample rate ("no time has passed: treat as
    exceeding"), the *recorded* rate may not: on the fully expanded
    record_consumption_rate, no feasible path stores into self._current_rate a value
    computed from a non-finite constant.  Paths are enumerated with their branch
    conditions (locals unfolded, integer-linear atoms normalised), so a guard such as
    `if time_at_consumption <= self._last_time: return` in front of the update makes the
    `time_delta <= 0` branch of the sample-rate helper infeasible."""
    x = ctx.expanded()
    f = x.func('bandwidth.BandwidthRateTracker.record_consumption_rate')
    g = x.cfg(f)
    stores = [n for n in own_nodes(f.node) if isinstance(n, ast.Assign) and any(dotted(t) == 'self._current_rate' for t in n.targets)]
    ctx.need(stores, 'record_consumption_rate no longer stores self._current_rate')
    import copy
    n_paths = 0
    for st in stores:
        res = g.path_conditions([g.entry], g.nodes_of(st), labels=g.NORMAL, with_nodes=True)
        ctx.need(res is not None, 'too many paths in record_consumption_rate')
        bad = []
        for conds, nodes in res:
            n_paths += 1
            env = {}

            def subst(e):
                class T(ast.NodeTransformer):
                    def visit_Name(self, node):
                        if isinstance(node.ctx, ast.Load) and node.id in env:
                            return copy.deepcopy(env[node.id])
                        return node
                return T().visit(copy.deepcopy(e))
            conds_u = []
            ci = 0
            # walk the path: unfold locals into the branch tests at the point where they are evaluated
            tests = {id(e): None for e, _ in conds}
            for nd in nodes:
                if nd.kind in ('if', 'while') and nd.ast is not None and id(nd.ast) in tests and ci < len(conds) and conds[ci][0] is nd.ast:
                    conds_u.append((subst(conds[ci][0]), conds[ci][1]))
                    ci += 1
                sa = nd.ast if nd.kind == 'stmt' else None
                if isinstance(sa, ast.Assign) and len(sa.targets) == 1 and isinstance(sa.targets[0], ast.Name):
                    env[sa.targets[0].id] = subst(sa.value)
                elif isinstance(sa, ast.AugAssign) and isinstance(sa.target, ast.Name):
                    env.pop(sa.target.id, None)
            while ci < len(conds):
                conds_u.append((subst(conds[ci][0]), conds[ci][1]))
                ci += 1
            val = subst(st.value)
            if not _nonfinite(val):
                continue
            feasible = not q.guards_imply(conds_u, '__no_such_atom__')
            if feasible:
                bad.append(' and '.join(('' if p else 'not ') + f'({norm(e)})' for e, p in conds_u) or 'always')
        ctx.ob(f.qualname, f'{norm(st.targets[0])} never receives a value computed from a non-finite constant', not bad,
               f'when {bad[:2]} the recorded rate becomes infinite and never decays (alpha*x + (1-alpha)*inf = inf): every later read is throttled, '
               'traffic far below the limit included', node=st)
    ctx.extra['C13.i paths'] = n_paths
