"""C08 - subscriber callbacks: exactly once, in order, after the work."""
import ast

from ..engine import rule
from ..ir import dotted, kwarg, norm, own_calls, own_nodes, short
from .. import q

COORD = 'futures.TransferCoordinator'


def _get_callbacks_calls(ctx, kind):
    out = []
    for f, c, r in q.call_index(ctx):
        if r.kind == 'package' and any(t.qualname == 'utils.get_callbacks' for t in r.targets):
            if len(c.args) >= 2 and isinstance(c.args[1], ast.Constant) and c.args[1].value == kind:
                out.append((f, c))
    return out


@rule('C08.a', ['C08'], floor=4)
def on_queued_placement(ctx):
    """get_callbacks(., 'queued') is used only by SubmissionTask._main (manager path); the
    loop invoking them lies after set_status_to_queued(), before
    set_status_to_running() and before _submit() on every path."""
    sites = [(f, c) for f, c in _get_callbacks_calls(ctx, 'queued') if f.module.name != 'crt']
    ctx.need(sites, "no get_callbacks(..., 'queued') site found")
    for f, c in sites:
        ctx.ob(f, c, f.qualname == 'tasks.SubmissionTask._main', 'on_queued callbacks may only be fetched/run by the submission task')
    f = ctx.func('tasks.SubmissionTask._main')
    g = ctx.cfg(f)
    def N(name):
        return [n for c in own_calls(f.node) if (dotted(c.func) or '').split('.')[-1] == name for n in g.nodes_of(c)]
    from .c03 import on_queued_calls
    oq = on_queued_calls(ctx, f)
    queued, running, submit, cb = N('set_status_to_queued'), N('set_status_to_running'), N('_submit'), [n for c in oq for n in g.nodes_of(c)]
    loops = [n for n in g.nodes if n.kind == 'for' and any(x.stmt is not None and x in cb for x in cb) and any(a is n.stmt for x in cb for a in _anc(x.ast))]
    ctx.ob(f, 'on_queued loop after set_status_to_queued()', bool(queued and cb) and g.all_dominate(queued, cb, g.NORMAL),
           'on_queued must not run for a transfer that was cancelled before starting (the transition raises)')
    ctx.ob(f, 'on_queued loop before set_status_to_running()', bool(loops and running) and g.all_dominate(loops, running, g.NORMAL)
           and not (g.reach(running, labels=g.NORMAL) & set(cb)), 'all on_queued callbacks run before the transfer is marked running')
    ctx.ob(f, '_submit() after the on_queued loop and set_status_to_running()', bool(running and submit and loops)
           and g.all_dominate(running, submit, g.NORMAL) and g.all_dominate(loops, submit, g.NORMAL) and not (g.reach(submit, labels=g.NORMAL) & set(cb)),
           'no request may be issued before every on_queued ran (a size supplied there suppresses discovery)')
    ctx.ob(f, 'on_queued callbacks are invoked', bool(oq), 'on_queued subscribers never run')
    for c in oq:
        loop = q.in_loop(c)
        ok = isinstance(loop, ast.For) and not q.guards(c)
        src = isinstance(loop, ast.For) and q.derives_from(f, loop.iter, lambda n: isinstance(n, ast.Call) and (dotted(n.func) or '').endswith('get_callbacks'))
        ctx.ob(f, c, ok and src, 'each on_queued callback is invoked exactly once, unconditionally, over the get_callbacks list')


def _anc(n):
    from ..ir import ancestors
    return ancestors(n)


@rule('C08.b', ['C08', 'C18'], floor=3)
def on_done_registered_before_submission(ctx):
    """In TransferManager._submit_transfer the on_done callbacks and the tracker's
    removal callback are registered on the coordinator before the submission task is
    handed to the executor; the coordinator is tracked before that too."""
    f = ctx.func('manager.TransferManager._submit_transfer')
    g = ctx.cfg(f)
    subs = [s for s in q.submits(ctx) if s.func is f]
    ctx.need(subs, '_submit_transfer no longer submits to an executor')
    subn = [n for s in subs for n in g.nodes_of(s.call)]
    done = [c for ff, c in _get_callbacks_calls(ctx, 'done') if ff is f]
    ctx.ob(f, "get_callbacks(transfer_future, 'done') registered via add_done_callback", bool(done), 'on_done subscribers are never registered')
    for c in done:
        loop = None
        for lp in own_nodes(f.node):
            if isinstance(lp, ast.For) and q.derives_from(f, lp.iter, lambda n: n is c):
                loop = lp
        adds = [x for x in (ast.walk(loop) if loop is not None else []) if isinstance(x, ast.Call) and isinstance(x.func, ast.Attribute) and x.func.attr == 'add_done_callback']
        ok = loop is not None and bool(adds) and not any(q.guards(a) for a in adds)
        ln = [n for n in g.nodes if n.stmt is loop and n.kind == 'for'] if loop is not None else []
        ctx.ob(f, c, ok and bool(ln) and g.all_dominate(ln, subn, g.NORMAL),
               'every on_done subscriber must be registered (unconditionally) before the transfer can start and finish')
    comps = [c for c in own_calls(f.node) if (dotted(c.func) or '').endswith('_get_future_with_components')]
    ctx.ob(f, '_get_future_with_components() before submit', bool(comps) and g.all_dominate([n for c in comps for n in g.nodes_of(c)], subn, g.NORMAL),
           'the coordinator must exist and be tracked before submission')
    f2 = ctx.func('manager.TransferManager._get_future_with_components')
    g2 = ctx.cfg(f2)
    add = [c for c, r in q.calls_in(ctx, f2) if r.kind == 'package' and any(t.qualname == 'manager.TransferCoordinatorController.add_transfer_coordinator' for t in r.targets)]
    rem = [c for c, r in q.calls_in(ctx, f2) if r.kind == 'package' and any(t.qualname == f'{COORD}.add_done_callback' for t in r.targets)
           and c.args and norm(c.args[0]).endswith('remove_transfer_coordinator')]
    ctx.ob(f2, 'add_transfer_coordinator(coordinator)', bool(add) and g2.must_pass([g2.entry], [n for c in add for n in g2.nodes_of(c)], [g2.exit], g2.NORMAL),
           'every transfer must be tracked so that shutdown/cancel reach it')
    same = bool(add and rem) and add[0].args and len(rem[0].args) >= 2 and norm(add[0].args[0]) == norm(rem[0].args[1])
    ctx.ob(f2, 'add_done_callback(remove_transfer_coordinator, coordinator)', bool(rem) and same
           and g2.must_pass([g2.entry], [n for c in rem for n in g2.nodes_of(c)], [g2.exit], g2.NORMAL),
           'the tracked coordinator must be untracked when (and only when) it is done')


@rule('C08.c', ['C08', 'C05'], floor=3)
def run_once_isolated(ctx):
    """_run_done_callbacks / _run_failure_cleanups run the list and rebind it to []
    inside one lock region (exactly once even if done is announced twice);
    _run_callback isolates each callback in try/except Exception without re-raise."""
    for name, lock, attr in (('_run_done_callbacks', 'self._done_callbacks_lock', '_done_callbacks'),
                             ('_run_failure_cleanups', 'self._failure_cleanups_lock', '_failure_cleanups')):
        f = ctx.func(f'{COORD}.{name}')
        runs = [c for c in own_calls(f.node) if (dotted(c.func) or '').endswith('_run_callbacks')]
        clears = [n for n in own_nodes(f.node) if isinstance(n, ast.Assign) and dotted(n.targets[0]) == f'self.{attr}'
                  and isinstance(n.value, ast.List) and not n.value.elts]
        ok = bool(runs and clears)
        for c in runs:
            ok = ok and lock in q.locks_held(c) and c.args and attr.lstrip('_') in norm(c.args[0])
        for n in clears:
            ok = ok and lock in q.locks_held(n)
        if ok:
            from .c17 import _lock_region
            ok = _lock_region(runs[0]) is _lock_region(clears[0])
            g = ctx.cfg(f)
            ok = ok and g.all_dominate([n for c in runs for n in g.nodes_of(c)], [n for x in clears for n in g.nodes_of(x)], g.NORMAL)
        ctx.ob(f, f'run {attr} then rebind to [] under {lock}', ok,
               'the callbacks must be run and cleared atomically, otherwise two announcers run them twice (or never)')
        # registration side uses the same lock
        reg = ctx.func(f'{COORD}.add_done_callback' if attr == '_done_callbacks' else f'{COORD}.add_failure_cleanup')
        apps = [c for c in own_calls(reg.node) if (dotted(c.func) or '') == f'self.{attr}.append']
        ctx.ob(reg, f'self.{attr}.append under {lock}', bool(apps) and all(lock in q.locks_held(c) for c in apps),
               'registration must be serialised with the run-and-clear')
    f = ctx.func(f'{COORD}._run_callback')
    opens = [c for c, r in q.calls_in(ctx, f) if r.kind == 'open']
    ctx.need(opens, '_run_callback no longer invokes the callback')
    for c in opens:
        fr = q.enclosing_trys(c)
        ok = False
        for t, field in fr:
            if field == 'body':
                for h in t.handlers:
                    if h.type is not None and norm(h.type) in ('Exception', 'BaseException') and not any(isinstance(n, ast.Raise) for n in ast.walk(h)):
                        ok = True
        ctx.ob(f, c, ok, 'an exception in one callback must not prevent the others (or the rest of announce_done)')
    f = ctx.func(f'{COORD}._run_callbacks')
    loops = [n for n in own_nodes(f.node) if isinstance(n, ast.For)]
    ok = len(loops) == 1 and norm(loops[0].iter) == f.params[1] and any((dotted(c.func) or '').endswith('_run_callback') for c in own_calls(f.node)) \
        and not any(isinstance(n, (ast.Break, ast.Return)) for n in own_nodes(f.node))
    ctx.ob(f, 'for callback in callbacks: self._run_callback(callback)', ok, 'every registered callback runs, in registration order')


@rule('C08.d', ['C08', 'C05', 'C04'], floor=3)
def who_may_announce(ctx):
    """announce_done is called only by Task.__call__ (finally, under _is_final),
    SubmissionTask._main (error handler, after the wait) and TransferCoordinator.cancel
    (only when the transfer had not started)."""
    allowed = {'tasks.Task.__call__', 'tasks.SubmissionTask._main', f'{COORD}.cancel'}
    callers = q.callers_of(ctx, f'{COORD}.announce_done')
    seen = set()
    for cf, c, r in callers:
        seen.add(cf.qualname)
        ok = cf.qualname in allowed
        detail = 'only the final task, the submission error path and cancel-before-start may announce done'
        if cf.qualname == f'{COORD}.cancel':
            gs = q.guards(c)
            names = set()
            for e, pol in gs:
                names |= q.names_in(e)
            ok = ok and bool(gs) and any(
                any(isinstance(v, ast.Constant) and v.value is True and q.guards_imply(q.guards(st), "self._status == 'not-started'")
                    for st, v in q.local_defs(cf, nm) if isinstance(v, ast.AST)) and
                all((isinstance(v, ast.Constant) and v.value is False) or q.guards_imply(q.guards(st), "self._status == 'not-started'")
                    for st, v in q.local_defs(cf, nm) if isinstance(v, ast.AST))
                for nm in names) or (ok and q.guards_imply(gs, "self._status == 'not-started'"))
            detail = 'cancel may announce done only if the transfer had not started (otherwise the final task / error path announces after the work)'
        elif cf.qualname == 'tasks.SubmissionTask._main':
            ok = ok and q.in_handler(c) is not None
            detail = 'the submission task announces done only from its error handler'
        ctx.ob(cf, c, ok, detail)
    for a in allowed:
        ctx.ob(a, 'calls announce_done', a in seen, f'{a} no longer announces done: some outcome never runs on_done / unblocks result()')


@rule('C08.e', ['C08'], floor=3)
def supplied_size_suppresses_discovery(ctx):
    """Every size-discovery action in a _submit (head_object, provide_transfer_size via
    the input manager) is control dependent on transfer_future.meta.size is None."""
    n = 0
    base = ctx.cls('tasks.SubmissionTask')
    for c in base.all_subclasses():
        for m in c.methods.values():
            for call, r in q.calls_in(ctx, m):
                is_head = r.kind == 'client' and r.ext == 'head_object'
                is_provide = r.kind == 'package' and any(t.name == 'provide_transfer_size' and t.cls is not None and t.cls.qualname.startswith('upload.') for t in r.targets)
                if is_head or is_provide:
                    n += 1
                    ok = q.guards_imply(q.guards(call), 'transfer_future.meta.size is None')
                    ctx.ob(m, call, ok, f'size discovery must be skipped when the size is already known (guards={q.guard_texts(call)})')
    ctx.need(n >= 3, f'only {n} size-discovery sites found')
