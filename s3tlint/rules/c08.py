"""C08 - subscriber callbacks: exactly once, in order, after the work."""
import ast

from ..engine import rule
from ..ir import dotted, kwarg, norm, own_calls, own_nodes, short
from .. import q

COORD = 'futures.TransferCoordinator'


def _get_callbacks_calls(ctx, kind):
    out = []
    for f, c, r in q.call_index(ctx):
        if r.kind == 'package' and any(t.qualname == 'utils.get_callbacks' for t in r.targets):
            if len(c.args) >= 2 and isinstance(c.args[1], ast.Constant) and c.args[1].value == kind:
                out.append((f, c))
    return out


@rule('C08.a', ['C08'], floor=4)
def on_queued_placement(ctx):
    """get_callbacks(., 'queued') is used only by SubmissionTask._main (manager path); the
    loop invoking them lies after set_status_to_queued(), before
    set_status_to_running() and before _submit() on every path."""
    sites = [(f, c) for f, c in _get_callbacks_calls(ctx, 'queued') if f.module.name != 'crt']
    ctx.need(sites, "no get_callbacks(..., 'queued') site found")
    for f, c in sites:
        ctx.ob(f, c, f.qualname == 'tasks.SubmissionTask._main', 'on_queued callbacks may only be fetched/run by the submission task')
    f = ctx.func('tasks.SubmissionTask._main')
    g = ctx.cfg(f)
    def N(name):
        return [n for c in own_calls(f.node) if (dotted(c.func) or '').split('.')[-1] == name for n in g.nodes_of(c)]
    from .c03 import on_queued_calls
    oq = on_queued_calls(ctx, f)
    queued, running, submit, cb = N('set_status_to_queued'), N('set_status_to_running'), N('_submit'), [n for c in oq for n in g.nodes_of(c)]
    loops = [n for n in g.nodes if n.kind == 'for' and any(x.stmt is not None and x in cb for x in cb) and any(a is n.stmt for x in cb for a in _anc(x.ast))]
    ctx.ob(f, 'on_queued loop after set_status_to_queued()', bool(queued and cb) and g.all_dominate(queued, cb, g.NORMAL),
           'on_queued must not run for a transfer that was cancelled before starting (the transition raises)')
    ctx.ob(f, 'on_queued loop before set_status_to_running()', bool(loops and running) and g.all_dominate(loops, running, g.NORMAL)
           and not (g.reach(running, labels=g.NORMAL) & set(cb)), 'all on_queued callbacks run before the transfer is marked running')
    ctx.ob(f, '_submit() after the on_queued loop and set_status_to_running()', bool(running and submit and loops)
           and g.all_dominate(running, submit, g.NORMAL) and g.all_dominate(loops, submit, g.NORMAL) and not (g.reach(submit, labels=g.NORMAL) & set(cb)),
           'no request may be issued before every on_queued ran (a size supplied there suppresses discovery)')
    ctx.ob(f, 'on_queued callbacks are invoked', bool(oq), 'on_queued subscribers never run')
    for c in oq:
        loop = q.in_loop(c)
        ok = isinstance(loop, ast.For) and not q.guards(c)
        src = isinstance(loop, ast.For) and q.derives_from(f, loop.iter, lambda n: isinstance(n, ast.Call) and (dotted(n.func) or '').endswith('get_callbacks'))
        ctx.ob(f, c, ok and src, 'each on_queued callback is invoked exactly once, unconditionally, over the get_callbacks list')


def _anc(n):
    from ..ir import ancestors
    return ancestors(n)


@rule('C08.b', ['C08', 'C18'], floor=3)
def on_done_registered_before_submission(ctx):
    """In TransferManager._submit_transfer the on_done callbacks and the tracker's
    removal callback are registered on the coordinator before the submission task is
    handed to the executor; the coordinator is tracked before that too."""
    f = ctx.func('manager.TransferManager._submit_transfer')
    g = ctx.cfg(f)
    subs = [s for s in q.submits(ctx) if s.func is f]
    ctx.need(subs, '_submit_transfer no longer submits to an executor')
    subn = [n for s in subs for n in g.nodes_of(s.call)]
    done = [c for ff, c in _get_callbacks_calls(ctx, 'done') if ff is f]
    ctx.ob(f, "get_callbacks(transfer_future, 'done') registered via add_done_callback", bool(done), 'on_done subscribers are never registered')
    for c in done:
        loop = None
        for lp in own_nodes(f.node):
            if isinstance(lp, ast.For) and q.derives_from(f, lp.iter, lambda n: n is c):
                loop = lp
        adds = [x for x in (ast.walk(loop) if loop is not None else []) if isinstance(x, ast.Call) and isinstance(x.func, ast.Attribute) and x.func.attr == 'add_done_callback']
        ok = loop is not None and bool(adds) and not any(q.guards(a) for a in adds)
        ln = [n for n in g.nodes if n.stmt is loop and n.kind == 'for'] if loop is not None else []
        ctx.ob(f, c, ok and bool(ln) and g.all_dominate(ln, subn, g.NORMAL),
               'every on_done subscriber must be registered (unconditionally) before the transfer can start and finish')
    comps = [c for c in own_calls(f.node) if (dotted(c.func) or '').endswith('_get_future_with_components')]
    ctx.ob(f, '_get_future_with_components() before submit', bool(comps) and g.all_dominate([n for c in comps for n in g.nodes_of(c)], subn, g.NORMAL),
           'the coordinator must exist and be tracked before submission')
    f2 = ctx.func('manager.TransferManager._get_future_with_components')
    g2 = ctx.cfg(f2)
    add = [c for c, r in q.calls_in(ctx, f2) if r.kind == 'package' and any(t.qualname == 'manager.TransferCoordinatorController.add_transfer_coordinator' for t in r.targets)]
    rem = [c for c, r in q.calls_in(ctx, f2) if r.kind == 'package' and any(t.qualname == f'{COORD}.add_done_callback' for t in r.targets)
           and c.args and norm(c.args[0]).endswith('remove_transfer_coordinator')]
    ctx.ob(f2, 'add_transfer_coordinator(coordinator)', bool(add) and g2.must_pass([g2.entry], [n for c in add for n in g2.nodes_of(c)], [g2.exit], g2.NORMAL),
           'every transfer must be tracked so that shutdown/cancel reach it')
    same = bool(add and rem) and add[0].args and len(rem[0].args) >= 2 and norm(add[0].args[0]) == norm(rem[0].args[1])
    ctx.ob(f2, 'add_done_callback(remove_transfer_coordinator, coordinator)', bool(rem) and same
           and g2.must_pass([g2.entry], [n for c in rem for n in g2.nodes_of(c)], [g2.exit], g2.NORMAL),
           'the tracked coordinator must be untracked when (and only when) it is done')


def _isolated(call, within=None):
    """call sits in a try body whose handler catches Exception/BaseException and does not re-raise; the try lies inside
    ``within`` (the loop over the callbacks: a try around the whole loop ends the loop at the first failing callback)"""
    for t, field in q.enclosing_trys(call):
        if within is not None and not any(t is x for x in ast.walk(within)):
            continue
        if field == 'body':
            for h in t.handlers:
                if h.type is not None and norm(h.type) in ('Exception', 'BaseException') and not any(isinstance(n, ast.Raise) for n in ast.walk(h)):
                    return True
    return False


def _invokes_isolated(ctx, f, loop, var, depth=0):
    """Every iteration invokes ``var`` exactly at one site, isolated by try/except Exception -
    directly, or through a package helper that does so with the parameter it receives."""
    sites = []
    for c in ast.walk(loop):
        if not isinstance(c, ast.Call):
            continue
        if isinstance(c.func, ast.Name) and c.func.id == var:
            sites.append(_isolated(c, loop if isinstance(loop, (ast.For, ast.While)) else None))
        elif any(isinstance(a, ast.Name) and a.id == var for a in c.args) and depth < 3:
            r = ctx.r.resolve(c, f, _count=False)
            if r.kind == 'package' and len(r.targets) == 1:
                t = r.targets[0]
                b = q.bind_args(ctx, c, f, t) or {}
                pn = [k for k, v in b.items() if isinstance(v, ast.Name) and v.id == var]
                if pn:
                    sites.append(_invokes_isolated(ctx, t, t.node, pn[0], depth + 1))
    return len(sites) == 1 and sites[0]


@rule('C08.c', ['C08', 'C05', 'C07', 'C06'], floor=3)
def run_once_isolated(ctx):
    """_run_done_callbacks / _run_failure_cleanups (fully expanded view: helpers inlined) loop
    over the whole list, invoke each callback inside try/except Exception without re-raise,
    never leave the loop early, and rebind the list to [] after the loop inside the same
    lock region (exactly once even if done is announced twice); registration appends under
    the same lock."""
    x = ctx.expanded()
    from .c17 import _lock_region
    for name, lock, attr in (('_run_done_callbacks', 'self._done_callbacks_lock', '_done_callbacks'),
                             ('_run_failure_cleanups', 'self._failure_cleanups_lock', '_failure_cleanups')):
        f = x.func(f'{COORD}.{name}')
        loops = [n for n in own_nodes(f.node) if isinstance(n, ast.For) and attr.lstrip('_') in norm(n.iter) and norm(n.iter).startswith('self.')]
        clears = [n for n in own_nodes(f.node) if isinstance(n, ast.Assign) and dotted(n.targets[0]) == f'self.{attr}'
                  and isinstance(n.value, ast.List) and not n.value.elts]
        ok = len(loops) == 1 and bool(clears)
        why = 'the callbacks must be run and cleared atomically, otherwise two announcers run them twice (or never)'
        if ok:
            lp = loops[0]
            ok = lock in q.locks_held(lp) and all(lock in q.locks_held(n) and _lock_region(n) is _lock_region(lp) for n in clears)
            g = x.cfg(f)
            ok = ok and g.all_dominate(g.nodes_of(lp), [n for c in clears for n in g.nodes_of(c)], g.NORMAL)
        ctx.ob(f.qualname, f'run {attr} then rebind to [] under {lock}', ok, why, node=f.node)
        if len(loops) == 1:
            lp = loops[0]
            def _tail_continue(n):
                # `continue` as the last statement of the loop body, or of a handler / branch that is itself last: the iteration was over anyway
                node = n
                while node is not lp:
                    par = node._parent
                    blocks = [getattr(par, fld, None) for fld in ('body', 'orelse', 'finalbody')] + ([par.handlers] if isinstance(par, ast.Try) else [])
                    if isinstance(par, ast.ExceptHandler):
                        blocks = [par.body]
                    if not any(isinstance(b, list) and b and b[-1] is node for b in blocks):
                        return False
                    if isinstance(par, ast.Try) and node in par.body and (par.orelse or par.finalbody):
                        return False
                    node = par
                return True
            early = [n for n in ast.walk(lp) if isinstance(n, (ast.Break, ast.Return)) or (isinstance(n, ast.Continue) and not _tail_continue(n))]
            ctx.ob(f.qualname, f'every element of {attr} is run: no break/return/continue in the loop', not early and isinstance(lp.target, ast.Name),
                   'every registered callback runs, in registration order', node=lp)
            if isinstance(lp.target, ast.Name):
                ctx.ob(f.qualname, f'each {attr} element is invoked once inside try/except Exception (no re-raise)',
                       _invokes_isolated(x, f, lp, lp.target.id),
                       'an exception in one callback must not prevent the others (or the rest of announce_done)', node=lp)
        # registration side uses the same lock
        reg = ctx.func(f'{COORD}.add_done_callback' if attr == '_done_callbacks' else f'{COORD}.add_failure_cleanup')
        apps = [c for c in own_calls(reg.node) if (dotted(c.func) or '') == f'self.{attr}.append']
        ctx.ob(reg, f'self.{attr}.append under {lock}', bool(apps) and all(lock in q.locks_held(c) for c in apps),
               'registration must be serialised with the run-and-clear')


@rule('C08.d', ['C08', 'C05', 'C04'], floor=3)
def who_may_announce(ctx):
    """announce_done is called only by Task.__call__ (finally, under _is_final),
    SubmissionTask._main (error handler, after the wait) and TransferCoordinator.cancel
    (only when the transfer had not started)."""
    allowed = {'tasks.Task.__call__', 'tasks.SubmissionTask._main', f'{COORD}.cancel'}
    callers = q.callers_of(ctx, f'{COORD}.announce_done')
    seen = set()
    for cf, c, r in callers:
        seen.add(cf.qualname)
        ok = cf.qualname in allowed
        detail = 'only the final task, the submission error path and cancel-before-start may announce done'
        if cf.qualname == f'{COORD}.cancel':
            gs = q.guards(c)
            target = "self._status == 'not-started'"
            ok = ok and bool(gs) and (q.guards_imply(gs, target) or any(
                pol and isinstance(e, ast.Name) and q.flag_true_implies(cf, e.id, target) for e, pol in gs))
            detail = 'cancel may announce done only if the transfer had not started (otherwise the final task / error path announces after the work)'
            # check-then-act: the status test deciding the announcement is made under the state lock,
            # in the very lock region that stores 'cancelled'
            from .c17 import _lock_region
            tests = [n for n in own_nodes(cf.node) if isinstance(n, ast.Compare) and "'not-started'" in norm(n) and '_status' in norm(n)]
            stores = [n for n in own_nodes(cf.node) if isinstance(n, ast.Assign) and any(dotted(t) == 'self._status' for t in n.targets)]
            atomic = bool(tests) and bool(stores) and all('self._lock' in q.locks_held(t) and _lock_region(t) is _lock_region(stores[0]) for t in tests)
            ctx.ob(cf, "the `_status == 'not-started'` test is made inside the lock region that stores 'cancelled'", atomic,
                   'a status read before taking the lock can be stale: the submission task may have started (and will announce itself) - done is announced twice / before the work returned')
        elif cf.qualname == 'tasks.SubmissionTask._main':
            ok = ok and q.in_handler(c) is not None
            detail = 'the submission task announces done only from its error handler'
        ctx.ob(cf, c, ok, detail)
    for a in allowed:
        ctx.ob(a, 'calls announce_done', a in seen, f'{a} no longer announces done: some outcome never runs on_done / unblocks result()')


@rule('C08.e', ['C08'], floor=3)
def supplied_size_suppresses_discovery(ctx):
    """Every size-discovery action in a _submit (head_object, provide_transfer_size via
    the input manager) is control dependent on transfer_future.meta.size is None."""
    n = 0
    base = ctx.cls('tasks.SubmissionTask')
    for c in base.all_subclasses():
        for m in c.methods.values():
            for call, r in q.calls_in(ctx, m):
                is_head = r.kind == 'client' and r.ext == 'head_object'
                is_provide = r.kind == 'package' and any(t.name == 'provide_transfer_size' and t.cls is not None and t.cls.qualname.startswith('upload.') for t in r.targets)
                if is_head or is_provide:
                    n += 1
                    ok = q.guards_imply(q.guards(call), 'transfer_future.meta.size is None')
                    ctx.ob(m, call, ok, f'size discovery must be skipped when the size is already known (guards={q.guard_texts(call)})')
    ctx.need(n >= 3, f'only {n} size-discovery sites found')
