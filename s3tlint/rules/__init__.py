import importlib
import os
import pkgutil


def load_all():
    here = os.path.dirname(__file__)
    for m in sorted(pkgutil.iter_modules([here]), key=lambda x: x.name):
        importlib.import_module(f'{__name__}.{m.name}')
