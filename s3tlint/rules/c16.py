"""C16 - streaming destinations are written strictly in order, each byte once.
C02 - downloads deliver exactly the object bytes, also across stream retries."""
import ast

from ..engine import rule
from ..ir import AnalysisError, ClassInfo, ancestors, dotted, enclosing_func, kwarg, norm, own_calls, own_nodes, short
from .. import q
from .c03 import retry_loops

DQ = 'download.DeferQueue'
HIER = 'download.DownloadOutputManager'


# ---------------------------------------------------------------------------
# a/ offset-oblivious writers only behind the de-dup gate
# ---------------------------------------------------------------------------

def offset_oblivious_tasks(ctx):
    """Task classes whose _main writes to fileobj on a path with no preceding seek."""
    out = []
    base = ctx.cls('tasks.Task')
    for cl in base.all_subclasses():
        m = cl.methods.get('_main')
        if m is None:
            continue
        writes = [c for c in own_calls(m.node) if isinstance(c.func, ast.Attribute) and c.func.attr == 'write' and isinstance(c.func.value, ast.Name) and c.func.value.id in m.params]
        if not writes:
            continue
        g = ctx.cfg(m)
        seeks = [n for c in own_calls(m.node) if isinstance(c.func, ast.Attribute) and c.func.attr == 'seek'
                 and c.args and isinstance(c.args[0], ast.Name) and c.args[0].id in m.params for n in g.nodes_of(c)]
        wn = [n for c in writes for n in g.nodes_of(c)]
        if not seeks or not g.all_dominate(seeks, wn, g.NORMAL):
            out.append(cl)
    return out


def _data_param(m):
    for cand in ('data', 'chunk'):
        if cand in m.params:
            return cand
    return None


def _is_gated(ctx, func, expr):
    return q.derives_from(func, expr, lambda n: isinstance(n, ast.Call) and isinstance(n.func, ast.Attribute) and n.func.attr == 'request_writes')


def _walk(ctx, R, M, status, F, path, out, depth=0):
    """Follow the data parameter of method M (receiver class R) to constructors in F."""
    if depth > 6:
        return
    if M in F:
        out.append((status, path))
        return
    dp = _data_param(M)
    for c in own_calls(M.node):
        if not isinstance(c.func, ast.Attribute):
            continue
        recv = c.func.value
        name = c.func.attr
        if isinstance(recv, ast.Name) and recv.id == 'self':
            T = R.lookup(name)
        elif isinstance(recv, ast.Call) and isinstance(recv.func, ast.Name) and recv.func.id == 'super':
            T = None
            mro = R.mro()
            if M.cls in mro:
                for k in mro[mro.index(M.cls) + 1:]:
                    if name in k.methods:
                        T = k.methods[name]
                        break
        else:
            continue
        if T is None or T.cls is None or not T.cls.is_subclass_of(ctx.cls(HIER)):
            continue
        tdp = _data_param(T)
        if tdp is None:
            continue
        b = q.bind_args(ctx, c, M, T) or {}
        E = b.get(tdp)
        if E is None or isinstance(E, list):
            continue
        if _is_gated(ctx, M, E):
            st = 'gated'
        elif dp is not None and dp in q.names_in(E):
            st = status
        else:
            st = 'raw'
        _walk(ctx, R, T, st, F, path + [f'{M.qualname}: {short(c, 60)}'], out, depth + 1)


@rule('C16.a', ['C16', 'C02'], floor=3)
def streaming_writes_only_behind_dedup(ctx):
    """W = task classes whose _main writes without seeking to an offset; F = output-
    manager methods constructing a W task.  For every concrete manager class R whose
    get_io_write_task is in F and every external call that hands data to R, the data
    reaching F derives from an element of DeferQueue.request_writes(...) (every
    producer restarts its range from the first byte on retry, so un-gated data is
    written twice)."""
    W = offset_oblivious_tasks(ctx)
    ctx.need(W, 'no offset-oblivious write task found (IOStreamingWriteTask vanished?)')
    base = ctx.cls(HIER)
    F = []
    for cl in [base] + base.all_subclasses():
        for m in cl.methods.values():
            for n in own_nodes(m.node):
                if isinstance(n, ast.Return) and n.value is not None:
                    for tc, ctor, _ in q.task_ctors_of(ctx, n.value, m):
                        if tc in W and m not in F and ctor is not None and enclosing_func(ctor) is m:
                            F.append(m)
    ctx.need(F, 'no constructor site of an offset-oblivious task found')
    ctx.extra['offset_oblivious_tasks'] = [c.qualname for c in W]
    ctx.extra['streaming_task_factories'] = [m.qualname for m in F]
    concrete = [cl for cl in [base] + base.all_subclasses() if any(cl.lookup(m.name) is m for m in F)]
    # external entry calls: receiver typed as the hierarchy, not self/super
    n = 0
    for f, c, r in q.call_index(ctx):
        if r.kind != 'package' or not isinstance(c.func, ast.Attribute):
            continue
        recv = c.func.value
        if isinstance(recv, ast.Name) and recv.id == 'self':
            continue
        if isinstance(recv, ast.Call):
            continue
        ts = [t for t in r.targets if t.cls is not None and t.cls.is_subclass_of(base) and _data_param(t)]
        if not ts:
            continue
        for R in concrete:
            M = R.lookup(c.func.attr)
            if M is None or _data_param(M) is None:
                continue
            b = q.bind_args(ctx, c, f, M) or {}
            E = b.get(_data_param(M))
            st = 'gated' if (E is not None and not isinstance(E, list) and _is_gated(ctx, f, E)) else 'raw'
            res = []
            _walk(ctx, R, M, st, F, [f'{f.qualname}: {short(c, 60)}'], res)
            for status, path in res:
                n += 1
                ctx.ob(f, f'{short(c, 70)}  [receiver {R.name}]', status == 'gated',
                       'data reaches a write task that ignores the offset without passing the de-duplicating DeferQueue: a stream retry '
                       'writes the already delivered bytes again: ' + ' -> '.join(path))
    ctx.need(n >= 2, f'only {n} flows into streaming write tasks found')
    # who constructs W tasks at all
    for s_f, c, r in q.call_index(ctx):
        if r.kind == 'package' and r.recv and any(isinstance(t, ClassInfo) and t in W for t in r.recv) and any(t.name == '__init__' for t in r.targets):
            ctx.ob(s_f, c, s_f in F and s_f.name == 'get_io_write_task', 'offset-oblivious write tasks may only be built by the streaming managers\' get_io_write_task')


# ---------------------------------------------------------------------------
# b/ discard decisions must depend on the extent
# ---------------------------------------------------------------------------

def _store_nodes(g, f, data_names):
    out = []
    for n in g.nodes:
        if n.ast is None or n.kind != 'stmt':
            continue
        for c in ast.walk(n.ast):
            if isinstance(c, ast.Call) and isinstance(c.func, (ast.Attribute, ast.Name)):
                nm = c.func.attr if isinstance(c.func, ast.Attribute) else c.func.id
                if nm in ('heappush', 'append', 'add', 'put', 'insert', 'appendleft') and any(q.names_in(a) & data_names for a in c.args):
                    out.append(n)
            if isinstance(c, ast.Assign) and any(isinstance(t, ast.Subscript) and (dotted(t.value) or '').startswith('self.') for t in c.targets) \
                    and (q.names_in(c.value) & data_names):
                pass
    return out


def _len_dependent_names(f, data_names):
    """Names whose value is computed from len(<data>)."""
    def has_len(e):
        return any(isinstance(x, ast.Call) and isinstance(x.func, ast.Name) and x.func.id == 'len' and x.args and (q.names_in(x.args[0]) & data_names)
                   for x in ast.walk(e))
    deps = set()
    changed = True
    while changed:
        changed = False
        for n in own_nodes(f.node):
            if isinstance(n, ast.Assign) and len(n.targets) == 1 and isinstance(n.targets[0], ast.Name):
                nm = n.targets[0].id
                if nm not in deps and (has_len(n.value) or (q.names_in(n.value) & deps)):
                    deps.add(nm)
                    changed = True
    return deps, has_len


@rule('C16.b', ['C16', 'C02'], floor=2)
def discard_depends_on_extent(ctx):
    """In DeferQueue.request_writes, every path that returns without the incoming data
    (or a slice of it) having been stored in the queue must pass a branch whose
    condition is data-dependent on len(data): a decision that looks only at the start
    offset gives the same answer for a chunk ending inside the written prefix and one
    extending beyond it, so it must drop unwritten bytes or rewrite written ones."""
    f = ctx.func(f'{DQ}.request_writes')
    g = ctx.cfg(f)
    data = f.params[2] if len(f.params) > 2 else 'data'
    data_names = {data}
    stores = _store_nodes(g, f, data_names)
    ctx.need(stores, 'request_writes no longer stores the incoming data anywhere')
    deps, has_len = _len_dependent_names(f, data_names)
    # enumerate store-free normal paths entry -> exit, collecting branch conditions
    paths = []

    def dfs(n, conds, seen):
        if len(paths) > 500:
            return
        if n is g.exit:
            paths.append(list(conds))
            return
        for m, l in g.succ[n]:
            if l not in g.NORMAL or m in stores or m in seen:
                continue
            c2 = conds
            if n.kind in ('if', 'while') and l in ('t', 'f'):
                c2 = conds + [(n.ast, l == 't')]
            dfs(m, c2, seen | {m})
    dfs(g.entry, [], {g.entry})
    ctx.need(paths, 'no path returns without storing: discard logic vanished (every duplicate would be written)')
    seen_keys = set()
    for conds in paths:
        # the deciding condition is the last branch taken before the return
        dep = bool(conds) and (has_len(conds[-1][0]) or bool(q.names_in(conds[-1][0]) & deps))
        key = ' and '.join(('' if pol else 'not ') + f'({norm(e)})' for e, pol in conds) or '<unconditional>'
        if key in seen_keys:
            continue
        seen_keys.add(key)
        ctx.ob(f, f'discard when {key}', dep,
               'this discard decision does not depend on the length of the incoming chunk: a re-delivered chunk that starts in known data '
               'but extends past it is dropped whole (bytes lost, later offsets stuck) or a longer chunk loses to a shorter one')


def _conjuncts(e, pol):
    """Atoms (expr, polarity) that all hold when `e` evaluates to `pol`."""
    if isinstance(e, ast.UnaryOp) and isinstance(e.op, ast.Not):
        return _conjuncts(e.operand, not pol)
    if isinstance(e, ast.BoolOp) and ((isinstance(e.op, ast.And) and pol) or (isinstance(e.op, ast.Or) and not pol)):
        out = []
        for v in e.values:
            out += _conjuncts(v, pol)
        return out
    return [(e, pol)]


def _len_of(e, pred):
    return isinstance(e, ast.Call) and isinstance(e.func, ast.Name) and e.func.id == 'len' and len(e.args) == 1 and pred(e.args[0])


@rule('C16.e', ['C16', 'C02'], floor=1)
def pending_duplicate_loses_only_to_longer(ctx):
    """A request is dropped in favour of data already pending at the same offset only when
    the pending chunk is at least as long: every discard path of DeferQueue.request_writes
    that consults the pending table must carry a comparison establishing
    len(incoming) <= len(pending).  With the comparison turned round a longer re-delivery
    (a retry that split the stream at other boundaries) is dropped for a shorter pending
    chunk and the bytes between the two ends never reach the file."""
    f = ctx.func(f'{DQ}.request_writes')
    g = ctx.cfg(f)
    data = f.params[2] if len(f.params) > 2 else 'data'
    data_names = {data}
    stores = _store_nodes(g, f, data_names)
    ctx.need(stores, 'request_writes no longer stores the incoming data anywhere')
    pend = set()
    for n in own_nodes(f.node):
        if isinstance(n, ast.Assign) and len(n.targets) == 1 and isinstance(n.targets[0], ast.Name) \
                and '_pending_offsets' in q.attr_names_in(n.value):
            pend.add(n.targets[0].id)

    def is_pending(e):
        return bool(q.names_in(e) & pend) or '_pending_offsets' in q.attr_names_in(e)

    def is_data(e):
        return bool(q.names_in(e) & data_names) and not is_pending(e)
    paths = []

    def dfs(n, conds, seen):
        if len(paths) > 500:
            return
        if n is g.exit:
            paths.append(list(conds))
            return
        for m, l in g.succ[n]:
            if l not in g.NORMAL or m in stores or m in seen:
                continue
            c2 = conds
            if n.kind in ('if', 'while') and l in ('t', 'f'):
                c2 = conds + [(n.ast, l == 't')]
            dfs(m, c2, seen | {m})
    dfs(g.entry, [], {g.entry})
    seen_keys = set()
    n_ob = 0
    for conds in paths:
        atoms = []
        for e, pol in conds:
            atoms += _conjuncts(e, pol)
        if not any(is_pending(e) for e, _ in atoms):
            continue
        key = ' and '.join(('' if pol else 'not ') + f'({norm(e)})' for e, pol in conds)
        if key in seen_keys:
            continue
        seen_keys.add(key)
        ok = False
        for e, pol in atoms:
            if not (isinstance(e, ast.Compare) and len(e.ops) == 1):
                continue
            l, op, r = e.left, e.ops[0], e.comparators[0]
            if _len_of(l, is_data) and _len_of(r, is_pending):
                # len(data) OP len(pending)
                ok |= (pol and isinstance(op, (ast.LtE, ast.Lt, ast.Eq))) or (not pol and isinstance(op, (ast.Gt, ast.GtE)))
            elif _len_of(l, is_pending) and _len_of(r, is_data):
                # len(pending) OP len(data)
                ok |= (pol and isinstance(op, (ast.GtE, ast.Gt, ast.Eq))) or (not pol and isinstance(op, (ast.Lt, ast.LtE)))
        n_ob += 1
        ctx.ob(f, f'pending-duplicate discard when {key}', ok,
               'a request is dropped because data is already pending at its offset without establishing that the pending chunk is at '
               'least as long as the incoming one: a longer re-delivery loses to a shorter pending chunk and the bytes in between are '
               'never written (the download stalls short or completes with a gap)')
    if not n_ob:
        # duplicates at a pending offset are always queued: the contiguity rule C16.c then carries the whole argument
        ctx.ob(f, 'no discard path consults the pending table', True, '', trivial=True)


@rule('C16.f', ['C16', 'C11', 'C02'], floor=1)
def pending_table_is_keyed_consistently(ctx):
    """Contradiction rule for DeferQueue's pending table: a removal `del
    self._pending_offsets[K]` (or .pop(K)) that is guarded by a look-up in the same table
    must look up the same key K, and the value it is compared with must come from the same
    heap entry as K.  A guard on one key and a removal of another is a belief about the
    wrong entry: the entry that was meant stays in the table for the rest of the transfer
    (its chunk stays referenced after it was written: the in-memory bound grows with the
    object), or a live entry is dropped and its duplicate is queued again."""
    f = ctx.func(f'{DQ}.request_writes')
    n = 0
    for x in own_nodes(f.node):
        key = None
        if isinstance(x, ast.Delete):
            for t in x.targets:
                if isinstance(t, ast.Subscript) and dotted(t.value) == 'self._pending_offsets':
                    key = t.slice
        elif isinstance(x, ast.Call) and (dotted(x.func) or '') == 'self._pending_offsets.pop' and x.args:
            key = x.args[0]
        if key is None:
            continue
        n += 1
        looked = []
        for e, pol in q.guards(x):
            for y in ast.walk(e) if isinstance(e, ast.AST) else []:
                if isinstance(y, ast.Call) and (dotted(y.func) or '') == 'self._pending_offsets.get' and y.args:
                    looked.append(y.args[0])
                elif isinstance(y, ast.Subscript) and dotted(y.value) == 'self._pending_offsets':
                    looked.append(y.slice)
                elif isinstance(y, ast.Compare) and len(y.ops) == 1 and isinstance(y.ops[0], (ast.In, ast.NotIn)) and dotted(y.comparators[0]) == 'self._pending_offsets':
                    looked.append(y.left)
        bad = [norm(k) for k in looked if norm(k) != norm(key)]
        ctx.ob(f, f'removal of self._pending_offsets[{norm(key)}] is guarded by look-ups of the same key', not bad,
               f'the guard looks up {bad} but the entry removed is {norm(key)}: the entry the guard was about stays in (or a live one leaves) the pending table')
    if not n:
        ctx.ob(f, 'no keyed removal from the pending table', True, '', trivial=True)


@rule('C16.c', ['C16', 'C02', 'C11'], floor=3)
def release_is_contiguous(ctx):
    """The release loop compares the smallest queued offset with _next_offset; each
    iteration appends the popped write to the result and advances _next_offset by the
    length of exactly the data it released; if queued data may start below
    _next_offset it is trimmed to start at _next_offset."""
    f = ctx.func(f'{DQ}.request_writes')
    loops = [n for n in own_nodes(f.node) if isinstance(n, ast.While) and '_next_offset' in norm(n.test)]
    ctx.need(loops, 'release loop not found in request_writes')
    loop = loops[0]
    cmp = [x for x in ast.walk(loop.test) if isinstance(x, ast.Compare) and '_next_offset' in norm(x)]
    # `<=`, not `==`: a queued entry can come to lie below _next_offset (an overlapping entry queued at
    # another offset was released past its start); with `==` it - and everything behind it - is never released
    ok = bool(cmp) and isinstance(cmp[0].ops[0], ast.LtE) and '_writes[0][0]' in norm(cmp[0].left) and '_next_offset' in norm(cmp[0].comparators[0])
    ctx.ob(f, f'while {norm(loop.test)}', ok, 'the release loop must run while the smallest queued offset is <= the next offset to write '
                                              '(entries overtaken by an overlapping release must still be drained, trimmed)')
    apps = [c for c in ast.walk(loop) if isinstance(c, ast.Call) and isinstance(c.func, ast.Attribute) and c.func.attr == 'append' and c.args and isinstance(c.args[0], ast.Dict)]
    incs = [n for n in ast.walk(loop) if isinstance(n, ast.AugAssign) and dotted(n.target) == 'self._next_offset' and isinstance(n.op, ast.Add)]
    ctx.ob(f, 'one append and one advance per released write', len(apps) == 1 and len(incs) == 1, f'found {len(apps)} appends and {len(incs)} advances in the release loop')
    if len(apps) == 1 and len(incs) == 1:
        d = dict((k.value, v) for k, v in zip(apps[0].args[0].keys, apps[0].args[0].values) if isinstance(k, ast.Constant))
        dv = d.get('data')
        inc = incs[0].value
        ok = dv is not None and isinstance(inc, ast.Call) and norm(inc.func) == 'len' and norm(inc.args[0]) == norm(dv)
        ctx.ob(f, f'self._next_offset += len({norm(dv)})', ok, f'the next offset must advance by the length of the released data, found += {norm(inc)}')
        same_block = q.containing_block(q_stmt(apps[0])) is q.containing_block(incs[0])
        ctx.ob(f, 'append and advance in the same block', same_block and q.guard_texts(apps[0]) == q.guard_texts(incs[0]), 'releasing without advancing (or vice versa) breaks contiguity')
        ov = d.get('offset')
        if isinstance(cmp[0].ops[0], ast.LtE):
            trimmed = any(isinstance(n, ast.Assign) and isinstance(n.value, ast.Subscript) and isinstance(n.value.slice, ast.Slice) for n in ast.walk(loop))
            ctx.ob(f, 'overlapping queued data is trimmed before release', trimmed, 'with <= the head of the queue may overlap released bytes and must be trimmed')
        ctx.ob(f, "released 'offset' is the popped/trimmed offset", ov is not None and isinstance(ov, (ast.Name, ast.Subscript)), f'offset value {norm(ov)}')
    # every trim `X = X[L:]` in request_writes drops exactly the overlap with the released prefix: L == self._next_offset - <offset of X>
    from ..poly import equal as _peq
    pairs = {f.params[2]: f.params[1]}
    for n in own_nodes(f.node):
        if isinstance(n, ast.Assign) and isinstance(n.targets[0], ast.Tuple) and len(n.targets[0].elts) == 2 and isinstance(n.value, ast.Call) and norm(n.value.func) == 'heapq.heappop' \
                and all(isinstance(e, ast.Name) for e in n.targets[0].elts):
            pairs[n.targets[0].elts[1].id] = n.targets[0].elts[0].id
    ntr = 0
    for n in own_nodes(f.node):
        if isinstance(n, ast.Assign) and len(n.targets) == 1 and isinstance(n.targets[0], ast.Name) and isinstance(n.value, ast.Subscript) and isinstance(n.value.slice, ast.Slice) \
                and isinstance(n.value.value, ast.Name) and n.value.value.id == n.targets[0].id and n.targets[0].id in pairs:
            ntr += 1
            lo, hi = n.value.slice.lower, n.value.slice.upper
            off = pairs[n.targets[0].id]
            lo_i = q.inline_locals(f, lo) if lo is not None else None
            ok_t = lo is not None and hi is None and _peq(lo_i, f'self._next_offset - {off}')
            ctx.ob(f, n, ok_t, f'a trim must drop exactly the bytes already released: {n.targets[0].id}[self._next_offset - {off}:]; a wrong index keeps written bytes or drops unwritten ones')
    ctx.ob(f, 'overlap trims found', ntr >= 1, 'request_writes no longer trims data that overlaps the released prefix')
    # a popped entry is skipped (continue) only when it lies entirely inside the released prefix:
    # len(<its data>) <= self._next_offset - <its offset>.  Measured against any other chunk (the incoming one, say) an entry
    # with an unwritten tail is dropped and everything queued behind the hole stays withheld for ever.
    for cn in [n for n in ast.walk(loop) if isinstance(n, ast.Continue) and q.in_loop(n) is loop]:
        atoms = []
        for e, pol in q.guards(cn):
            if isinstance(e, ast.AST) and any(e is x for x in ast.walk(loop)) and e is not loop.test:
                atoms += _conjuncts(e, pol)
        ok_c = False
        for e, pol in atoms:
            if not (isinstance(e, ast.Compare) and len(e.ops) == 1):
                continue
            def _arith(x):
                # only arithmetic locals are unfolded (seen = self._next_offset - next_offset); data-carrying names stay symbols
                class T(ast.NodeTransformer):
                    def visit_Name(self, node):
                        d = q.single_def(f, node.id) if isinstance(node.ctx, ast.Load) and node.id not in f.params else None
                        if isinstance(d, ast.BinOp) and len(q.local_defs(f, node.id)) == 1 and all(isinstance(y, (ast.BinOp, ast.Name, ast.Attribute, ast.Constant, ast.operator, ast.expr_context)) for y in ast.walk(d)):
                            return d
                        return node
                import copy
                return T().visit(copy.deepcopy(x))
            l, op, r = _arith(e.left), e.ops[0], _arith(e.comparators[0])
            if (isinstance(op, (ast.Gt, ast.GtE)) and pol) or (isinstance(op, (ast.Lt, ast.LtE)) and not pol):
                l, r = r, l
            elif not ((isinstance(op, (ast.Lt, ast.LtE)) and pol) or (isinstance(op, (ast.Gt, ast.GtE)) and not pol)):
                continue
            # now the atom states  l <= r  (or l < r)
            for dn, on in pairs.items():
                if dn == f.params[2]:
                    continue
                try:
                    if _peq(ast.BinOp(left=r, op=ast.Sub(), right=l), f'self._next_offset - {on} - len({dn})'):
                        ok_c = True
                except Exception:
                    pass
        ctx.ob(f, f'queued entry skipped only when wholly released ({" and ".join(norm(e) for e, _ in atoms) or "unconditional"})', ok_c,
               'the skip test must compare the released overlap with the length of the popped entry itself')
    pops = [c for c in ast.walk(loop) if isinstance(c, ast.Call) and norm(c.func) == 'heapq.heappop']
    ctx.ob(f, 'heapq.heappop(self._writes) yields the smallest offset', len(pops) == 1 and norm(pops[0].args[0]) == 'self._writes', 'writes must be released in ascending offset order')
    pushes = [c for c in own_calls(f.node) if norm(c.func) == 'heapq.heappush']
    ok = bool(pushes) and all(norm(c.args[0]) == 'self._writes' and isinstance(c.args[1], ast.Tuple) and len(c.args[1].elts) == 2 and norm(c.args[1].elts[0]) == f.params[1] for c in pushes)
    ctx.ob(f, 'heap is keyed by the offset', ok, 'the queue must be ordered by offset')
    rets = [n for n in own_nodes(f.node) if isinstance(n, ast.Return) and n.value is not None and not isinstance(n.value, ast.List)]
    ctx.ob(f, 'the released list is returned as built', bool(rets) and all(isinstance(r.value, ast.Name) for r in rets), 'order of the released writes must be preserved')


def q_stmt(node):
    from ..ir import enclosing_stmt
    return enclosing_stmt(node)


@rule('C16.d', ['C16', 'C02', 'C10'], floor=3)
def released_writes_submitted_in_order_atomically(ctx):
    """Every consumer of request_writes (queue_file_io_task and the immediate path of the
    non-seekable manager) holds _io_submit_lock across the request and the use of its
    result, iterates the returned list in order, passes write['data'] on, and targets
    the single-thread IO executor."""
    users = q.callers_of(ctx, f'{DQ}.request_writes')
    ctx.need(users, 'nobody calls DeferQueue.request_writes')
    for f, c, r in users:
        held = q.locks_held(c)
        ctx.ob(f, c, 'self._io_submit_lock' in held, 'request_writes must run under _io_submit_lock (two request threads would interleave their released runs)')
        st = q_stmt(c)
        var = st.targets[0].id if isinstance(st, ast.Assign) and isinstance(st.targets[0], ast.Name) else None
        direct = [n for n in own_nodes(f.node) if isinstance(n, (ast.For, ast.comprehension)) and n.iter is c]
        ctx.ob(f, f'result of request_writes bound to a local ({var})' if not direct else 'result of request_writes iterated directly', var is not None or bool(direct),
               'the released writes must be consumed')
        if var is None and not direct:
            continue
        uses = direct or [n for n in own_nodes(f.node) if isinstance(n, (ast.For, ast.comprehension)) and norm(n.iter) == var]
        var = var or 'request_writes(...)'
        ctx.ob(f, f'for ... in {var} (in order)', len(uses) == 1, f'the released list must be iterated exactly once, in order (found {len(uses)} plain iterations)')
        for u in uses:
            tgt = norm(u.target)
            scope = u if isinstance(u, ast.For) else u._parent
            inside_lock = 'self._io_submit_lock' in q.locks_held(scope if isinstance(scope, ast.stmt) else q_stmt(scope))
            ctx.ob(f, f'iteration over {var} under _io_submit_lock', inside_lock, 'submission of the released run must be atomic with its release')
            texts = norm(scope)
            ctx.ob(f, f"{tgt}['data'] is what gets written", f"{tgt}['data']" in texts, 'the released data (not the incoming chunk) must be written')
    # the submit target of the base queue_file_io_task is the IO executor
    b = ctx.func(f'{HIER}.queue_file_io_task')
    subs = [s for s in q.submits(ctx) if s.func is b]
    ctx.ob(b, 'queue_file_io_task submits to self._io_executor', bool(subs) and all(s.executor_text == 'self._io_executor' for s in subs), 'writes must go to the single IO thread')


# ---------------------------------------------------------------------------
# C02.b per-attempt cursor reset
# ---------------------------------------------------------------------------

@rule('C02.b', ['C02', 'C16'], floor=4)
def per_attempt_cursor_reset(ctx):
    """For each stream retry loop the write position used inside the attempt is
    (re)established on every path from the loop head to its first use: a cursor
    variable advanced by len(chunk) is re-initialised inside the attempt, or the
    attempt's writer seeks to its offset / opens the file with 'wb' itself."""
    loops = retry_loops(ctx)
    ctx.need(len(loops) >= 4, f'only {len(loops)} retry loops recognised')
    for rl in loops:
        f = rl.func
        g = ctx.cfg(f)
        cursors = set()
        for n in ast.walk(rl.try_):
            if isinstance(n, ast.AugAssign) and isinstance(n.target, ast.Name) and isinstance(n.op, ast.Add) and 'len(' in norm(n.value):
                # a write cursor is handed to a call inside the attempt (the writer); a mere counter is not
                used = any(isinstance(c, ast.Call) and any(n.target.id in q.names_in(a) for a in list(c.args) + [k.value for k in c.keywords])
                           and not (dotted(c.func) or '').endswith(('invoke_progress_callbacks', 'debug')) for s2 in rl.try_.body for c in ast.walk(s2))
                if used:
                    cursors.add(n.target.id)
        head = [n for n in g.nodes if n.stmt is rl.loop and n.kind in ('for', 'while')]
        if cursors:
            for cur in sorted(cursors):
                defs = [n for n in g.nodes if isinstance(n.ast, ast.Assign) and any(isinstance(t, ast.Name) and t.id == cur for t in n.ast.targets)
                        and any(a is rl.loop for a in ancestors(n.ast))]
                uses = [n for n in g.nodes if n.ast is not None and n.kind in ('stmt', 'if', 'while', 'for') and any(a is rl.loop for a in ancestors(n.ast))
                        and any(isinstance(x, ast.Name) and x.id == cur and isinstance(x.ctx, ast.Load) for x in ast.walk(n.ast))
                        and not (isinstance(n.ast, ast.AugAssign))]
                # uses inside the except handler that computes the rewind are after the attempt: exclude handler nodes
                uses = [n for n in uses if not q.in_handler(n.ast)]
                ok = bool(defs) and bool(uses) and not (g.reach(head, avoid=defs, labels=g.NORMAL) & set(uses))
                ctx.ob(f, f'cursor {cur} re-initialised in every attempt before use', ok,
                       f'a value of {cur} from the previous attempt reaches a write of this attempt: retried data lands at the wrong offset')
                for d in defs:
                    ctx.ob(f, d.ast, not any(cur in q.names_in(d.ast.value) for _ in [0]), 'the cursor must restart from the range start, not from itself')
        else:
            # the writer establishes the position itself
            target = ctx.r.resolve(rl.get_call, f, _count=False)
            helpers = [t for c in ast.walk(rl.try_) if isinstance(c, ast.Call) and enclosing_func(c) is f
                       for t in ctx.r.resolve(c, f, _count=False).targets if ctx.r.resolve(c, f, _count=False).kind == 'package' and t.cls is f.cls]
            ok = False
            why = []
            for h in helpers:
                for h2 in [h] + [t for c2 in own_calls(h.node) for t in ctx.r.resolve(c2, h, _count=False).targets
                                 if ctx.r.resolve(c2, h, _count=False).kind == 'package' and t.cls is f.cls]:
                    hg = ctx.cfg(h2)
                    writes = [n for c2 in own_calls(h2.node) if isinstance(c2.func, ast.Attribute) and c2.func.attr == 'write' for n in hg.nodes_of(c2)]
                    if not writes:
                        continue
                    seeks = [n for c2 in own_calls(h2.node) if isinstance(c2.func, ast.Attribute) and c2.func.attr == 'seek' and c2.args
                             and isinstance(c2.args[0], ast.Name) and c2.args[0].id in h2.params for n in hg.nodes_of(c2)]
                    opens_wb = [c2 for c2 in own_calls(h2.node) if (dotted(c2.func) or '').split('.')[-1] == 'open' and len(c2.args) >= 2
                                and isinstance(c2.args[1], ast.Constant) and c2.args[1].value == 'wb']
                    if seeks and hg.all_dominate(seeks, writes, hg.NORMAL):
                        ok = True
                        why.append(f'{h2.qualname} seeks to its offset before writing')
                    elif opens_wb:
                        ok = True
                        why.append(f"{h2.qualname} opens the file with 'wb' (truncates) in every attempt")
            ctx.ob(f, 'attempt writer (re)establishes the write position', ok, '; '.join(why) or
                   'no cursor variable and no seek/truncating open in the attempt: retried data is appended after the partial data')


@rule('C02.e', ['C02', 'C09'], floor=2)
def empty_object_still_written(ctx):
    """DownloadChunkIterator returns the (possibly empty) first chunk, so an empty object
    still produces one write (and therefore the destination file)."""
    f = ctx.func('download.DownloadChunkIterator.__next__')
    # path rule: the iteration never ends on the first read - every path to `raise StopIteration` implies _num_reads != 1
    g = ctx.cfg(f)
    stops = [n for n in own_nodes(f.node) if isinstance(n, ast.Raise) and n.exc is not None and 'StopIteration' in norm(n.exc)]
    rets = [n for n in own_nodes(f.node) if isinstance(n, ast.Return) and n.value is not None]
    pcs = g.path_conditions([g.entry], [x for s_ in stops for x in g.nodes_of(s_)], labels=g.NORMAL)
    ok = bool(stops) and bool(rets) and pcs is not None and all(q.guards_imply(pc, 'self._num_reads != 1') for pc in pcs)
    ctx.ob(f, 'first read is returned even when empty', ok, 'an empty object would produce no write: the destination is never created/opened')
    inc = [n for n in own_nodes(f.node) if isinstance(n, ast.AugAssign) and dotted(n.target) == 'self._num_reads']
    reads = [c for c in own_calls(f.node) if isinstance(c.func, ast.Attribute) and c.func.attr == 'read']
    ctx.ob(f, 'read(self._chunksize) once per __next__', len(reads) == 1 and len(inc) == 1 and reads[0].args and norm(reads[0].args[0]) == 'self._chunksize'
           and q.in_loop(reads[0]) is None, 'each step must read exactly one chunk of the configured size')


@rule('C16.g', ['C16', 'C02', 'C11'], floor=2)
def the_write_heap_is_only_touched_through_heapq(ctx):
    """DeferQueue._writes is a heap: heapq.heappush / heappop keep the smallest offset at
    index 0, which is all the release loop looks at.  Any other mutation of the list
    (remove, append, insert, sort, item or slice assignment, del) breaks the heap order
    unless it re-heapifies; afterwards a larger offset can sit at the head while a
    contiguous smaller one is buried, and the data behind it is withheld for ever."""
    cl = ctx.cls(DQ)
    n = 0
    for m in cl.methods.values():
        if m.name == '__init__':
            continue
        for x in own_nodes(m.node):
            if isinstance(x, ast.Call) and isinstance(x.func, ast.Attribute) and dotted(x.func.value) == 'self._writes':
                n += 1
                ctx.ob(m, x, False, f'self._writes.{x.func.attr}(...) touches the heap list directly')
            elif isinstance(x, (ast.Subscript, ast.Attribute)) and not isinstance(x.ctx, ast.Load) and (dotted(x) == 'self._writes' or (isinstance(x, ast.Subscript) and dotted(x.value) == 'self._writes')):
                n += 1
                ctx.ob(m, x, False, 'the heap list is assigned / deleted into directly')
            elif isinstance(x, ast.Call) and (dotted(x.func) or '').startswith('heapq.') and x.args and dotted(x.args[0]) == 'self._writes':
                n += 1
                ctx.ob(m, x, (dotted(x.func) or '') in ('heapq.heappush', 'heapq.heappop', 'heapq.heapify', 'heapq.heappushpop', 'heapq.heapreplace'), 'heapq operation on the write heap')
    ctx.need(n >= 2, 'DeferQueue no longer uses self._writes through heapq')


@rule('C16.h', ['C16', 'C04', 'C17', 'C12', 'C08'], floor=8)
def locks_exist_before_they_are_shared(ctx):
    """Every lock / condition attribute that a method takes with `with self.<attr>:` (or
    acquire()) is bound in the class's __init__ to a threading primitive - not created
    lazily on first use (cached_property, `if not hasattr`, setdefault): two threads that
    arrive together would each create and take their own lock, and the region is not
    mutually exclusive for exactly the callers that race."""
    n = 0
    for cl in ctx.p.classes.values():
        used = set()
        for m in cl.methods.values():
            for x in own_nodes(m.node):
                if isinstance(x, (ast.With, ast.AsyncWith)):
                    for it in x.items:
                        d = dotted(it.context_expr) or ''
                        if d.startswith('self.') and d.count('.') == 1 and q.is_lock_expr(it.context_expr):
                            used.add(d.split('.')[1])
        for a in sorted(used):
            init_vals = [v for c in cl.mro() for fn, v in c.init_attrs.get(a, []) if fn.name == '__init__']
            # constructor hooks that the base class calls from its own __init__ (queue.Queue._init) count as construction
            for c in cl.mro():
                for hook in ('_init', '__new__', '__post_init__'):
                    hm = c.methods.get(hook)
                    if hm is not None:
                        init_vals += [n.value for n in own_nodes(hm.node) if isinstance(n, ast.Assign) and any(dotted(t) == f'self.{a}' for t in n.targets)]
            eager = any(isinstance(v, ast.Call) and (dotted(v.func) or '').split('.')[-1] in ('Lock', 'RLock', 'Condition', 'Semaphore', 'BoundedSemaphore') for v in init_vals) \
                or any(isinstance(v, ast.Name) for v in init_vals)   # a lock handed in by the creator
            lazy = any(a == m2.name for c in cl.mro() for m2 in c.methods.values())   # a method / (cached) property of that name
            n += 1
            ctx.ob(cl.qualname, f'self.{a} is created in __init__', eager and not lazy,
                   f'self.{a} is taken as a lock but is not bound to a threading primitive in __init__ (lazy creation is not atomic: racing first users get different locks)')
    ctx.need(n >= 8, f'only {n} lock attributes found')
