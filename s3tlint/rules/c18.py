"""C18 - shutdown is a barrier; transfers sharing a manager are isolated."""
import ast

from ..engine import rule
from ..ir import ClassInfo, dotted, kwarg, norm, own_calls, own_nodes, short
from .. import q

MUTATORS = {'append', 'extend', 'insert', 'pop', 'remove', 'clear', 'update', 'setdefault', 'add', 'discard', 'sort', 'reverse', 'popitem'}


def stage_of(ctx, func):
    """Which stage's thread runs this function (submission / request / io / user)."""
    subm = ctx.cls('tasks.SubmissionTask')
    task = ctx.cls('tasks.Task')
    if func.cls is not None and func.cls.is_subclass_of(subm):
        return 'submission'
    if func.cls is not None and func.cls.is_subclass_of(task):
        if func.module.name == 'download' and func.cls.name.startswith(('IO', 'CompleteDownloadNOOP')):
            return 'io'
        return 'request'
    if func.cls is not None and func.cls.qualname.startswith('download.Download') and func.name in ('queue_file_io_task', 'get_io_write_task'):
        return 'request'  # called from GetObjectTask._main via _handle_io
    if func.module.name == 'manager':
        return 'user'
    return None


def executor_stage(text):
    return {'self._submission_executor': 'submission', 'request_executor': 'request', 'self._request_executor': 'request',
            'io_executor': 'io', 'self._io_executor': 'io'}.get(text)


@rule('C18.a', ['C18', 'C04', 'C07'], floor=6)
def join_everything_in_dependency_order(ctx):
    """In TransferManager._shutdown every path to an exit - normal, the KeyboardInterrupt
    handler's re-raise, any other exception from the wait - passes shutdown() of all
    three executors; BoundedExecutor.shutdown waits by default; the join order is a
    topological order of the submits-to relation of the stage graph."""
    f = ctx.func('manager.TransferManager._shutdown')
    g = ctx.cfg(f)
    joins = {}
    for c, r in q.calls_in(ctx, f):
        if r.kind == 'package' and any(t.qualname == 'futures.BoundedExecutor.shutdown' for t in r.targets):
            joins.setdefault(norm(c.func.value), []).append(c)
    waits = [n for c, r in q.calls_in(ctx, f) if r.kind == 'package' and any(t.qualname == 'manager.TransferCoordinatorController.wait' for t in r.targets)
             for n in g.nodes_of(c)]
    ctx.ob(f, 'self._coordinator_controller.wait() on every normal path', bool(waits) and g.must_pass([g.entry], waits, [g.exit], g.NORMAL),
           'shutdown must wait for the tracked transfers')
    for ex in ('self._submission_executor', 'self._request_executor', 'self._io_executor'):
        cs = joins.get(ex, [])
        nodes = [n for c in cs for n in g.nodes_of(c)]
        alljoin = [n for cs2 in joins.values() for c in cs2 for n in g.nodes_of(c)]
        # from the wait onwards (exceptions of the joins themselves are out of scope)
        ok = bool(nodes) and bool(waits) and not (g.reach(waits, avoid=nodes, include_src=True, no_exc_from=alljoin) & {g.exit, g.rexit})
        ctx.ob(f, f'{ex}.shutdown() on every exit path', ok,
               'some exit of _shutdown (normal, Ctrl-C re-raise or an error from the wait) skips this join: work can run after shutdown returned')
        for c in cs:
            w = kwarg(c, 'wait') or (c.args[0] if c.args else None)
            ctx.ob(f, c, w is None or (isinstance(w, ast.Constant) and w.value is True), 'the join must wait for the executor')
    sh = ctx.func('futures.BoundedExecutor.shutdown')
    d = sh.defaults_map().get('wait')
    inner = [c for c in own_calls(sh.node) if (dotted(c.func) or '').endswith('_executor.shutdown')]
    ok = isinstance(d, ast.Constant) and d.value is True and bool(inner) and all(c.args and norm(c.args[0]) == 'wait' or (kwarg(c, 'wait') is not None and norm(kwarg(c, 'wait')) == 'wait') for c in inner)
    ctx.ob(sh, 'shutdown(wait=True) forwards wait', ok, 'BoundedExecutor.shutdown must wait by default and forward the flag')
    # submits-to relation
    edges = set()
    for s in q.submits(ctx):
        src = stage_of(ctx, s.func)
        for ex in q.executor_origins(ctx, s.func, s.executor):
            dst = executor_stage(ex)
            if dst is None:
                ctx.ob(s.func, s.call, False, f'executor expression {ex} is not one of the three stages')
                continue
            if s.via == 'FunctionContainer':
                src = 'request'  # invoked by a request task's done callback
            if src is None:
                ctx.ob(s.func, s.call, False, f'cannot tell which stage runs {s.func.qualname}')
                continue
            edges.add((src, dst))
            ctx.ob(s.func, f'{src} -> {dst}: {short(s.call, 50)}', True, 'submits-to edge')
    order = []
    pos = {}
    fin = [n for n in own_nodes(f.node) if isinstance(n, ast.Try) and n.finalbody]
    for ex, cs in joins.items():
        st = executor_stage(ex)
        if st:
            pos[st] = min(c._pos for c in cs)
    ctx.extra['submits_to'] = sorted(f'{a}->{b}' for a, b in edges)
    for a, b in sorted(edges):
        if a == 'user' or a == b:
            continue
        ok = a in pos and b in pos and pos[a] < pos[b]
        ctx.ob(f, f'join {a} executor before {b} executor', ok,
               f'code on the {a} stage submits to the {b} stage: joining {b} first lets it receive work after its join')


@rule('C18.c', ['C18', 'C15', 'C02'], floor=2)
def per_transfer_state(ctx):
    """Objects created per transfer are not stored on the manager, a class or a module;
    only the frozen inventory of manager attributes is handed to tasks; no function of
    the manager path assigns a module global or mutates a class-level list/dict; an
    entry point whose transfer path mutates the extra_args dict copies it first."""
    mgr = ctx.cls('manager.TransferManager')
    for name, m in mgr.methods.items():
        if m.name == '__init__':
            continue
        for n in own_nodes(m.node):
            tg = []
            if isinstance(n, ast.Assign):
                tg = n.targets
            elif isinstance(n, (ast.AugAssign, ast.AnnAssign)):
                tg = [n.target]
            for t in tg:
                d = dotted(t)
                if d and d.startswith('self.'):
                    ctx.ob(m, n, d == 'self._id_counter', f'{d} is written per call: per-transfer state must not live on the shared manager')
    # the other long-lived front-end objects: legacy S3Transfer and the process-pool downloader keep no per-call state either
    # (an object cached across calls - a downloader with its IO queue, a monitor entry - is shared by concurrent calls)
    shared = {'__init__.S3Transfer': set(), 'processpool.ProcessPoolDownloader': {'self._started', 'self._manager', 'self._transfer_monitor', 'self._submitter',
                                                                              'self._workers', 'self._download_request_queue', 'self._worker_queue', 'self._transfer_config',
                                                                              'self._client_factory'}}
    for cq, allowed in shared.items():
        cl = ctx.cls(cq)
        for name, m in cl.methods.items():
            if m.name == '__init__':
                continue
            for n in own_nodes(m.node):
                tg = n.targets if isinstance(n, ast.Assign) else ([n.target] if isinstance(n, (ast.AugAssign, ast.AnnAssign)) else [])
                for t in tg:
                    d = dotted(t)
                    if d and d.startswith('self.') and d.count('.') == 1:
                        ctx.ob(m, n, d in allowed, f'{d} is written per call: per-download state must not live on the shared {cl.name} (concurrent calls would share it)')
    ctx.ob('__init__.S3Transfer', 'no per-call attribute stores on the legacy front-end', True, 'shared-object state inventory', trivial=True)
    inv = {'client', 'config', 'osutil', 'request_executor', 'transfer_future', 'io_executor', 'bandwidth_limiter'}
    keys = set()
    for mname in ('_get_submission_task_main_kwargs', 'upload', 'download', 'copy', 'delete'):
        m = mgr.lookup(mname)
        ctx.need(m is not None, f'TransferManager.{mname} vanished')
        for n in own_nodes(m.node):
            if isinstance(n, ast.Dict) and any(isinstance(k, ast.Constant) and k.value in inv for k in n.keys):
                keys |= {k.value for k in n.keys if isinstance(k, ast.Constant)}
            if isinstance(n, ast.Assign) and isinstance(n.targets[0], ast.Subscript) and norm(n.targets[0].value) == 'extra_main_kwargs' \
                    and isinstance(n.targets[0].slice, ast.Constant):
                keys.add(n.targets[0].slice.value)
    ctx.ob(mgr.lookup('_get_submission_task_main_kwargs'), f'main kwargs handed to tasks: {sorted(keys)}', keys <= inv and {'client', 'request_executor', 'transfer_future'} <= keys,
           f'tasks may only share the frozen inventory {sorted(inv)}; extra: {sorted(keys - inv)}')
    # globals / class-level containers in the manager path
    mods = ('manager', 'futures', 'tasks', 'upload', 'download', 'copies', 'delete', 'utils', 'bandwidth')
    for f in ctx.p.all_functions():
        if f.module.name not in mods:
            continue
        for n in own_nodes(f.node):
            if isinstance(n, ast.Global):
                ctx.ob(f, n, False, 'module-level state shared by all transfers/managers')
        for c in own_calls(f.node):
            if isinstance(c.func, ast.Attribute) and c.func.attr in MUTATORS:
                recv = c.func.value
                d = dotted(recv)
                if d and d.count('.') == 1 and d.split('.')[0] in ('self', 'cls') and f.cls is not None:
                    owner, v = f.cls.lookup_attr(d.split('.')[1])
                    if v is not None and isinstance(v, (ast.List, ast.Dict, ast.Set, ast.BinOp)) and d.split('.')[1] not in _instance_attrs(f.cls):
                        ctx.ob(f, c, False, f'{d} is a class-level container: mutating it leaks state across transfers and managers')
                elif d:
                    g = ctx.p.resolve_name_expr(f.module, recv) if isinstance(recv, (ast.Name, ast.Attribute)) else None
                    if isinstance(g, tuple) and g[0] == 'const' and isinstance(g[2], (ast.List, ast.Dict, ast.Set)) and not (isinstance(recv, ast.Name) and (recv.id in f.params or q.local_defs(f, recv.id))):
                        ctx.ob(f, c, False, f'{d} is a module/class-level container: mutating it leaks state across transfers')


@rule('C18.u', ['C18', 'C15'], floor=4)
def callers_extra_args_are_not_mutated(ctx):
    """An entry point whose transfer path writes into the extra_args dict (checksum
    defaults, ChecksumType/ChecksumAlgorithm derivation) works on a copy: the caller's
    dict - possibly reused for the next transfer - is never modified."""
    mgr = ctx.cls('manager.TransferManager')
    # copy before mutate
    subm = ctx.cls('tasks.SubmissionTask')
    mutating = {}
    for cl in subm.all_subclasses():
        for m in cl.methods.values():
            for n in own_nodes(m.node):
                hit = None
                if isinstance(n, ast.Assign) and isinstance(n.targets[0], ast.Subscript) and q.is_call_args_attr(m, n.targets[0].value):
                    hit = n
                if isinstance(n, ast.Call) and isinstance(n.func, ast.Attribute) and n.func.attr in MUTATORS and q.is_call_args_attr(m, n.func.value):
                    hit = n
                if hit is not None:
                    mutating.setdefault(cl, []).append((m, hit))
    for mname in ('upload', 'download', 'copy', 'delete'):
        m = mgr.lookup(mname)
        task_cls = None
        mutates_here = False
        for c, r in q.calls_in(ctx, m):
            if r.kind == 'package' and any(t.name == '_submit_transfer' for t in r.targets) and len(c.args) >= 2:
                task_cls = ctx.p.resolve_name_expr(m.module, c.args[1])
            if r.kind == 'package' and any(t.name in ('_add_operation_defaults',) for t in r.targets):
                mutates_here = True
        needs_copy = mutates_here or (isinstance(task_cls, ClassInfo) and task_cls in mutating)
        copied = any(isinstance(v, ast.AST) and ('.copy()' in norm(v) or 'dict(' in norm(v) or 'copy.copy(' in norm(v)) for _, v in q.local_defs(m, 'extra_args'))
        ctx.ob(m, f'{mname}(): extra_args {"copied" if copied else "passed through"}; transfer path mutates it: {needs_copy}',
               copied or not needs_copy, "the caller's extra_args dict is mutated by the transfer: a second transfer reusing the dict sees the first one's edits",
               trivial=not needs_copy)
    # the copy source: the HeadObject request is built from the caller's copy_source dict and then written into (mapped conditions,
    # SSE-C keys); it must be a copy, on every path of the helper that derives it
    cp = ctx.expanded().func('copies.CopySubmissionTask._submit')
    writes = [n for n in own_nodes(cp.node) if isinstance(n, ast.Assign) and isinstance(n.targets[0], ast.Subscript) and isinstance(n.targets[0].value, ast.Name)]
    seen = set()
    for w in writes:
        nm = w.targets[0].value.id
        if nm in seen:
            continue
        seen.add(nm)
        defs = [v for _, v in q.local_defs(cp, nm) if isinstance(v, ast.AST)]
        from_source = [v for v in defs if 'copy_source' in norm(v)]
        if not from_source:
            continue
        okc = all(isinstance(v, ast.Call) and (norm(v.func) in ('copy.copy', 'copy.deepcopy', 'dict') or (isinstance(v.func, ast.Attribute) and v.func.attr == 'copy'))
                  or isinstance(v, ast.Dict) for v in from_source)
        ctx.ob(cp.qualname, f'{nm} (written into for HeadObject) is a copy of the caller\'s copy_source', okc,
               f"{nm} = {[norm(v) for v in from_source]}: the mapped HeadObject arguments are written into the caller's own copy_source dict; the next copy that reuses the "
               'dict sends conditions / keys it never asked for', node=w)
    ctx.need(seen, 'copy: the HeadObject request dict was not found')


def _instance_attrs(cls):
    out = set()
    for c in cls.mro():
        out |= set(c.init_attrs)
    return out
