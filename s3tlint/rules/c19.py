"""C19 - process-pool downloads finish only after all jobs, with cleanup."""
import ast

from ..engine import rule
from ..ir import ancestors, dotted, kwarg, norm, own_calls, own_nodes, short
from .. import q


@rule('C19.a', ['C19', 'C06'], floor=4)
def count_before_jobs(ctx):
    """In each job-submitting method of GetObjectSubmitter the job count is announced
    before any job is queued, and the announced number is the number of jobs queued
    (1; num_parts for `for i in range(num_parts)`)."""
    cl = ctx.cls('processpool.GetObjectSubmitter')
    n = 0
    for m in cl.methods.values():
        # a job is queued through the helper, or by putting a GetObjectJob on the worker queue directly
        jobs = [c for c in own_calls(m.node) if (dotted(c.func) or '') == 'self._submit_get_object_job' or
                ((dotted(c.func) or '') == 'GetObjectJob' and kwarg(c, 'transfer_id') is not None and isinstance(c._parent, ast.Call) and (dotted(c._parent.func) or '') == 'self._worker_queue.put')]
        if not jobs:
            continue
        n += 1
        g = ctx.cfg(m)
        ann = [c for c in own_calls(m.node) if (dotted(c.func) or '') == 'self._notify_jobs_to_complete']
        ok = len(ann) == 1 and g.all_dominate(g.nodes_of(ann[0]), [x for c in jobs for x in g.nodes_of(c)], g.NORMAL) and q.in_loop(ann[0]) is None and not q.guards(ann[0])
        ctx.ob(m, '_notify_jobs_to_complete(...) before every _submit_get_object_job(...)', ok,
               'a fast worker could finish a job and finalise the download before the expected count is known')
        if len(ann) == 1 and len(jobs) == 1:
            cnt = ann[0].args[1] if len(ann[0].args) > 1 else None
            loop = q.in_loop(jobs[0])
            if loop is None:
                okc = isinstance(cnt, ast.Constant) and cnt.value == 1
            else:
                okc = isinstance(loop, ast.For) and norm(loop.iter) == f'range({norm(cnt)})' and not q.guards(jobs[0])
            ctx.ob(m, f'announced count {norm(cnt)} == number of jobs queued', okc, 'the download would finalise too early or never')
            ctx.ob(m, 'announcement and jobs use the same transfer id', norm(ann[0].args[0]) == norm(kwarg(jobs[0], 'transfer_id')), 'count and jobs belong to different transfers')
    ctx.need(n >= 2, f'{n} job-submitting methods')
    f = ctx.func('processpool.GetObjectSubmitter._notify_jobs_to_complete')
    cs = [c for c in own_calls(f.node) if (dotted(c.func) or '').endswith('notify_expected_jobs_to_complete')]
    ctx.ob(f, 'forwards (transfer_id, jobs_to_complete) to the monitor', len(cs) == 1 and [norm(a) for a in cs[0].args] == f.params[1:], 'count not forwarded')
    f = ctx.func('processpool.TransferMonitor.notify_expected_jobs_to_complete')
    st = [n for n in own_nodes(f.node) if isinstance(n, ast.Assign) and isinstance(n.targets[0], ast.Attribute) and n.targets[0].attr == 'jobs_to_complete']
    ctx.ob(f, 'state.jobs_to_complete = num_jobs', len(st) == 1 and norm(st[0].value) == f.params[2] and f'[{f.params[1]}]' in norm(st[0].targets[0]), 'count not stored for that transfer')
    f = ctx.func('processpool.GetObjectSubmitter._submit_get_object_jobs')
    g = ctx.cfg(f)
    alloc = [x for c in own_calls(f.node) if (dotted(c.func) or '') == 'self._allocate_temp_file' for x in g.nodes_of(c)]
    subs = [x for c in own_calls(f.node) if (dotted(c.func) or '').startswith('self._submit_') for x in g.nodes_of(c)]
    ctx.ob(f, 'temp file allocated before any job is submitted', bool(alloc and subs) and g.all_dominate(alloc, subs, g.NORMAL), 'workers would open a file that does not exist yet')


@rule('C19.g', ['C19', 'C06'], floor=1)
def an_allocated_temp_file_always_gets_its_jobs(ctx):
    """The temporary file pre-allocated by the submitter is removed (or renamed) by the
    worker that completes the *last job* of the transfer - nobody else.  So once
    _allocate_temp_file returned, every normal path of _submit_get_object_jobs queues at
    least one job: an early exit in between (a transfer already cancelled, say) marks the
    download done and leaves the full-size temporary file behind."""
    f = ctx.func('processpool.GetObjectSubmitter._submit_get_object_jobs')
    g = ctx.cfg(f)
    alloc = [x for c in own_calls(f.node) if (dotted(c.func) or '').endswith('_allocate_temp_file') for x in g.nodes_of(c)]
    subs = [x for c in own_calls(f.node) if (dotted(c.func) or '').split('.')[-1] in ('_submit_single_get_object_job', '_submit_ranged_get_object_jobs') or
            ((dotted(c.func) or '').endswith('_worker_queue.put')) for x in g.nodes_of(c)]
    ctx.need(alloc and subs, '_submit_get_object_jobs: allocation / job submission not recognised')
    ctx.ob(f, 'after _allocate_temp_file every normal path queues the jobs', g.must_pass(alloc, subs, [g.exit], g.NORMAL),
           'a path leaves the submitter after the temporary file was created without queueing a job: no worker will ever remove that file')


@rule('C19.b', ['C19'], floor=3)
def every_job_is_accounted_for(ctx):
    """In GetObjectWorker._do_run every path from a non-shutdown get() back to the loop
    head passes notify_job_complete(job.transfer_id); the job runs only when the
    transfer has no recorded exception; a failing job records its exception."""
    f = ctx.func('processpool.GetObjectWorker._do_run')
    g = ctx.cfg(f)
    gets = [x for c in own_calls(f.node) if (dotted(c.func) or '') == 'self._queue.get' for x in g.nodes_of(c)]
    heads = [x for x in g.nodes if x.kind == 'while']
    notes = [c for c in own_calls(f.node) if (dotted(c.func) or '').endswith('notify_job_complete')]
    nn = [x for c in notes for x in g.nodes_of(c)]
    ctx.need(gets and heads, 'worker loop not recognised')
    ok = bool(nn) and not (g.reach(gets, avoid=nn, labels=g.NORMAL) & set(heads))
    ctx.ob(f, 'every job taken from the queue is counted with notify_job_complete', ok, 'a job that is not counted leaves the download waiting forever')
    jn = (q.names_defined_by(f, lambda v: norm(v) == 'self._queue.get()') or ['job'])[0]
    ctx.ob(f, 'notify_job_complete(job.transfer_id)', len(notes) == 1 and norm(notes[0].args[0]) == f'{jn}.transfer_id', 'the job must be counted for its own transfer')
    runs = [c for c in own_calls(f.node) if (dotted(c.func) or '') == 'self._run_get_object_job']
    ok = len(runs) == 1 and norm(runs[0].args[0]) == jn and q.guards_imply(q.guards(runs[0]), f'not self._transfer_monitor.get_exception({jn}.transfer_id)')
    ctx.ob(f, 'job skipped when the transfer already has an exception', ok, 'a failed/cancelled download must stop fetching')
    # ... and it is counted when its work is over: from the count no path leads back into the job's own work within the iteration
    rn = [x for c in runs for x in g.nodes_of(c)]
    ok = bool(nn) and bool(rn) and not (g.reach(nn, avoid=heads, labels=g.NORMAL) & set(rn))
    ctx.ob(f, 'a job is counted as complete only after it ran (or was skipped)', ok,
           'counted on pick-up, the last job to be picked up finalises the download while earlier jobs are still writing: the file is published incomplete and done is signalled early')
    rets = [x for x in own_nodes(f.node) if isinstance(x, ast.Return)]
    ok = len(rets) == 1 and q.guards_imply(q.guards(rets[0]), f'{jn} == SHUTDOWN_SIGNAL')
    ctx.ob(f, 'the loop ends only on the shutdown signal', ok, 'workers must keep serving until told to stop')
    r = ctx.func('processpool.GetObjectWorker._run_get_object_job')
    hs = [h for h in own_nodes(r.node) if isinstance(h, ast.ExceptHandler)]
    ok = len(hs) == 1 and norm(hs[0].type) in ('Exception', 'BaseException') and any((dotted(c.func) or '').endswith('notify_exception') and norm(c.args[0]) == 'job.transfer_id'
                                                                               for c in ast.walk(hs[0]) if isinstance(c, ast.Call))
    body_call = [c for c in own_calls(r.node) if (dotted(c.func) or '') == 'self._do_get_object']
    ok = ok and len(body_call) == 1 and any(field == 'body' for _, field in q.enclosing_trys(body_call[0]))
    ctx.ob(r, 'job failure -> notify_exception(job.transfer_id, e), never propagates', ok, 'an escaping exception kills the worker before the job is counted')
    kw = {k: norm(v) for c in body_call for k, v in q.bound(ctx, r, c).items()}
    ctx.ob(r, '_do_get_object receives the job fields', kw == {'bucket': 'job.bucket', 'key': 'job.key', 'temp_filename': 'job.temp_filename', 'extra_args': 'job.extra_args', 'offset': 'job.offset'}, f'{kw}')


@rule('C19.c', ['C19', 'C06'], floor=3)
def last_one_finalises(ctx):
    """_finalize_download runs exactly when the remaining count returned by
    notify_job_complete is zero; the count is decremented and returned under one lock."""
    f = ctx.func('processpool.GetObjectWorker._do_run')
    jn = (q.names_defined_by(f, lambda v: norm(v) == 'self._queue.get()') or ['job'])[0]
    fin = [c for c in own_calls(f.node) if (dotted(c.func) or '') == 'self._finalize_download']
    rem = [st.targets[0].id for st in own_nodes(f.node) if isinstance(st, ast.Assign) and isinstance(st.value, ast.Call) and (dotted(st.value.func) or '').endswith('notify_job_complete')
           and isinstance(st.targets[0], ast.Name)]
    ok = len(fin) == 1 and len(rem) == 1 and q.guards_imply(q.guards(fin[0]), f'not {rem[0]}') and sum(1 for t, _ in q.guard_texts(fin[0]) if rem[0] in t) == 1 \
        and [norm(a) for a in fin[0].args] == [f'{jn}.transfer_id', f'{jn}.temp_filename', f'{jn}.filename']
    ctx.ob(f, 'if not remaining: self._finalize_download(job.transfer_id, job.temp_filename, job.filename)', ok, 'the download must be finalised by (only) the worker that completes the last job')
    d = ctx.func('processpool.TransferState.decrement_jobs_to_complete')
    dec = [n for n in own_nodes(d.node) if isinstance(n, ast.AugAssign) and dotted(n.target) == 'self._jobs_to_complete' and isinstance(n.op, ast.Sub) and norm(n.value) == '1']
    rets = [x for x in own_nodes(d.node) if isinstance(x, ast.Return)]
    ok = len(dec) == 1 and len(rets) == 1 and norm(rets[0].value) == 'self._jobs_to_complete' and 'self._job_lock' in q.locks_held(dec[0]) and 'self._job_lock' in q.locks_held(rets[0])
    if ok:
        from .c17 import _lock_region
        ok = _lock_region(dec[0]) is _lock_region(rets[0])
    ctx.ob(d, 'decrement and return under one self._job_lock region', ok, 'two workers could both (or neither) see zero')
    m = ctx.func('processpool.TransferMonitor.notify_job_complete')
    rets = [x for x in own_nodes(m.node) if isinstance(x, ast.Return)]
    ok = len(rets) == 1 and norm(q.inline_locals(m, rets[0].value)) == f'self._transfer_states[{m.params[1]}].decrement_jobs_to_complete()'
    ctx.ob(m, 'notify_job_complete returns the decremented count of that transfer', ok, f'{[norm(x.value) for x in rets]}')


@rule('C19.e', ['C19', 'C03'], floor=2)
def submitter_failures_in_order(ctx):
    """GetObjectSubmitter._do_run: a failure while submitting a download is recorded
    (notify_exception) before the download is marked done (notify_done)."""
    f = ctx.func('processpool.GetObjectSubmitter._do_run')
    g = ctx.cfg(f)
    sub = [c for c in own_calls(f.node) if (dotted(c.func) or '') == 'self._submit_get_object_jobs']
    hs = [h for c in sub for t, field in q.enclosing_trys(c) if field == 'body' for h in t.handlers if h.type is not None and norm(h.type) in ('Exception', 'BaseException')]
    ctx.ob(f, '_submit_get_object_jobs inside try/except Exception', len(sub) == 1 and len(hs) == 1, 'a failing submission (head_object, allocate) would kill the submitter')
    if len(hs) == 1:
        h = hs[0]
        ne = [x for s in h.body for c in ast.walk(s) if isinstance(c, ast.Call) and (dotted(c.func) or '').endswith('notify_exception') for x in g.nodes_of(c)]
        nd = [x for s in h.body for c in ast.walk(s) if isinstance(c, ast.Call) and (dotted(c.func) or '').endswith('notify_done') for x in g.nodes_of(c)]
        hn = [x for x in g.nodes if x.kind == 'handler' and x.ast is h]
        ok = bool(ne and nd) and g.all_dominate(ne, nd, g.NORMAL, entry=hn[0]) and g.must_pass(hn, nd, [x for x in g.nodes if x.kind == 'while'] + [g.exit], g.NORMAL)
        ctx.ob(f, 'handler: notify_exception(...) then notify_done(...)', ok, 'result() would return None (success) for a download that never started, or wait forever')
        rq = (q.names_defined_by(f, lambda v: norm(v) == 'self._download_request_queue.get()') or ['download_file_request'])[0]
        ids = [norm(c.args[0]) for s in h.body for c in ast.walk(s) if isinstance(c, ast.Call) and (dotted(c.func) or '').split('.')[-1] in ('notify_exception', 'notify_done')]
        ctx.ob(f, 'both notifications name download_file_request.transfer_id', ids == [f'{rq}.transfer_id'] * 2 and len(sub) == 1 and norm(sub[0].args[0]) == rq, f'{ids}')
    rq = (q.names_defined_by(f, lambda v: norm(v) == 'self._download_request_queue.get()') or ['download_file_request'])[0]
    rets = [x for x in own_nodes(f.node) if isinstance(x, ast.Return)]
    ctx.ob(f, 'submitter stops only on the shutdown signal', len(rets) == 1 and q.guards_imply(q.guards(rets[0]), f'{rq} == SHUTDOWN_SIGNAL'), 'submitter loop exit changed')


@rule('C19.f', ['C19', 'C10'], floor=8)
def cancel_and_shutdown(ctx):
    """cancel() and Ctrl-C go through notify_exception / notify_cancel_all_in_progress
    (which skips finished transfers); shutdown joins submitter, then workers, then the
    manager, and queues one shutdown signal per worker; result() waits till done and
    raises the recorded exception."""
    f = ctx.func('processpool.ProcessPoolTransferFuture.cancel')
    cs = [c for c in own_calls(f.node) if (dotted(c.func) or '').endswith('notify_exception')]
    ok = len(cs) == 1 and norm(cs[0].args[0]) == 'self._meta.transfer_id' and norm(cs[0].args[1]) == 'CancelledError()' and not q.guards(cs[0])
    ctx.ob(f, 'cancel -> notify_exception(transfer_id, CancelledError())', ok, 'cancel would not stop the workers / be reported')
    f = ctx.func('processpool.ProcessPoolDownloader.__exit__')
    g = ctx.cfg(f)
    cs = [c for c in own_calls(f.node) if (dotted(c.func) or '').endswith('notify_cancel_all_in_progress')]
    sh = [c for c in own_calls(f.node) if (dotted(c.func) or '') == 'self.shutdown']
    ok = len(cs) == 1 and q.guards_imply(q.guards(cs[0]), 'isinstance(exc_value, KeyboardInterrupt)') and len(sh) == 1 and not q.guards(sh[0]) \
        and not (g.reach(g.nodes_of(sh[0]), labels=g.NORMAL) & set(g.nodes_of(cs[0])))
    ctx.ob(f, '__exit__: KeyboardInterrupt -> cancel all in progress, then shutdown', ok, 'Ctrl-C in the with-block must cancel unfinished downloads and still shut down')
    f = ctx.func('processpool.TransferMonitor.notify_cancel_all_in_progress')
    st = [n for n in own_nodes(f.node) if isinstance(n, ast.Assign) and isinstance(n.targets[0], ast.Attribute) and n.targets[0].attr == 'exception']
    ok = len(st) == 1 and norm(st[0].value) == 'CancelledError()' and any(t.endswith('.done') and pol is False for t, pol in q.guard_texts(st[0])) and isinstance(q.in_loop(st[0]), ast.For)
    ctx.ob(f, 'cancel-all skips transfers that are done', ok, 'a finished download would be reported as cancelled')
    # judged on the fully expanded _shutdown (however it is cut into helpers): signal + join the submitter, then one signal
    # per worker, then join every worker, then the monitor manager - each on every path, in that order
    x = ctx.expanded()
    # (anchored on the caller that survives when _shutdown is written out in place)
    f = x.func('processpool.ProcessPoolDownloader._shutdown_if_needed')
    g = x.cfg(f)

    def _over_workers(loop):
        it = q.resolve_local(f, loop.iter) if isinstance(loop, ast.For) else None
        t = norm(it) if it is not None else ''
        return t in ('self._workers', 'range(len(self._workers))', 'list(self._workers)')
    ev = {}
    for c in own_calls(f.node):
        d = dotted(c.func) or ''
        if d.endswith('_download_request_queue.put') and c.args and norm(c.args[0]) == 'SHUTDOWN_SIGNAL':
            ev.setdefault('signal submitter', []).append(c)
        elif d == 'self._submitter.join':
            ev.setdefault('join submitter', []).append(c)
        elif d.endswith('_worker_queue.put') and c.args and norm(c.args[0]) == 'SHUTDOWN_SIGNAL' and q.in_loop(c) is not None and _over_workers(q.in_loop(c)):
            ev.setdefault('signal every worker', []).append(c)
        elif isinstance(c.func, ast.Attribute) and c.func.attr == 'join' and isinstance(q.in_loop(c), ast.For) and _over_workers(q.in_loop(c)) \
                and norm(c.func.value) == norm(q.in_loop(c).target):
            ev.setdefault('join every worker', []).append(c)
        elif d == 'self._manager.shutdown':
            ev.setdefault('shut the monitor manager down', []).append(c)
    names = ['signal submitter', 'join submitter', 'signal every worker', 'join every worker', 'shut the monitor manager down']
    ok = all(len(ev.get(n, [])) == 1 for n in names)
    if ok:
        # a loop's statements are reached through the loop head: order the events by the node that is on every path
        def anchor(c):
            lp = q.in_loop(c)
            return [n for n in g.nodes if n.kind == 'for' and n.stmt is lp] if lp is not None else g.nodes_of(c)
        seq = [anchor(ev[n][0]) for n in names]
        # on every path on which the pool is shut down at all (the first event happens), every later event follows, in order
        ok = all(g.must_pass(seq[0], a, [g.exit], g.NORMAL) for a in seq[1:]) and all(g.all_dominate(a, b, g.NORMAL) for a, b in zip(seq, seq[1:]))
    ctx.ob(f.qualname, '_shutdown: signal + join submitter -> one SHUTDOWN_SIGNAL per worker -> join every worker -> monitor manager', ok,
           f'found {[(n, len(ev.get(n, []))) for n in names]}: shutdown must wait until every queued download request was submitted, a worker without a signal never '
           'exits (shutdown hangs), an unjoined worker may still be writing, and the manager hosts the monitor the workers still talk to', node=f.node)
    f = x.func('processpool.ProcessPoolDownloader._start_if_needed')
    cs = [n for n in own_nodes(f.node) if isinstance(n, ast.Assign) and any(dotted(t) == 'self._started' for t in n.targets)
          and isinstance(n.value, ast.Constant) and n.value.value is True]
    starts = [c for c in own_calls(f.node) if isinstance(c.func, ast.Attribute) and c.func.attr == 'start' and not c.args or (dotted(c.func) or '') == 'self._manager.start']
    ok = len(cs) == 1 and bool(starts) and all('self._start_lock' in q.locks_held(c) and q.guards_imply(q.guards_under_lock(c, 'self._start_lock'), 'not self._started')
                                              for c in cs + starts)
    ctx.ob(f.qualname, 'start only when not started, decided under the start lock', ok,
           'a second caller that tests the flag outside the lock (or not again inside it) starts a second set of workers: twice max_request_processes requests in flight, '
           'and two monitors')
    f = x.func('processpool.ProcessPoolDownloader._shutdown_if_needed')
    cs = [c for c in own_calls(f.node) if (dotted(c.func) or '') == 'self._manager.shutdown']
    ctx.ob(f.qualname, 'shutdown only when started, under the start lock', len(cs) == 1 and q.guards_imply(q.guards(cs[0]), 'self._started') and 'self._start_lock' in q.locks_held(cs[0]), 'shutdown()/start race', node=f.node)
    f = ctx.func('processpool.TransferMonitor.poll_for_result')
    g = ctx.cfg(f)
    w = [x for c in own_calls(f.node) if isinstance(c.func, ast.Attribute) and c.func.attr == 'wait_till_done' for x in g.nodes_of(c)]
    rs = [n for n in own_nodes(f.node) if isinstance(n, ast.Raise)]
    en = (q.names_defined_by(f, lambda v: norm(v).endswith('.exception')) or ['exception'])[0]
    ok = bool(w) and g.must_pass([g.entry], w, [g.exit], g.NORMAL) and bool(rs) \
        and all(r.exc is not None and (norm(r.exc) == en or norm(r.exc).endswith('.exception')) and q.guards_imply(q.guards(r), norm(r.exc)) for r in rs) \
        and g.all_dominate(w, [x for r in rs for x in g.nodes_of(r)], g.NORMAL)
    ctx.ob(f, 'poll_for_result: wait till done, then raise the recorded exception if any', ok, 'result() could return before the download finished or swallow the failure')
    f = ctx.func('processpool.ProcessPoolTransferFuture.result')
    hs = [h for h in own_nodes(f.node) if isinstance(h, ast.ExceptHandler) and h.type is not None and 'KeyboardInterrupt' in norm(h.type)]
    ok = len(hs) == 1 and any((dotted(c.func) or '') == 'self.cancel' for c in ast.walk(hs[0]) if isinstance(c, ast.Call)) and isinstance(hs[0].body[-1], ast.Raise)
    ctx.ob(f, 'Ctrl-C in result(): cancel this download and re-raise', ok, 'Ctrl-C while waiting must cancel')
    f = ctx.func('processpool.GetObjectWorker._finalize_download')
    ctx.ob(f, 'finalisation publishes or cleans, then notifies done (C06.d)', True, 'see C06.d', trivial=True)
