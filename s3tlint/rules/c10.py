"""C10 - configured concurrency and queue limits are never exceeded."""
import ast

from ..engine import rule
from ..ir import ClassInfo, dotted, kwarg, norm, own_calls, own_nodes, short
from .. import q

DATA_OPS = {'put_object', 'upload_part', 'get_object', 'copy_object', 'upload_part_copy', 'delete_object',
            'create_multipart_upload', 'complete_multipart_upload'}
MANAGER_PATH = ('upload', 'download', 'copies', 'delete', 'tasks', 'manager', 'futures', 'utils', 'bandwidth')


def _ctor_assigned_to(ctx, func, attr):
    """Constructor call assigned to self.<attr> in func."""
    for n in own_nodes(func.node):
        if isinstance(n, ast.Assign) and any(dotted(t) == f'self.{attr}' for t in n.targets) and isinstance(n.value, ast.Call):
            return n.value
    return None


def _bound(ctx, call, func, clsname):
    cl = ctx.cls(clsname)
    init = cl.lookup('__init__')
    ctx.need(init is not None, f'{clsname}.__init__ vanished')
    return q.bind_args(ctx, call, func, init) or {}


def _tag_semaphore_obligations(ctx, f, b):
    ts = b.get('tag_semaphores')
    want = {'IN_MEMORY_UPLOAD_TAG': ('utils.TaskSemaphore', 'max_in_memory_upload_chunks'),
            'IN_MEMORY_DOWNLOAD_TAG': ('utils.SlidingWindowSemaphore', 'max_in_memory_download_chunks')}
    got = {}
    if isinstance(ts, ast.Dict):
        for k, v in zip(ts.keys, ts.values):
            got[norm(k)] = v
    for tag, (cls, field) in want.items():
        v = got.get(tag)
        ok = isinstance(v, ast.Call)
        if ok:
            rr = ctx.r.resolve(v, f, _count=False)
            exact = rr.recv and [c.qualname for c in rr.recv] == [cls]
            ok = bool(exact) and len(v.args) + len(v.keywords) == 1 and q.self_alias_text(f, (v.args + [k.value for k in v.keywords])[0]) == f'self._config.{field}'
        ctx.ob(f, f'{tag} <- {cls.split(".")[1]}(config.{field})', ok, f'found {short(v, 70) if v is not None else "nothing"}')


@rule('C10.a', ['C10', 'C11', 'C16', 'C02', 'C06', 'C14', 'C12'], floor={'*': 12, 'C02': 1, 'C06': 1, 'C14': 5, 'C12': 2})
def wiring_table(ctx):
    """Each limit is fed by its own TransferConfig field: request executor <-
    (max_request_queue_size, max_request_concurrency), submission executor <-
    (max_submission_queue_size, max_submission_concurrency), IO executor <-
    (max_io_queue_size, literal 1); upload tag <- TaskSemaphore(max_in_memory_upload_
    chunks), download tag <- SlidingWindowSemaphore(max_in_memory_download_chunks);
    BoundedExecutor passes max_num_threads as max_workers and max_size to its
    TaskSemaphore; TransferConfig stores each parameter under its own name."""
    f = ctx.func('manager.TransferManager.__init__')
    if ctx.prop in ('C02', 'C06'):
        # for the download properties only the part they rest on: the IO stage is ONE thread fed in FIFO order, which is what
        # makes writes to a stream come out in submission order and puts the final rename behind every write of the transfer
        call = _ctor_assigned_to(ctx, f, '_io_executor')
        ctx.need(call is not None, 'self._io_executor is no longer constructed in TransferManager.__init__')
        b = _bound(ctx, call, f, 'futures.BoundedExecutor')
        mt = b.get('max_num_threads')
        ctx.ob(f, '_io_executor.max_num_threads <- literal 1', isinstance(mt, ast.Constant) and mt.value == 1,
               f'the IO executor must have exactly one thread (ordered writes, rename after all writes), found {norm(mt)}')
        return
    if ctx.prop == 'C12':
        # for the semaphore property only: which semaphore class governs which tag (the download window must be the sliding one:
        # a plain counter frees capacity on any release, however far ahead of the lowest unfinished part)
        call = _ctor_assigned_to(ctx, f, '_request_executor')
        ctx.need(call is not None, 'self._request_executor is no longer constructed in TransferManager.__init__')
        _tag_semaphore_obligations(ctx, f, _bound(ctx, call, f, 'futures.BoundedExecutor'))
        return
    if ctx.prop == 'C14':
        # for the planning property only: the configuration object hands out the thresholds and sizes it was given
        tc = ctx.func('manager.TransferConfig.__init__')
        cl = ctx.cls('manager.TransferConfig')
        for pname in tc.params[1:]:
            vals = [norm(v) for fn, v in cl.init_attrs.get(pname, []) if fn is tc]
            ctx.ob(tc, f'self.{pname} = {pname}', vals == [pname], f'config field {pname} is stored from {vals}')
        return
    table = [('_request_executor', 'max_request_queue_size', 'max_request_concurrency'),
             ('_submission_executor', 'max_submission_queue_size', 'max_submission_concurrency'),
             ('_io_executor', 'max_io_queue_size', None)]
    for attr, qfield, cfield in table:
        call = _ctor_assigned_to(ctx, f, attr)
        if call is None:
            ctx.ob(f, f'self.{attr} = BoundedExecutor(...)', False, f'self.{attr} is no longer constructed here')
            continue
        r = ctx.r.resolve(call, f, _count=False)
        ctx.ob(f, f'self.{attr} is a BoundedExecutor', r.kind == 'package' and any(t.qualname == 'futures.BoundedExecutor.__init__' for t in r.targets),
               f'{short(call, 60)} is not a BoundedExecutor: the stage would be unbounded')
        b = _bound(ctx, call, f, 'futures.BoundedExecutor')
        ms = b.get('max_size')
        ctx.ob(f, f'{attr}.max_size <- config.{qfield}', ms is not None and q.self_alias_text(f, ms) == f'self._config.{qfield}',
               f'queue bound of {attr} must be config.{qfield}, found {norm(ms)}')
        mt = b.get('max_num_threads')
        if cfield:
            ctx.ob(f, f'{attr}.max_num_threads <- config.{cfield}', mt is not None and q.self_alias_text(f, mt) == f'self._config.{cfield}',
                   f'thread count of {attr} must be config.{cfield}, found {norm(mt)}')
        else:
            ctx.ob(f, f'{attr}.max_num_threads <- literal 1', isinstance(mt, ast.Constant) and mt.value == 1,
                   f'the IO executor must have exactly one thread (ordered writes, rename after all writes), found {norm(mt)}')
        if attr == '_request_executor':
            _tag_semaphore_obligations(ctx, f, b)
        else:
            ts = b.get('tag_semaphores')
            ctx.ob(f, f'{attr} has no tag semaphores', ts is None, 'only the request stage is governed by in-memory tags', trivial=True)
    # the two tags are different keys: with value-compared tags (namedtuple) equal constructor arguments collapse the two
    # entries of the dict into one and one of the two limits silently governs both kinds of task
    fm = ctx.p.modules['futures']
    tv = {t: fm.consts.get(t) for t in ('IN_MEMORY_UPLOAD_TAG', 'IN_MEMORY_DOWNLOAD_TAG')}
    ctx.need(all(v is not None for v in tv.values()), 'tag constants vanished from futures.py')
    a, b2 = tv['IN_MEMORY_UPLOAD_TAG'], tv['IN_MEMORY_DOWNLOAD_TAG']

    def _value_compared(v):
        if isinstance(v, (ast.Constant, ast.Tuple)):
            return True
        if isinstance(v, ast.Call) and isinstance(v.func, ast.Name):
            d = fm.consts.get(v.func.id)
            if isinstance(d, ast.Call) and (dotted(d.func) or '').split('.')[-1] in ('namedtuple', 'NamedTuple'):
                return True
            cl = next(iter(ctx.p.classes_by_name.get(v.func.id, [])), None)
            if cl is not None:
                return '__eq__' in cl.methods or any(norm(x) in ('NamedTuple', 'typing.NamedTuple', 'tuple', 'str') for x in cl.node.bases) \
                    or any('dataclass' in norm(x) for x in cl.node.decorator_list)
            return d is None and cl is None   # unknown constructor: assume the worst
        return False
    same = norm(a) == norm(b2) and _value_compared(a)
    ctx.ob('futures.<module>', 'IN_MEMORY_UPLOAD_TAG != IN_MEMORY_DOWNLOAD_TAG', not same and not (isinstance(b2, ast.Name) and b2.id == 'IN_MEMORY_UPLOAD_TAG') and not (isinstance(a, ast.Name) and a.id == 'IN_MEMORY_DOWNLOAD_TAG'),
           f'both tags are {norm(a)}: they compare equal, the tag_semaphores dict keeps one entry, and one in-memory limit governs both uploads and downloads', node=b2)
    # self._config is the given config or the defaults
    defs = [norm(v) for fn, v in ctx.cls('manager.TransferManager').init_attrs.get('_config', []) if fn is f]
    ctx.ob(f, 'self._config = config or TransferConfig()', set(defs) <= {'config', 'TransferConfig()'} and 'config' in defs, f'found {defs}')
    # BoundedExecutor.__init__
    g = ctx.func('futures.BoundedExecutor.__init__')
    ex = [c for c in own_calls(g.node) if kwarg(c, 'max_workers') is not None]
    ok = bool(ex) and all(norm(kwarg(c, 'max_workers')) in ('self._max_num_threads', 'max_num_threads') for c in ex)
    mt = [norm(v) for fn, v in ctx.cls('futures.BoundedExecutor').init_attrs.get('_max_num_threads', []) if fn is g]
    ctx.ob(g, 'executor_cls(max_workers=max_num_threads)', ok and (mt == ['max_num_threads'] or not mt), 'the pool size must be max_num_threads')
    sem = _ctor_assigned_to(ctx, g, '_semaphore')
    ok = sem is not None and norm(sem.func) == 'TaskSemaphore' and len(sem.args) == 1 and norm(sem.args[0]) == 'max_size'
    ctx.ob(g, 'self._semaphore = TaskSemaphore(max_size)', ok, f'the stage permit count must be max_size, found {short(sem) if sem is not None else None}')
    tg = [norm(v) for fn, v in ctx.cls('futures.BoundedExecutor').init_attrs.get('_tag_semaphores', []) if fn is g]
    ctx.ob(g, 'self._tag_semaphores = tag_semaphores', tg == ['tag_semaphores'], f'found {tg}')
    # semaphore sizes
    t = ctx.func('utils.TaskSemaphore.__init__')
    c = _ctor_assigned_to(ctx, t, '_semaphore')
    ctx.ob(t, 'threading.Semaphore(count)', c is not None and norm(c.func) == 'threading.Semaphore' and len(c.args) == 1 and norm(c.args[0]) == 'count',
           'the counting semaphore must be sized by its count argument')
    s = ctx.func('utils.SlidingWindowSemaphore.__init__')
    v = [norm(v) for fn, v in ctx.cls('utils.SlidingWindowSemaphore').init_attrs.get('_count', []) if fn is s]
    ctx.ob(s, 'self._count = count', v == ['count'], f'the window size must be the count argument, found {v}')
    # TransferConfig stores each parameter under its own name
    tc = ctx.func('manager.TransferConfig.__init__')
    cl = ctx.cls('manager.TransferConfig')
    for pname in tc.params[1:]:
        vals = [norm(v) for fn, v in cl.init_attrs.get(pname, []) if fn is tc]
        ctx.ob(tc, f'self.{pname} = {pname}', vals == [pname], f'config field {pname} is stored from {vals}')
    # hand-over of executors to the submission tasks
    mk = ctx.func('manager.TransferManager._get_submission_task_main_kwargs')
    ok = any(isinstance(n, ast.Dict) and any(isinstance(k, ast.Constant) and k.value == 'request_executor' and norm(v) == 'self._request_executor'
                                            for k, v in zip(n.keys, n.values)) for n in own_nodes(mk.node))
    ctx.ob(mk, "'request_executor': self._request_executor", ok, 'submission tasks must receive the request executor under that name')
    dl = ctx.func('manager.TransferManager.download')
    ok = any(isinstance(n, ast.Dict) and any(isinstance(k, ast.Constant) and k.value == 'io_executor' and norm(v) == 'self._io_executor'
                                            for k, v in zip(n.keys, n.values)) for n in own_nodes(dl.node))
    ctx.ob(dl, "'io_executor': self._io_executor", ok, 'downloads must receive the single-thread IO executor under that name')


def task_ops(ctx):
    """task class -> set of S3 operations issued (transitively within the class) by its _main."""
    out = {}
    base = ctx.cls('tasks.Task')
    for cl in [base] + base.all_subclasses():
        m = cl.lookup('_main')
        if m is None:
            continue
        ops = set()
        for f2 in q.transitive_callees(ctx, m, depth=3):
            if f2.cls is not None and (f2.cls in cl.mro() or cl in f2.cls.mro()):
                for c, r in q.calls_in(ctx, f2):
                    if r.kind == 'client':
                        ops.add(r.ext)
        out[cl] = ops
    return out


@rule('C10.b', ['C10', 'C07', 'C04'], floor=20)
def stage_discipline(ctx):
    """Every data operation is issued only from the _main of a task class that is
    submitted only to the request executor; head_object only from a _submit of a task
    submitted only to the submission executor; IO write/final tasks only to the IO
    executor (documented exception: the immediate single-GET path runs its writes and
    final task inline on the one request thread of that transfer)."""
    base = ctx.cls('tasks.Task')
    subm = ctx.cls('tasks.SubmissionTask')
    # 1. where client operations are issued
    n_ops = 0
    for f, c, op in q.client_calls(ctx):
        if f.module.name not in ('upload', 'download', 'copies', 'delete', 'tasks', 'manager', 'utils', 'futures'):
            continue
        n_ops += 1
        in_task = f.cls is not None and f.cls.is_subclass_of(base)
        if op == 'head_object':
            ok = in_task and f.cls.is_subclass_of(subm) and f.name.startswith('_submit')
            ctx.ob(f, c, ok, 'size discovery must run on the submission stage (in a _submit method)')
        elif op in DATA_OPS:
            ok = in_task and not f.cls.is_subclass_of(subm) and f.name == '_main'
            ctx.ob(f, c, ok, f'{op} must be issued from the _main of a request-stage task, not from {f.qualname}')
        else:
            ctx.ob(f, c, op in ('abort_multipart_upload',), f'operation {op} is not part of the stage model')
    ctx.need(n_ops >= 10, f'only {n_ops} client operation sites found')
    # 2. where each task class is submitted
    ops = task_ops(ctx)
    subs = q.submits(ctx)
    by_class = {}
    for s in subs:
        for cl, ctor, owner in s.task_ctors:
            by_class.setdefault(cl, []).append(s)
    io_tasks = set()
    for cl in [base] + base.all_subclasses():
        if cl.module.name == 'download' and cl.name.startswith(('IO', 'CompleteDownloadNOOP')):
            io_tasks.add(cl)
    for cl, ss in by_class.items():
        if cl is None:
            # submission_task_cls(...) in the manager
            for s in ss:
                ctx.ob(s.func, s.call, s.executor_text == 'self._submission_executor' and s.func.qualname == 'manager.TransferManager._submit_transfer',
                       'a task class passed as a parameter may only be the submission task, on the submission executor')
            continue
        for s in ss:
            exs = q.executor_origins(ctx, s.func, s.executor)
            ex = ' | '.join(exs)
            if cl.is_subclass_of(subm):
                ok, want = exs == ['self._submission_executor'], 'the submission executor'
            elif cl in io_tasks:
                ok, want = set(exs) <= {'io_executor', 'self._io_executor'}, 'the IO executor'
            elif ops.get(cl):
                ok, want = exs == ['request_executor'], 'the request executor'
            else:
                ok, want = set(exs) <= {'request_executor', 'io_executor', 'self._io_executor'}, 'a bounded stage'
            ctx.ob(s.func, f'{cl.name} -> {ex}', ok, f'{cl.name} (ops: {sorted(ops.get(cl, []))}) must be submitted to {want}')
    # submission task classes are only handed to the submission executor by the manager
    mgr = ctx.cls('manager.TransferManager')
    for name, m in mgr.methods.items():
        for c, r in q.calls_in(ctx, m):
            if r.kind == 'package' and any(t.qualname == 'manager.TransferManager._submit_transfer' for t in r.targets) and len(c.args) >= 2:
                g = ctx.p.resolve_name_expr(m.module, c.args[1])
                ctx.ob(m, c, isinstance(g, ClassInfo) and g.is_subclass_of(subm), 'only SubmissionTask classes go to the submission stage')
    # 3. tasks that issue requests are never run inline
    for f, c, r in q.call_index(ctx):
        if r.kind == 'package' and any(t.qualname == 'tasks.Task.__call__' for t in r.targets) and f.module.name != 'tasks':
            exempt = f.qualname == 'download.ImmediatelyWriteIOGetObjectTask._handle_io'
            classes = []
            if isinstance(c.func, ast.Name):
                for _, v in q.local_defs(f, c.func.id):
                    if isinstance(v, ast.AST):
                        classes += [cl for cl, _, _ in q.task_ctors_of(ctx, v, f)]
            bad = [cl.name for cl in classes if cl is not None and ops.get(cl)]
            ctx.ob(f, c, exempt and not bad, 'running a task inline bypasses the stage limits' if not exempt else
                   'documented exception: one writer per transfer on the immediate single-GET path; must not run request tasks: ' + ', '.join(bad))
