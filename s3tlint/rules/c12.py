"""C12 - semaphores: sliding-window semantics and permit conservation."""
import ast

from ..engine import rule
from ..ir import ClassInfo, dotted, kwarg, norm, own_calls, own_nodes, short
from .. import q
from .c18 import MUTATORS

SWS = 'utils.SlidingWindowSemaphore'
STATE = ('_count', '_tag_sequences', '_lowest_sequence', '_pending_release')


def _self_aliases(func):
    """locals bound to an expression rooted at self.<state> (aliases of containers)."""
    out = set()
    for n in own_nodes(func.node):
        if isinstance(n, ast.Assign) and len(n.targets) == 1 and isinstance(n.targets[0], ast.Name):
            if any(isinstance(x, ast.Attribute) and isinstance(x.value, ast.Name) and x.value.id == 'self' and x.attr in STATE for x in ast.walk(n.value)):
                if not isinstance(n.value, (ast.Compare, ast.Constant)):
                    out.add(n.targets[0].id)
    return out


def _mutates_state(node, aliases):
    """Does this CFG node's AST piece store into self.* state (or an alias container)?"""
    a = node.ast
    if a is None or node.kind not in ('stmt',):
        return False
    def rooted(e):
        while isinstance(e, (ast.Attribute, ast.Subscript)):
            if isinstance(e, ast.Attribute) and isinstance(e.value, ast.Name) and e.value.id == 'self':
                return True
            e = e.value
        return isinstance(e, ast.Name) and e.id in aliases
    if isinstance(a, ast.Assign):
        return any(isinstance(t, (ast.Attribute, ast.Subscript)) and rooted(t) for t in a.targets)
    if isinstance(a, ast.AugAssign):
        return isinstance(a.target, (ast.Attribute, ast.Subscript)) and rooted(a.target)
    for c in ast.walk(a):
        if isinstance(c, ast.Call) and isinstance(c.func, ast.Attribute) and c.func.attr in MUTATORS and rooted(c.func.value):
            return True
    return False


@rule('C12.b', ['C12'], floor=2)
def rejected_release_changes_nothing(ctx):
    """On every path of SlidingWindowSemaphore.release that ends in raise ValueError no
    store to the semaphore's state (attribute/subscript store, append/pop/sort/
    setdefault on a state container or an alias of one) occurs."""
    f = ctx.func(f'{SWS}.release')
    g = ctx.cfg(f)
    aliases = _self_aliases(f)
    raises = [n for n in g.nodes if isinstance(n.ast, ast.Raise) and n.ast.exc is not None and 'ValueError' in norm(n.ast.exc)]
    ctx.need(raises, 'release no longer rejects anything with ValueError')
    muts = [n for n in g.nodes if _mutates_state(n, aliases)]
    ctx.need(muts, 'no state mutation recognised in release')
    for rn in raises:
        # mutating nodes from which the raise is reachable and which are reachable from entry
        bad = [m for m in muts if rn in g.reach([m], labels=g.NORMAL) and m in g.reach([g.entry], labels=g.NORMAL, include_src=True)]
        ctx.ob(f, rn.ast, not bad, 'a rejected release must leave the state unchanged, but this path first executes: '
               + ', '.join(short(m.ast, 50) for m in bad[:2]))
    # the two rejections exist: unknown tag, and unknown/never-issued token
    texts = ' '.join(norm(r.ast.exc) for r in raises)
    tagp, tokp = (f.params + [None, None, None])[1:3]

    def _unknown_tag_guard(r):
        for e, pol in q.guards(r):
            if not isinstance(e, ast.Compare) or len(e.ops) != 1:
                continue
            op, l, rr = e.ops[0], e.left, e.comparators[0]
            if isinstance(op, (ast.In, ast.NotIn)) and norm(l) == tagp and norm(rr) == 'self._tag_sequences' and (isinstance(op, ast.NotIn) == pol):
                return True
            if isinstance(op, (ast.Is, ast.IsNot)) and isinstance(rr, ast.Constant) and rr.value is None and (isinstance(op, ast.Is) == pol):
                v = q.resolve_local(f, l)
                if norm(v) == f'self._tag_sequences.get({tagp})':
                    return True
        return False
    ctx.ob(f, 'unknown tag is rejected', any(_unknown_tag_guard(r.ast) for r in raises), 'an unknown tag must raise ValueError')
    # token window check on the branch that queues a pending release: lowest < token and token < next sequence of the tag
    pend = [c for c in own_calls(f.node) if isinstance(c.func, ast.Attribute) and c.func.attr in ('append', 'add', 'insert', 'heappush')
            and any(isinstance(a, ast.Name) and a.id == tokp for a in c.args)]
    ok = bool(pend)
    for c in pend:
        atoms = []
        for e, pol in q.guards(c):
            stack = [(e, pol)]
            while stack:
                x, p_ = stack.pop()
                if isinstance(x, ast.BoolOp) and isinstance(x.op, ast.And) and p_:
                    stack += [(v, True) for v in x.values]
                else:
                    atoms.append((x, p_))
        lo = hi = False
        for x, p_ in atoms:
            if p_ and isinstance(x, ast.Compare) and len(x.ops) == 1 and isinstance(x.ops[0], ast.Lt):
                l_, r_ = norm(q.inline_locals(f, x.left)), norm(q.inline_locals(f, x.comparators[0]))
                if '_lowest_sequence' in l_ and norm(x.comparators[0]) == tokp:
                    lo = True
                if norm(x.left) == tokp and '_tag_sequences' in r_:
                    hi = True
        ok = ok and lo and hi
    ctx.ob(f, 'pending release only for lowest < token < next sequence', ok, 'a never-issued or already-released token must not be queued as pending')


@rule('C12.c', ['C12', 'C11'], floor=10)
def bookkeeping_under_lock(ctx):
    """Every read or write of _count/_tag_sequences/_lowest_sequence/_pending_release in
    SlidingWindowSemaphore (outside __init__) lies inside a region holding the
    condition / its lock, and the condition is built on that same lock."""
    cl = ctx.cls(SWS)
    n = 0
    for name, m in cl.methods.items():
        if m.name == '__init__':
            continue
        for x in own_nodes(m.node):
            if isinstance(x, ast.Attribute) and isinstance(x.value, ast.Name) and x.value.id == 'self' and x.attr in STATE:
                held = q.locks_held(x)
                n += 1
                ctx.ob(m, f'{m.name}: self.{x.attr} @ {short(q_stmt(x), 50)}', bool({'self._condition', 'self._lock'} & set(held)),
                       f'self.{x.attr} accessed without the semaphore lock (held={held}): counts can be lost under concurrent release/acquire')
    ctx.need(n >= 10, f'only {n} accesses of semaphore state found')
    init = cl.methods.get('__init__')
    conds = [v for fn, v in cl.init_attrs.get('_condition', []) if fn is init]
    ok = len(conds) == 1 and isinstance(conds[0], ast.Call) and norm(conds[0].func) == 'threading.Condition' and conds[0].args and norm(conds[0].args[0]) == 'self._lock'
    ctx.ob(init, 'self._condition = threading.Condition(self._lock)', ok, 'the condition must share the lock that guards the counters')


def q_stmt(node):
    from ..ir import enclosing_stmt
    return enclosing_stmt(node)


@rule('C12.e', ['C12', 'C18'], floor=4)
def semaphores_only_through_executor(ctx):
    """Semaphores are constructed only by TransferManager.__init__ (tag semaphores) and
    BoundedExecutor.__init__ (stage semaphore), and acquired/released only by
    BoundedExecutor.submit - no other acquirer could leak a permit."""
    for f, c, r in q.call_index(ctx):
        if r.kind == 'package' and r.recv and any(isinstance(t, ClassInfo) and t.qualname in ('utils.TaskSemaphore', SWS) for t in r.recv) \
                and any(t.name == '__init__' for t in r.targets) and not (isinstance(c.func, ast.Attribute) and isinstance(c.func.value, ast.Call)):
            ok = f.qualname in ('manager.TransferManager.__init__', 'futures.BoundedExecutor.__init__')
            ctx.ob(f, c, ok, 'a semaphore created elsewhere is not wired to task completion')
        if r.kind == 'package' and any(t.qualname in ('utils.TaskSemaphore.acquire', f'{SWS}.acquire', 'utils.TaskSemaphore.release', f'{SWS}.release') for t in r.targets):
            ctx.ob(f, c, f.qualname == 'futures.BoundedExecutor.submit', 'permits may only be taken by BoundedExecutor.submit (which wires the release to the task future)')
    # release is referenced (as a method value) only in BoundedExecutor.submit
    n = 0
    for f in ctx.p.all_functions():
        if f.module.name not in ('futures', 'manager', 'tasks', 'upload', 'download', 'copies', 'delete', 'utils'):
            continue
        for x in own_nodes(f.node):
            if isinstance(x, ast.Attribute) and x.attr == 'release' and not (isinstance(x._parent, ast.Call) and x._parent.func is x):
                ts = ctx.r.type_of(x.value, f)
                if any(isinstance(t, ClassInfo) and t.qualname.startswith('utils.') and 'Semaphore' in t.qualname for t in ts):
                    n += 1
                    ctx.ob(f, x._parent, f.qualname == 'futures.BoundedExecutor.submit', 'release callbacks are created only by BoundedExecutor.submit')
    ctx.need(n >= 1, 'release callback site not found')
    # sliding window: acquire hands out the next sequence number and decrements under the same region
    f = ctx.func(f'{SWS}.acquire')
    rets = [x for x in own_nodes(f.node) if isinstance(x, ast.Return) and x.value is not None]
    ok = bool(rets) and all(isinstance(x.value, ast.Name) and any('_tag_sequences[tag]' in norm(v) for _, v in q.local_defs(f, x.value.id) if isinstance(v, ast.AST)) for x in rets)
    ctx.ob(f, 'acquire returns the tag\'s next sequence number', ok, 'the token must be the per-tag sequence number read before it is advanced')
    incs = [x for x in own_nodes(f.node) if isinstance(x, ast.AugAssign) and norm(x.target) == 'self._tag_sequences[tag]' and isinstance(x.op, ast.Add) and norm(x.value) == '1']
    # the same advance written from the value read just before: n = self._tag_sequences[tag] ... self._tag_sequences[tag] = n + 1
    # (n has that one definition and nothing stores the entry between the read and the write)
    for x in own_nodes(f.node):
        if isinstance(x, ast.Assign) and len(x.targets) == 1 and norm(x.targets[0]) == 'self._tag_sequences[tag]' and isinstance(x.value, ast.BinOp) \
                and isinstance(x.value.op, ast.Add) and isinstance(x.value.left, ast.Name) and norm(x.value.right) == '1':
            defs = q.local_defs(f, x.value.left.id)
            if len(defs) == 1 and isinstance(defs[0][1], ast.AST) and norm(defs[0][1]) == 'self._tag_sequences[tag]':
                between = [y for y in own_nodes(f.node) if defs[0][0]._pos < getattr(y, '_pos', -1) < x._pos
                           and isinstance(y, (ast.Subscript, ast.Attribute)) and not isinstance(y.ctx, ast.Load) and '_tag_sequences' in norm(y)]
                waits_between = [y for y in own_nodes(f.node) if defs[0][0]._pos < getattr(y, '_pos', -1) < x._pos and isinstance(y, ast.Call)
                                 and isinstance(y.func, ast.Attribute) and y.func.attr == 'wait']
                if not between and not waits_between:
                    incs.append(x)
    decs = [x for x in own_nodes(f.node) if isinstance(x, ast.AugAssign) and norm(x.target) == 'self._count' and isinstance(x.op, ast.Sub) and norm(x.value) == '1']
    g = ctx.cfg(f)
    once = len(incs) == 1 and len(decs) == 1 and not q.in_loop(incs[0]) and not q.in_loop(decs[0]) \
        and g.must_pass([g.entry], g.nodes_of(incs[0]), [g.exit], g.NORMAL) and g.must_pass([g.entry], g.nodes_of(decs[0]), [g.exit], g.NORMAL)
    ctx.ob(f, 'one sequence advance and one count decrement per acquire', once,
           'each acquire must take exactly one unit and issue exactly one token')


@rule('C12.f', ['C12', 'C11'], floor=4)
def sliding_window_state_is_per_tag(ctx):
    """All sliding-window bookkeeping is keyed by the tag: _tag_sequences, _lowest_sequence and
    _pending_release are mappings, and in acquire/release every access to them goes through
    [tag] / .get(tag, ..) / .setdefault(tag, ..) / `tag in`; the drain loop of release compares
    the tag's lowest sequence with the end of the tag's own pending list.  A structure shared
    between tags lets one tag's pending releases block (or be taken for) another's."""
    cl = ctx.cls(SWS)
    init = cl.methods['__init__']
    for attr in ('_tag_sequences', '_lowest_sequence', '_pending_release'):
        vals = [v for fn, v in cl.init_attrs.get(attr, []) if fn is init]
        ok = len(vals) == 1 and (isinstance(vals[0], ast.Dict) and not vals[0].keys or
                                 (isinstance(vals[0], ast.Call) and norm(vals[0].func) in ('defaultdict', 'dict', 'collections.defaultdict')))
        ctx.ob(init, f'self.{attr} is a mapping (by tag)', ok, f'initialised as {[norm(v) for v in vals]}')
        for mname in ('acquire', 'release'):
            m = cl.methods[mname]
            tag = m.params[1]
            for n in own_nodes(m.node):
                if isinstance(n, ast.Attribute) and n.attr == attr and dotted(n) == f'self.{attr}':
                    par = n._parent
                    keyed = (isinstance(par, ast.Subscript) and par.value is n and norm(par.slice) == tag) or \
                            (isinstance(par, ast.Attribute) and par.attr in ('get', 'setdefault', 'pop') and isinstance(par._parent, ast.Call)
                             and par._parent.args and norm(par._parent.args[0]) == tag) or \
                            (isinstance(par, ast.Compare) and len(par.ops) == 1 and isinstance(par.ops[0], (ast.In, ast.NotIn)) and norm(par.left) == tag)
                    ctx.ob(m, f'{mname}: self.{attr} accessed by tag', keyed, f'{short(par, 60)} is not an access keyed by {tag}')


@rule('C12.g', ['C12'], floor=2)
def rejected_acquire_changes_nothing(ctx):
    """On every path of SlidingWindowSemaphore.acquire that ends in `raise NoResourcesAvailable`, nothing
    touches the bookkeeping: no store / mutation, and no subscript *read* of a defaultdict attribute either
    (reading `d[tag]` registers the tag: a later release of a token that was never issued is then accepted)."""
    cl = ctx.cls(SWS)
    f = cl.methods['acquire']
    g = ctx.cfg(f)
    raises = [x for x in own_nodes(f.node) if isinstance(x, ast.Raise) and x.exc is not None and 'NoResourcesAvailable' in norm(x.exc)]
    ctx.need(raises, 'acquire no longer raises NoResourcesAvailable')
    rn = set(n for r in raises for n in g.nodes_of(r))
    init = cl.methods['__init__']
    dd = {a for a, vals in cl.init_attrs.items() for fn, v in vals if fn is init and isinstance(v, ast.Call) and 'defaultdict' in norm(v.func)}
    on_path = [n for n in g.nodes if n not in rn and n.ast is not None and (g.reach([n], labels=g.NORMAL) & rn) and n in g.reach([g.entry], labels=g.NORMAL, include_src=True)]
    bad = []
    for n in on_path:
        root = n.ast
        for x in ast.walk(root) if not isinstance(root, (ast.If, ast.While, ast.For, ast.With, ast.Try)) else ast.walk(getattr(root, 'test', None) or getattr(root, 'iter', None) or ast.Pass()):
            if isinstance(x, ast.Attribute) and isinstance(x.value, ast.Name) and x.value.id == 'self' and x.attr.startswith('_') and x.attr not in ('_condition', '_lock'):
                par = getattr(x, '_parent', None)
                if not isinstance(x.ctx, ast.Load):
                    bad.append((x, 'store'))
                elif isinstance(par, ast.Subscript) and par.value is x and (not isinstance(par.ctx, ast.Load) or x.attr in dd):
                    bad.append((par, 'defaultdict read' if isinstance(par.ctx, ast.Load) else 'store'))
                elif isinstance(par, ast.Attribute) and par.attr in ('append', 'pop', 'setdefault', 'update', 'remove', 'sort', 'clear', 'add'):
                    bad.append((par, 'mutation'))
            if isinstance(x, ast.AugAssign):
                bad.append((x, 'update'))
    for x, kind in bad[:3]:
        ctx.ob(f, x, False, f'{kind} of the semaphore bookkeeping on a path that ends in NoResourcesAvailable: a rejected acquire must leave no trace')
    ctx.ob(f, 'paths to `raise NoResourcesAvailable` leave the bookkeeping untouched', not bad, f'{len(on_path)} statements/tests lie on those paths')
    ctx.ob(init, 'defaultdict attributes of the semaphore', True, f'{sorted(dd)}', trivial=True)


@rule('C12.j', ['C12', 'C11', 'C04'], floor=1)
def acquire_changes_state_only_after_the_tag_was_looked_up(ctx):
    """acquire() can still fail after the capacity test - the tag is used as a dictionary key
    (an unhashable tag raises TypeError).  No bookkeeping may be changed before the first
    look-up with the tag has succeeded: every store to the semaphore's state in acquire is
    dominated by a read of a per-tag table with that tag.  Otherwise a failing acquire
    keeps a unit of capacity (or a token) that nobody will ever release."""
    f = ctx.func(f'{SWS}.acquire')
    g = ctx.cfg(f)
    tagp = f.params[1]
    lookups = [n for n in own_nodes(f.node) if isinstance(n, ast.Subscript) and isinstance(n.ctx, ast.Load) and norm(n.slice) == tagp
               and norm(n.value).startswith('self._') and not isinstance(n._parent, ast.AugAssign)]
    # an augmented assignment X[tag] += 1 reads before it writes: it is its own look-up
    muts = []
    for n in own_nodes(f.node):
        if isinstance(n, ast.AugAssign) and (dotted(n.target) or norm(n.target)).startswith('self._'):
            muts.append(n)
        elif isinstance(n, ast.Assign) and any((dotted(t) or norm(t)).startswith('self._') for t in n.targets):
            muts.append(n)
    ctx.need(muts and lookups, 'acquire: state updates / tag look-ups not recognised')
    ln = [x for l in lookups for x in g.nodes_of(l)]
    for m in muts:
        own_lookup = isinstance(m, ast.AugAssign) and isinstance(m.target, ast.Subscript) and norm(m.target.slice) == tagp
        ok = own_lookup or any(g.dominates(a, b, g.NORMAL) for a in ln for b in g.nodes_of(m) if a is not b)
        ctx.ob(f, f'{short(m, 50)} happens after a look-up with the tag succeeded', ok,
               'this update precedes the first use of the tag as a key: if that use raises (unhashable tag) the acquire fails but the update stays')


@rule('C12.h', ['C12', 'C13', 'C04', 'C11'], floor=1)
def nothing_decided_before_a_wait_is_used_after_it(ctx):
    """A Condition.wait() gives the lock up: whatever a function read from the shared state
    before it went to sleep may be false when it wakes.  In every function of the package
    that waits on a condition, no local that was computed from self.<state> before the wait
    is read after it (on a path through the wait without being recomputed).  In
    SlidingWindowSemaphore.acquire a "first time this tag is seen" decision taken before the
    wait and applied after it rewinds the tag's lowest unreleased token: the token of the
    woken acquirer is then pending forever and its permit never returns."""
    n = 0
    for f in ctx.p.all_functions():
        waits = [c for c in own_calls(f.node) if isinstance(c.func, ast.Attribute) and c.func.attr == 'wait'
                 and any(k in norm(c.func.value).lower() for k in ('cond', 'condition'))]
        if not waits:
            continue
        g = ctx.cfg(f)
        wn = [x for c in waits for x in g.nodes_of(c)]
        n += 1
        bad = []
        for a in own_nodes(f.node):
            if not (isinstance(a, ast.Assign) and len(a.targets) == 1 and isinstance(a.targets[0], ast.Name)):
                continue
            v = a.targets[0].id
            if not any(isinstance(x, ast.Attribute) and isinstance(x.value, ast.Name) and x.value.id == 'self' and x.attr not in ('_condition', '_cond', '_lock')
                       for x in ast.walk(a.value)):
                continue
            an = g.nodes_of(a)
            # other definitions of v kill the stale value
            kills = [x for o in own_nodes(f.node) if o is not a and isinstance(o, (ast.Assign, ast.AugAssign))
                     and any(isinstance(t, ast.Name) and t.id == v for t in (o.targets if isinstance(o, ast.Assign) else [o.target])) for x in g.nodes_of(o)]
            to_wait = g.reach(an, avoid=kills, labels=g.NORMAL)
            hit = [w for w in wn if w in to_wait]
            if not hit:
                continue
            after = g.reach(hit, avoid=kills + an, labels=g.NORMAL)
            for u in own_nodes(f.node):
                if isinstance(u, ast.Name) and u.id == v and isinstance(u.ctx, ast.Load) and any(x in after for x in g.nodes_of(u)) and not any(x in wn for x in g.nodes_of(u)):
                    bad.append(f'{v} = {norm(a.value)[:50]} (read again at: {short(u._parent, 50)})')
                    break
        ctx.ob(f, f'{f.qualname}: no state read before {norm(waits[0].func)}() is used after it', not bad,
               f'stale across the wait: {bad}; the lock is released while waiting, so the decision must be re-made after waking')
    ctx.need(n >= 1, 'no function waits on a condition any more: re-confirm C12.c (who blocks, who wakes) and retire this rule')


@rule('C12.i', ['C12', 'C11', 'C04'], floor=6)
def window_arithmetic_is_paired(ctx):
    """The arithmetic of the sliding window, read off acquire/release as pairing rules:
    acquire waits / refuses exactly while the free count is zero; every advance of a tag's
    lowest unreleased token (+1) sits in the same block as one return of a permit (+1), is
    guarded by an equality between that lowest token and the token being retired - the one
    passed in, or the one peeked from the pending list, which is then popped from the same
    end - and the pending list is kept sorted so that the end that is peeked holds its
    smallest element."""
    a = ctx.func(f'{SWS}.acquire')
    # 1. the refusal and the wait are taken exactly when there is no capacity
    zero_forms = ('self._count == 0', 'self._count <= 0', 'self._count < 1', 'not self._count')
    waits = [c for c in own_calls(a.node) if isinstance(c.func, ast.Attribute) and c.func.attr == 'wait']
    for w in waits:
        lp = q.in_loop(w)
        ok = isinstance(lp, ast.While) and any(q.equivalent(lp.test, z) for z in zero_forms)
        ctx.ob(a, f'wait while {norm(lp.test) if isinstance(lp, ast.While) else "?"}', ok, 'an acquirer must wait exactly while the free count is zero: a different threshold wastes a permit '
               '(with a window of 1 nothing is ever granted) or hands out one that does not exist')
    for r in [n for n in own_nodes(a.node) if isinstance(n, ast.Raise) and n.exc is not None and 'NoResourcesAvailable' in norm(n.exc)]:
        gs = q.guards(r)
        ok = any(q.guards_imply(gs, z) for z in zero_forms[:1]) or any(q.guards_imply(gs, z) for z in zero_forms[1:])
        ctx.ob(a, 'non-blocking refusal only at zero capacity', ok, f'guards {[(norm(e), p) for e, p in gs]}')
    # 2. first-seen initialisation of the lowest token
    inits = [n for n in own_nodes(a.node) if isinstance(n, ast.Assign) and any(norm(t).startswith('self._lowest_sequence[') for t in n.targets)]
    for n in inits:
        gs = q.guards(n)
        val = q.resolve_local(a, n.value)
        seqs = q.names_defined_by(a, lambda v: norm(v).startswith('self._tag_sequences['))
        okv = norm(val) in ('0',) or norm(val).startswith('self._tag_sequences[') or (isinstance(n.value, ast.Name) and n.value.id in seqs)
        okg = any(q.guards_imply(gs, f'{s_} == 0') for s_ in seqs + ['self._tag_sequences[tag]']) or q.guards_imply(gs, f'{a.params[1]} not in self._lowest_sequence')
        ctx.ob(a, n, okv and okg, 'the lowest unreleased token of a tag starts at its first token (0), exactly when the tag is seen for the first time')
    r = ctx.func(f'{SWS}.release')
    tagp, tokp = r.params[1], r.params[2]
    tok_names = {tokp} | set(q.names_defined_by(r, lambda v: isinstance(v, ast.Name) and v.id == tokp))
    adv = [n for n in own_nodes(r.node) if isinstance(n, ast.AugAssign) and norm(n.target).startswith('self._lowest_sequence[')]
    ctx.need(adv, 'release no longer advances the lowest unreleased token')
    peeks = []
    for n in adv:
        blk = q.containing_block(n)
        ok1 = isinstance(n.op, ast.Add) and isinstance(n.value, ast.Constant) and n.value.value == 1
        mates = [m for m in blk if isinstance(m, ast.AugAssign) and dotted(m.target) == 'self._count']
        ok2 = len(mates) == 1 and isinstance(mates[0].op, ast.Add) and isinstance(mates[0].value, ast.Constant) and mates[0].value.value == 1
        ctx.ob(r, f'{norm(n)} is paired with self._count += 1 in the same block', ok1 and ok2,
               'every token that leaves the window gives back exactly one permit: unpaired, the free count drifts away from count - window')
        # the equality that licenses the advance
        lic = None
        for e, pol in q.guards(n):
            for x in ast.walk(e) if isinstance(e, ast.AST) else []:
                if isinstance(x, ast.Compare) and len(x.ops) == 1 and ((isinstance(x.ops[0], ast.Eq) and pol) or (isinstance(x.ops[0], ast.NotEq) and not pol and x is e)):
                    sides = [x.left, x.comparators[0]]
                    # (the lowest token may have been read into a local first)
                    low = [s_ for s_ in sides if norm(q.resolve_local(r, s_)).startswith('self._lowest_sequence[')]
                    oth = [s_ for s_ in sides if not norm(q.resolve_local(r, s_)).startswith('self._lowest_sequence[')]
                    if low and oth:
                        fresh = True
                        if isinstance(low[0], ast.Name):
                            # a local copy of the lowest token is only as good as long as nothing advanced the token since it was read
                            ds = q.local_defs(r, low[0].id)
                            fresh = len(ds) == 1 and not any(ds[0][0]._pos < a_._pos < x._pos for a_ in adv) \
                                and not any(isinstance(lp_, (ast.While, ast.For)) and any(a_ is y for a_ in adv for y in ast.walk(lp_)) and not any(ds[0][0] is y for y in ast.walk(lp_))
                                            for lp_ in own_nodes(r.node) if any(x is y for y in ast.walk(lp_)))
                        if fresh:
                            lic = oth[0]
        if lic is None:
            ctx.ob(r, f'{norm(n)} is licensed by lowest == <token retired>', False, 'the lowest token may advance only past the token that is being retired')
            continue
        if isinstance(lic, ast.Name) and lic.id in tok_names:
            ctx.ob(r, f'{norm(n)} is licensed by lowest == {norm(lic)} (the released token)', True, '')
        elif isinstance(lic, ast.Subscript):
            peeks.append((n, lic, blk))
            ctx.ob(r, f'{norm(n)} is licensed by lowest == {norm(lic)} (the pending token peeked)', True, '')
        else:
            ctx.ob(r, f'{norm(n)} is licensed by lowest == {norm(lic)}', False, 'the token compared with is neither the released one nor the next pending one')
    for n, lic, blk in peeks:
        lst = norm(lic.value)
        idx = norm(lic.slice)
        pops = [c for m in blk for c in ast.walk(m) if isinstance(c, ast.Call) and isinstance(c.func, ast.Attribute) and c.func.attr == 'pop' and norm(c.func.value) == lst]
        popidx = (norm(pops[0].args[0]) if pops[0].args else '-1') if len(pops) == 1 else None
        ctx.ob(r, f'the pending token peeked at [{idx}] is the one popped', len(pops) == 1 and popidx == idx,
               f'peeked {lst}[{idx}] but popped {popidx}: the token that licensed the advance stays pending / another one is dropped')
        # sorted so that the peeked end is the minimum
        sorts = [c for c in own_calls(r.node) if isinstance(c.func, ast.Attribute) and c.func.attr == 'sort']
        rev = None
        if len(sorts) == 1:
            kv = q.argn(sorts[0], 'reverse', None)
            rev = isinstance(kv, ast.Constant) and kv.value is True
        want = {'-1': True, '0': False}.get(idx)
        ctx.ob(r, f'pending tokens kept sorted with the smallest at [{idx}]', len(sorts) == 1 and want is not None and rev == want,
               'the next token to retire is the smallest pending one: with the list sorted the other way round larger tokens are looked at first and the window never closes')
