"""C01 - upload and copy produce a byte-exact destination object."""
import ast

from ..engine import rule
from ..ir import ClassInfo, dotted, kwarg, norm, own_calls, own_nodes, short
from .. import q


def _is_window(e):
    return isinstance(e, ast.BinOp) and isinstance(e.op, ast.Sub) and norm(e.left) == 'self._size' and norm(e.right) == 'self._amount_read'


def bounded(f, e, depth=0, seen=None):
    """e <= self._size - self._amount_read on every path (through min/max/locals only)."""
    seen = seen or set()
    if depth > 6:
        return False
    if _is_window(e):
        return True
    if isinstance(e, ast.Call) and isinstance(e.func, ast.Name) and e.func.id == 'min':
        return any(bounded(f, a, depth + 1, seen) for a in e.args)
    if isinstance(e, ast.Call) and isinstance(e.func, ast.Name) and e.func.id == 'max':
        return all(bounded(f, a, depth + 1, seen) or isinstance(a, ast.Constant) for a in e.args) and any(bounded(f, a, depth + 1, seen) for a in e.args)
    if isinstance(e, ast.Name) and e.id not in seen and e.id not in f.params:
        defs = [v for _, v in q.local_defs(f, e.id) if isinstance(v, ast.AST)]
        return bool(defs) and all(bounded(f, v, depth + 1, seen | {e.id}) for v in defs)
    return False


@rule('C01.a', ['C01', 'C14'], floor=4)
def bounded_part_view(ctx):
    """In every read() of a class with a _size/_amount_read pair, the argument of each inner
    self._fileobj.read(X) is, on every path, bounded by self._size - self._amount_read
    (through min/max only); _amount_read advances by len(data); _size is
    min(actual_file_size - start_byte, requested_size).  Part k must not also send part
    k+1: path uploads hand every part a file handle over the whole file."""
    n = 0
    for cl in ctx.p.classes.values():
        if not ({'_size', '_amount_read'} <= set(cl.init_attrs)):
            continue
        rd = cl.methods.get('read')
        if rd is None:
            continue
        for c in own_calls(rd.node):
            if (dotted(c.func) or '') == 'self._fileobj.read':
                n += 1
                ok = len(c.args) == 1 and bounded(rd, c.args[0])
                ctx.ob(rd, c, ok, 'the inner read is not bounded by the remaining size of this chunk: the part would also send bytes of the next part')
        adv = [x for x in own_nodes(rd.node) if isinstance(x, ast.AugAssign) and dotted(x.target) == 'self._amount_read' and isinstance(x.op, ast.Add)]
        ok = len(adv) == 1 and norm(q.resolve_local(rd, adv[0].value)).startswith('len(') and not q.guards(adv[0])
        ctx.ob(rd, 'self._amount_read += len(data)', ok, 'the position inside the chunk must advance by exactly what was read')
        rets = [x for x in own_nodes(rd.node) if isinstance(x, ast.Return)]
        ok = len(rets) == 1 and isinstance(rets[0].value, ast.Name) and any(isinstance(v, ast.Call) and (dotted(v.func) or '') == 'self._fileobj.read' for _, v in q.local_defs(rd, rets[0].value.id))
        ctx.ob(rd, 'read returns exactly what the wrapped read returned', ok, 'the data returned must be the data read')
        cs = cl.methods.get('_calculate_file_size')
        if cs is not None:
            rets = [x for x in own_nodes(cs.node) if isinstance(x, ast.Return)]
            ok = len(rets) == 1 and isinstance(rets[0].value, ast.Call) and norm(rets[0].value.func) == 'min'
            if ok:
                args = []
                for a in rets[0].value.args:
                    if isinstance(a, ast.Name) and a.id not in cs.params:
                        ds = [norm(v) for _, v in q.local_defs(cs, a.id) if isinstance(v, ast.AST)]
                        args.append(ds[0] if len(ds) == 1 else norm(a))
                    else:
                        args.append(norm(a))
                ok = sorted(args) == sorted(['actual_file_size - start_byte', 'requested_size'])
            ctx.ob(cs, '_size = min(actual_file_size - start_byte, requested_size)', ok, 'the chunk must end at the requested size or at the end of the file, whichever comes first')
        ln = cl.methods.get('__len__')
        if ln is not None:
            rets = [norm(x.value) for x in own_nodes(ln.node) if isinstance(x, ast.Return)]
            ctx.ob(ln, '__len__ == self._size', rets == ['self._size'], 'Content-Length of the part must be the chunk size')
    ctx.need(n >= 2, f'only {n} bounded reads found')
    # the size handed in is wired from the right parameter
    for qn in ('utils.ReadFileChunk.__init__', '__init__.ReadFileChunk.__init__'):
        f = ctx.func(qn)
        cs = [c for c in own_calls(f.node) if (dotted(c.func) or '') == 'self._calculate_file_size']
        if not cs:
            # the helper never used self: it may live at module level under another name - recognise it by what it is given
            cs = [c for c in own_calls(f.node) if {'requested_size', 'start_byte', 'actual_file_size'} <= set(q.bound(ctx, f, c))]
        b = q.bound(ctx, f, cs[0]) if len(cs) == 1 else {}
        ok = len(cs) == 1 and norm(b.get('requested_size')) == 'chunk_size' and norm(b.get('actual_file_size')) == 'full_file_size' \
            and norm(b.get('start_byte')) in ('self._start_byte', 'start_byte')
        if not cs:
            # the clamp written in place: self._size = min(full_file_size - start_byte, chunk_size)
            st = [n for n in own_nodes(f.node) if isinstance(n, ast.Assign) and any(dotted(t) == 'self._size' for t in n.targets)]
            v = st[0].value if len(st) == 1 else None
            ok = isinstance(v, ast.Call) and norm(v.func) == 'min' and len(v.args) == 2 and \
                sorted(norm(a) for a in v.args) in (sorted(['full_file_size - start_byte', 'chunk_size']), sorted(['full_file_size - self._start_byte', 'chunk_size']))
        ctx.ob(f, '_calculate_file_size(requested_size=chunk_size, start_byte=start, actual_file_size=full_file_size)', ok, 'chunk size / file size / start are crossed')


@rule('C01.b', ['C01'], floor=3)
def part_record_is_part_sent(ctx):
    """In each function that calls upload_part / upload_part_copy, the returned dict has
    ETag and PartNumber; PartNumber is the same variable passed as PartNumber= to the
    call; ETag (and every Checksum* value) is a subscript chain on that call's response."""
    sites = q.client_calls(ctx, 'upload_part') + q.client_calls(ctx, 'upload_part_copy')
    ctx.need(len(sites) >= 3, f'{len(sites)} part upload sites')
    for f, c, op in sites:
        pn = kwarg(c, 'PartNumber')
        st = c._parent
        resp = st.targets[0].id if isinstance(st, ast.Assign) and isinstance(st.targets[0], ast.Name) else None
        ctx.ob(f, c, pn is not None and isinstance(pn, ast.Name) and resp is not None, 'the part request must carry PartNumber=<variable> and keep its response')
        if pn is None or resp is None:
            continue
        rets = [x for x in own_nodes(f.node) if isinstance(x, ast.Return) and x.value is not None]
        ctx.ob(f, 'returns the part record', bool(rets), 'no part record is returned to the Complete task')
        for r in rets:
            d = r.value
            dnode = d
            if isinstance(d, ast.Name):
                defs = [v for _, v in q.local_defs(f, d.id) if isinstance(v, ast.Dict)]
                dnode = defs[0] if defs else None
            if not isinstance(dnode, ast.Dict):
                ctx.ob(f, r, False, 'the part record is not a dict literal')
                continue
            rec = {k.value: v for k, v in zip(dnode.keys, dnode.values) if isinstance(k, ast.Constant)}
            ctx.ob(f, "part record has 'ETag' and 'PartNumber'", {'ETag', 'PartNumber'} <= set(rec), f'keys: {sorted(rec)}')
            if 'PartNumber' in rec:
                ctx.ob(f, f"'PartNumber': {norm(rec['PartNumber'])} is the number sent ({norm(pn)})", norm(rec['PartNumber']) == norm(pn),
                       'the record must carry the part number that was sent, otherwise Complete lists the wrong part')
            if 'ETag' in rec:
                ok = q.derives_from(f, rec['ETag'], lambda n: isinstance(n, ast.Subscript) and _root(n, f) == resp and 'ETag' in norm(n))
                ctx.ob(f, f"'ETag' comes from {resp}[...]['ETag']", ok, "the ETag must be the one S3 returned for this part")
            # checksum additions: d[checksum_member] = response[...][checksum_member]
            if isinstance(d, ast.Name):
                for x in own_nodes(f.node):
                    if isinstance(x, ast.Assign) and isinstance(x.targets[0], ast.Subscript) and norm(x.targets[0].value) == d.id:
                        ok = isinstance(x.value, ast.Subscript) and _root(x.value, f) == resp and norm(x.value.slice) == norm(x.targets[0].slice)
                        ctx.ob(f, x, ok, 'a part checksum in the record must be the one S3 returned under the same member name')


def _root(sub, func=None, depth=0):
    """the local at the root of a subscript chain; a local that itself caches a subscript of another local
    (`result = response['CopyPartResult']`) is followed to that one"""
    while isinstance(sub, ast.Subscript):
        sub = sub.value
    if isinstance(sub, ast.Name) and func is not None and depth < 4:
        d = q.single_def(func, sub.id)
        if isinstance(d, ast.Subscript):
            return _root(d, func, depth + 1)
    return sub.id if isinstance(sub, ast.Name) else None


@rule('C01.c', ['C01', 'C14'], floor=8)
def order_preserved(ctx):
    """The list handed to the Complete task as 'parts' is a local created empty, mutated
    only by one append(<submit result>) per loop iteration, never sorted/reversed/
    reassigned; Task._get_all_main_kwargs collects list results by append(future.result())
    in a for over the pending list; part numbers come from range(1, n + 1) or a counter
    started at 0 and incremented by 1 once per iteration before the yield."""
    for f in [x for x in ctx.p.all_functions() if x.name == '_submit_multipart_request']:
        subs = [s for s in q.submits(ctx) if s.func is f]
        for s in subs:
            for cl, ctor, _ in s.task_ctors:
                if cl is None or cl.name != 'CompleteMultipartUploadTask' or ctor is None:
                    continue
                pk = kwarg(ctor, 'pending_main_kwargs')
                parts = None
                if isinstance(pk, ast.Dict):
                    for k, v in zip(pk.keys, pk.values):
                        if isinstance(k, ast.Constant) and k.value == 'parts':
                            parts = v
                ctx.ob(f, "'parts': <list of part futures>", isinstance(parts, ast.Name), 'the Complete task must receive the list of part futures')
                if not isinstance(parts, ast.Name):
                    continue
                name = parts.id
                defs = [v for _, v in q.local_defs(f, name)]
                ctx.ob(f, f'{name} = [] (single definition)', len(defs) == 1 and isinstance(defs[0], ast.List) and not defs[0].elts, f'{name} is (re)assigned: {[norm(d) for d in defs if isinstance(d, ast.AST)]}')
                uses = [c for c in own_calls(f.node) if isinstance(c.func, ast.Attribute) and norm(c.func.value) == name]
                bad = [c for c in uses if c.func.attr != 'append']
                ctx.ob(f, f'{name} is only appended to', not bad, 'reordering operation on the part list: ' + ', '.join(short(c, 40) for c in bad))
                apps = [c for c in uses if c.func.attr == 'append']
                ok = len(apps) == 1 and q.in_loop(apps[0]) is not None and not q.guards(apps[0]) and apps[0].args and isinstance(apps[0].args[0], ast.Call) \
                    and (dotted(apps[0].args[0].func) or '').endswith('_transfer_coordinator.submit')
                ctx.ob(f, f'{name}.append(<submit(...)>) once per iteration, unconditionally', ok, 'each part future must be appended exactly once, in submission order')
                # other uses of the list (sorted(...), reversed(...), slices) are forbidden
                other = [x for x in own_nodes(f.node) if isinstance(x, ast.Name) and x.id == name and isinstance(x.ctx, ast.Load)
                         and not (isinstance(x._parent, ast.Attribute) and x._parent.attr == 'append') and not isinstance(x._parent, ast.Dict)]
                ctx.ob(f, f'{name} is used only by append and the pending kwargs', not other, 'the list is read elsewhere: ' + ', '.join(short(x._parent, 40) for x in other[:2]))
                # the part number of each part task is the loop's own number
                if apps:
                    loop = q.in_loop(apps[0])
                    for cl2, ctor2, _ in q.task_ctors_of(ctx, apps[0].args[0].args[1], f) if len(apps[0].args[0].args) > 1 else []:
                        mk = kwarg(ctor2, 'main_kwargs') if ctor2 is not None else None
                        pnv = None
                        if isinstance(mk, ast.Dict):
                            for k, v in zip(mk.keys, mk.values):
                                if isinstance(k, ast.Constant) and k.value == 'part_number':
                                    pnv = v
                        tnames = q.names_in(loop.target) if isinstance(loop, ast.For) else set()
                        own = isinstance(pnv, ast.Name) and pnv.id in tnames
                        # 0-based loop: for i in range(n): part number i + 1
                        if not own and pnv is not None and isinstance(loop, ast.For) and isinstance(loop.target, ast.Name) and isinstance(loop.iter, ast.Call) \
                                and norm(loop.iter.func) == 'range' and (len(loop.iter.args) == 1 or (len(loop.iter.args) == 2 and norm(loop.iter.args[0]) == '0')):
                            from ..poly import equal as _eq
                            own = _eq(pnv, f'{loop.target.id} + 1')
                        ctx.ob(f, f"'part_number': {norm(pnv)} is the loop's own part number", own, 'the part task must get the number of the body/range it sends')
    # Task._get_all_main_kwargs
    f = ctx.func('tasks.Task._get_all_main_kwargs')
    apps = [c for c in own_calls(f.node) if isinstance(c.func, ast.Attribute) and c.func.attr == 'append' and c.args and norm(c.args[0]).endswith('.result()')]
    outer = [l for l in own_nodes(f.node) if isinstance(l, ast.For) and norm(l.iter) == 'self._pending_main_kwargs.items()' and isinstance(l.target, ast.Tuple)]
    pv = norm(outer[0].target.elts[1]) if len(outer) == 1 else None
    ok = len(apps) == 1 and pv is not None and isinstance(q.in_loop(apps[0]), ast.For) and norm(q.in_loop(apps[0]).iter) == pv \
        and all(f'isinstance({pv}, list)' == t and pol for t, pol in q.guard_texts(apps[0])) \
        and norm(apps[0].args[0]) == f'{norm(q.in_loop(apps[0]).target)}.result()'
    ctx.ob(f, 'result.append(future.result()) for future in pending_value', ok, 'results of a list of futures must be collected in list order')
    bad = [c for c in own_calls(f.node) if isinstance(c.func, (ast.Name, ast.Attribute)) and (dotted(c.func) or '').split('.')[-1] in ('sorted', 'reversed', 'sort', 'reverse', 'set', 'as_completed')]
    ctx.ob(f, 'no reordering of collected results', not bad, 'collected part results are reordered')
    # the Complete task passes the parts list through unchanged
    f = ctx.func('tasks.CompleteMultipartUploadTask._main')
    cs = [c for c in own_calls(f.node) if (dotted(c.func) or '').endswith('complete_multipart_upload')]
    ok = len(cs) == 1 and norm(kwarg(cs[0], 'MultipartUpload')) == "{'Parts': parts}" and norm(kwarg(cs[0], 'UploadId')) == 'upload_id'
    ctx.ob(f, "complete_multipart_upload(UploadId=upload_id, MultipartUpload={'Parts': parts})", ok, 'the collected part list must be passed to Complete as is')
    # part number sources
    srcs = 0
    for qn in ('upload.UploadFilenameInputManager.yield_upload_part_bodies', 'upload.UploadNonSeekableInputManager.yield_upload_part_bodies',
               'copies.CopySubmissionTask._submit_multipart_request', '__init__.MultipartUploader._upload_parts'):
        f = ctx.func(qn)
        ranges = [c for c in own_calls(f.node) if isinstance(c.func, ast.Name) and c.func.id == 'range' and len(c.args) == 2
                  and norm(c.args[0]) == '1' and isinstance(c.args[1], ast.BinOp) and isinstance(c.args[1].op, ast.Add) and norm(c.args[1].right) == '1']
        counters = [x for x in own_nodes(f.node) if isinstance(x, ast.AugAssign) and isinstance(x.target, ast.Name) and 'part_number' in x.target.id]
        counts = [l for l in own_nodes(f.node) if isinstance(l, ast.For) and isinstance(l.iter, ast.Call) and (dotted(l.iter.func) or '').split('.')[-1] == 'count'
                  and [norm(a) for a in l.iter.args] == ['1'] and not l.iter.keywords and isinstance(l.target, ast.Name)]
        zero_based = [l for l in own_nodes(f.node) if isinstance(l, ast.For) and isinstance(l.target, ast.Name) and isinstance(l.iter, ast.Call) and norm(l.iter.func) == 'range'
                      and (len(l.iter.args) == 1 or (len(l.iter.args) == 2 and norm(l.iter.args[0]) == '0'))
                      and any(isinstance(b, ast.BinOp) and norm(b) in (f'{l.target.id} + 1', f'1 + {l.target.id}') for b in ast.walk(l))]
        if ranges:
            srcs += 1
            ctx.ob(f, f'part numbers from {norm(ranges[0])}', True, 'monotone source 1..n')
        elif zero_based and not counters:
            srcs += 1
            ctx.ob(f, f'part numbers from {norm(zero_based[0].iter)} as index + 1', True, 'monotone source 1..n')
        elif counts:
            srcs += 1
            ys = [x for x in own_nodes(f.node) if isinstance(x, ast.Yield)]
            ok = len(counts) == 1 and bool(ys) and all(q.in_loop(y) is counts[0] and isinstance(y.value, ast.Tuple) and norm(y.value.elts[0]) == counts[0].target.id for y in ys)
            ctx.ob(f, f'part numbers from itertools.count(1), yielded first in the pair', ok, 'part numbers must be 1, 2, 3, ... in yield order')
        elif counters:
            srcs += 1
            c0 = counters[0]
            init = [v for st, v in q.local_defs(f, c0.target.id) if isinstance(st, ast.Assign)]
            ys = [x for x in own_nodes(f.node) if isinstance(x, ast.Yield)]
            g = ctx.cfg(f)
            ok = len(counters) == 1 and isinstance(c0.op, ast.Add) and norm(c0.value) == '1' and len(init) == 1 and norm(init[0]) == '0' \
                and q.in_loop(c0) is not None and not q.guards(c0) and bool(ys) and g.all_dominate(g.nodes_of(c0), [n for y in ys for n in g.nodes_of(y)], g.NORMAL) \
                and all(q.in_loop(y) is q.in_loop(c0) for y in ys)
            ctx.ob(f, f'{c0.target.id}: 0, then += 1 once per iteration before the yield', ok, 'part numbers must be 1, 2, 3, ... in yield order')
            for y in ys:
                ok = isinstance(y.value, ast.Tuple) and norm(y.value.elts[0]) == c0.target.id
                ctx.ob(f, y, ok, 'the yielded pair must carry the current part number first')
        else:
            ctx.ob(f, 'part number source', False, 'no recognised monotone part-number source (range(1, n + 1) or a 0-based counter incremented before the yield)')
    ctx.need(srcs >= 4, f'only {srcs} part-number sources')
    # legacy: executor.map keeps order
    f = ctx.func('__init__.MultipartUploader._upload_parts')
    maps = [c for c in own_calls(f.node) if isinstance(c.func, ast.Attribute) and c.func.attr == 'map']
    rn = q.returned_names(f)
    ok = False
    if len(maps) == 1 and len(rn) == 1 and isinstance(q.single_def(f, rn[0]), ast.List) and not q.single_def(f, rn[0]).elts:
        m, par = maps[0], maps[0]._parent
        # for part in executor.map(..): parts.append(part)
        if isinstance(par, ast.For) and par.iter is m:
            apps = [c for c in ast.walk(par) if isinstance(c, ast.Call) and norm(c.func) == f'{rn[0]}.append']
            ok = len(apps) == 1 and norm(apps[0].args[0]) == norm(par.target) and not q.guards(apps[0]) and q.in_loop(apps[0]) is par
        # parts.extend(executor.map(..))  /  parts += executor.map(..) / list(...)
        elif isinstance(par, ast.Call) and norm(par.func) == f'{rn[0]}.extend' and par.args[0] is m:
            ok = True
        elif isinstance(par, ast.AugAssign) and isinstance(par.op, ast.Add) and norm(par.target) == rn[0]:
            ok = True
        mut = [c for c in own_calls(f.node) if isinstance(c.func, ast.Attribute) and norm(c.func.value) == rn[0] and c.func.attr not in ('append', 'extend')]
        ok = ok and not mut
    elif len(maps) == 1 and not rn:
        # return list(executor.map(..))
        rets = [x for x in own_nodes(f.node) if isinstance(x, ast.Return) and x.value is not None]
        ok = len(rets) == 1 and isinstance(rets[0].value, ast.Call) and norm(rets[0].value.func) == 'list' and rets[0].value.args and rets[0].value.args[0] is maps[0]
    ctx.ob(f, 'for part in executor.map(...): parts.append(part)', ok, 'legacy parts must be collected in submission order (executor.map preserves it)')


@rule('C01.e', ['C01', 'C14'], floor=5)
def stream_is_read_to_eof_from_its_position(ctx):
    """Non-seekable uploads read the stream until a read returns nothing (a short read is
    not EOF); capability probes do not move the stream; size discovery of a seekable
    stream records the position first and restores it on every path; the single-request
    body of a seekable stream is sized from the current position."""
    f = ctx.func('upload.UploadNonSeekableInputManager.yield_upload_part_bodies')
    allreads = [c for c in own_calls(f.node) if (dotted(c.func) or '') == 'self._read']
    loops = [q.in_loop(c) for c in allreads if q.in_loop(c) is not None]
    ctx.need(loops, 'part loop of the non-seekable manager not found')
    lp = loops[0]
    exits = [n for n in ast.walk(lp) if isinstance(n, (ast.Break, ast.Return)) and q.in_loop(n) is lp]
    reads = [c for c in ast.walk(lp) if isinstance(c, ast.Call) and (dotted(c.func) or '') == 'self._read']
    var = reads[0]._parent.targets[0].id if len(reads) == 1 and isinstance(reads[0]._parent, ast.Assign) else None
    unbounded = (isinstance(lp, ast.While) and isinstance(lp.test, ast.Constant) and bool(lp.test.value)) or \
        (isinstance(lp, ast.For) and isinstance(lp.iter, ast.Call) and (dotted(lp.iter.func) or '').split('.')[-1] == 'count')
    ok = unbounded and len(exits) == 1 and var is not None \
        and q.equivalent(' and '.join(('' if pol else 'not ') + f'({norm(e)})' for e, pol in q.guards(exits[0]) if any(a is lp for a in _anc(e))) or 'True', f'not {var}')
    ctx.ob(f, f'the part loop ends only when a read returns nothing (if not {var}: break)', ok,
           'a short read is not end of stream: ending the loop on anything else drops the tail of the stream while the upload still succeeds')
    ys = [y for y in ast.walk(lp) if isinstance(y, ast.Yield)]
    g = ctx.cfg(f)
    ok = len(ys) == 1 and len(reads) == 1 and g.all_dominate(g.nodes_of(reads[0]), g.nodes_of(ys[0]), g.NORMAL) and q.in_loop(ys[0]) is lp
    ctx.ob(f, 'each iteration yields the data it just read', ok, 'data read must be yielded exactly once')
    p = ctx.func('upload.UploadNonSeekableInputManager.get_put_object_body')
    rd = [c for c in own_calls(p.node) if isinstance(c.func, ast.Attribute) and c.func.attr == 'read' and q.ntext(p, c.func.value) == 'transfer_future.meta.call_args.fileobj']
    ok = len(rd) == 1 and not rd[0].args and isinstance(rd[0]._parent, ast.BinOp) and norm(rd[0]._parent.left) == 'self._initial_data'
    ctx.ob(p, 'single-request body = self._initial_data + fileobj.read() (to EOF)', ok, 'the already buffered prefix and the rest of the stream must both be sent, in that order')
    r = ctx.func('upload.UploadNonSeekableInputManager._read')
    joins = [n for n in own_nodes(r.node) if isinstance(n, ast.BinOp) and isinstance(n.op, ast.Add) and norm(q.resolve_local(r, n.left)) == 'self._initial_data' and 'fileobj.read(' in norm(n.right)]
    ctx.ob(r, '_read: buffered prefix first, then the stream', len(joins) == 1, 'order of buffered and fresh data')
    # probes
    for qn in ('compat.seekable', 'compat.readable'):
        pf = ctx.func(qn)
        for c in own_calls(pf.node):
            if isinstance(c.func, ast.Attribute) and c.func.attr in ('seek', 'read', 'truncate', 'write'):
                ok = c.func.attr == 'seek' and [norm(a) for a in c.args] == ['0', '1']
                ctx.ob(pf, c, ok, 'a capability probe must not move or consume the stream (only seek(0, 1) is a no-op)')
    s_ = ctx.func('upload.UploadSeekableInputManager.provide_transfer_size')
    g = ctx.cfg(s_)
    tells = [c for c in own_calls(s_.node) if isinstance(c.func, ast.Attribute) and c.func.attr == 'tell' and q.ntext(s_, c.func.value) == 'transfer_future.meta.call_args.fileobj']
    tells = sorted(tells, key=lambda c: c._pos)
    seeks = [c for c in own_calls(s_.node) if isinstance(c.func, ast.Attribute) and c.func.attr == 'seek' and q.ntext(s_, c.func.value) == 'transfer_future.meta.call_args.fileobj']
    start = tells[0]._parent.targets[0].id if tells and isinstance(tells[0]._parent, ast.Assign) else None
    restore = [c for c in seeks if len(c.args) == 1 and norm(c.args[0]) == start]
    end_seek = [c for c in seeks if [norm(a) for a in c.args] == ['0', '2']]
    ok = bool(tells) and len(restore) == 1 and len(end_seek) == 1 and g.all_dominate(g.nodes_of(tells[0]), g.nodes_of(end_seek[0]), g.NORMAL) \
        and g.must_pass(g.nodes_of(end_seek[0]), g.nodes_of(restore[0]), [g.exit], g.NORMAL)
    ctx.ob(s_, 'size discovery: start = tell(); seek(0, 2); end = tell(); seek(start)', ok, 'the stream must be back at its call-time position before any body is read')
    sz = [c for c in own_calls(s_.node) if (dotted(c.func) or '').endswith('provide_transfer_size')]
    sz0 = q.resolve_local(s_, sz[0].args[0]) if len(sz) == 1 and sz[0].args else None
    ok = len(sz) == 1 and isinstance(sz0, ast.BinOp) and isinstance(sz0.op, ast.Sub) and norm(sz0.right) == start
    ctx.ob(s_, 'size = end position - start position', ok, 'the upload covers the bytes from the call-time position to EOF')
    b = ctx.func('upload.UploadSeekableInputManager._get_put_object_fileobj_with_full_size')
    rets = [x for x in own_nodes(b.node) if isinstance(x, ast.Return) and isinstance(x.value, ast.Tuple) and len(x.value.elts) == 2]
    sz = q.resolve_local(b, rets[0].value.elts[1]) if len(rets) == 1 else None
    ok = isinstance(sz, ast.BinOp) and isinstance(sz.op, ast.Add) and sorted([q.ntext(b, sz.left).replace('transfer_future.meta.call_args.fileobj', 'F'), norm(sz.right)]) == sorted(['F.tell()', 'transfer_future.meta.size']) \
        if sz is not None else False
    if isinstance(sz, ast.BinOp) and isinstance(sz.left, ast.Call) and isinstance(sz.left.func, ast.Attribute):
        ok = sz.left.func.attr == 'tell' and q.ntext(b, sz.left.func.value) == 'transfer_future.meta.call_args.fileobj' and norm(sz.right) == 'transfer_future.meta.size'
    ctx.ob(b, 'full size = fileobj.tell() + transfer size', bool(ok), f'{norm(sz)}')
    i = ctx.func('utils.ReadFileChunk.__init__')
    vals = [norm(v) for fn, v in ctx.cls('utils.ReadFileChunk').init_attrs.get('_start_byte', []) if fn is i]
    ctx.ob(i, 'ReadFileChunk starts at the current position of its file object', vals == ['self._fileobj.tell()'], f'{vals}')


def _anc(n):
    from ..ir import ancestors
    return ancestors(n)


@rule('C01.f', ['C01', 'C15'], floor=4)
def copy_source_is_the_callers(ctx):
    """Every copy task (single CopyObject and each part copy) gets exactly the caller's
    copy_source - the dict HeadObject sized - and hands it to the client unchanged: a part
    copied from a rebuilt source (e.g. without VersionId) copies bytes of another version."""
    n = 0
    for s_ in q.submits(ctx):
        if s_.func.module.name != 'copies':
            continue
        for cl, ctor, owner in s_.task_ctors:
            if cl is None or ctor is None or cl.name not in ('CopyObjectTask', 'CopyPartTask'):
                continue
            mk = q.resolve_local(owner, kwarg(ctor, 'main_kwargs'))
            v = None
            if isinstance(mk, ast.Dict):
                for k, val in zip(mk.keys, mk.values):
                    if isinstance(k, ast.Constant) and k.value == 'copy_source':
                        v = val
            n += 1
            ok = v is not None and q.is_call_args_attr(owner, q.resolve_local(owner, v), 'copy_source')
            ctx.ob(owner, f"{cl.name} 'copy_source' = call_args.copy_source", ok, f'the task copies from {norm(v) if v is not None else None}, not from the source the caller named (and HeadObject sized)')
    ctx.need(n >= 2, f'only {n} copy task constructions found')
    for qn, op in (('copies.CopyObjectTask._main', 'copy_object'), ('copies.CopyPartTask._main', 'upload_part_copy')):
        f = ctx.func(qn)
        cs = [c for f2, c, o in q.client_calls(ctx, op) if f2 is f]
        ok = len(cs) == 1 and norm(kwarg(cs[0], 'CopySource')) == 'copy_source' and 'copy_source' in f.params \
            and not [x for x in own_nodes(f.node) if isinstance(x, (ast.Assign, ast.AugAssign)) and 'copy_source' in {norm(t) for t in (x.targets if isinstance(x, ast.Assign) else [x.target])}]
        ctx.ob(f, f'{op}(CopySource=copy_source) with the parameter as received', ok, 'the source handed to the task must be the source S3 copies from')


@rule('C01.g', ['C01'], floor=2)
def buffered_prefix_is_viewed_consistently(ctx):
    """Contradiction rule for the non-seekable manager's buffered prefix: within one method, if some
    use of self._initial_data that flows into the data handed out is sliced from a position kept in
    state (`[start:...]`), then no other such use may take the buffer whole or from its beginning -
    one of the two beliefs about where the unread data starts is wrong, and the wrong one re-sends
    or skips bytes."""
    cl = ctx.cls('upload.UploadNonSeekableInputManager')
    n = 0
    for m in cl.methods.values():
        uses = []
        for x in own_nodes(m.node):
            if isinstance(x, ast.Attribute) and dotted(x) == 'self._initial_data' and isinstance(x.ctx, ast.Load):
                par = x._parent
                if isinstance(par, ast.Call) and norm(par.func) == 'len':
                    continue
                if isinstance(par, ast.Subscript) and par.value is x and isinstance(par.slice, ast.Slice):
                    lo = par.slice.lower
                    kind = 'offset' if lo is not None and not (isinstance(lo, ast.Constant) and lo.value == 0) and not (isinstance(lo, ast.Name) and lo.id in m.params) else 'from-start'
                    # `initial[amount:]` stored back into the buffer is the truncation itself, not a view of unread data
                    st = q_enclosing_assign(par)
                    if st is not None and any(dotted(t) == 'self._initial_data' for t in st.targets):
                        continue
                    uses.append((kind, par))
                elif isinstance(par, ast.Compare):
                    continue
                else:
                    uses.append(('whole', x))
        if not uses:
            continue
        n += 1
        kinds = {k for k, _ in uses}
        ok = not ('offset' in kinds and (kinds & {'whole', 'from-start'}))
        bad = next((u for k, u in uses if k in ('whole', 'from-start')), None) if not ok else None
        ctx.ob(m, bad if bad is not None else f'{m.name}: uses of self._initial_data agree on where the unread data starts', ok,
               'the buffer is read from a tracked offset in one place and from its beginning in another: already sent bytes are sent again (or unsent ones skipped)')
    ctx.need(n >= 2, f'only {n} methods use the buffered prefix')


def q_enclosing_assign(node):
    from ..ir import enclosing_stmt
    st = enclosing_stmt(node)
    return st if isinstance(st, ast.Assign) else None


MEMO = ('lru_cache', 'cache', 'cached_property', 'memoize', 'memoized', 'cached')


def _memo_decorators(node):
    out = []
    for d in node.decorator_list:
        t = d.func if isinstance(d, ast.Call) else d
        nm = (dotted(t) or '').split('.')[-1]
        if nm in MEMO:
            out.append(norm(d))
    return out


@rule('C01.h', ['C01', 'C14'], floor=20)
def world_readers_are_not_memoised(ctx):
    """No function that reads the outside world - the file system (os.*, open), a file
    object (read/seek/tell), the clock, or S3 (a client call) - carries a memoising
    decorator (lru_cache / cache / cached_property ...).  The sizes and bytes of a transfer
    are discovered through these functions once per transfer; a cached answer is the
    answer for an earlier transfer of the same path or key (a file that grew is uploaded
    as its old prefix and reported as success)."""
    n = 0
    for f in ctx.p.all_functions():
        if f.module.name == 'crt':
            continue
        why = None
        for c, r in q.calls_in(ctx, f):
            d = dotted(c.func) or ''
            if r.kind == 'client':
                why = f'S3 {r.ext}'
            elif d.startswith(('os.', 'time.', 'shutil.', 'stat.')) or d in ('open', 'rename_file', 'fallocate'):
                why = d
            elif isinstance(c.func, ast.Attribute) and c.func.attr in ('read', 'seek', 'tell', 'readinto', 'write', 'truncate', 'get_file_size'):
                why = '.' + c.func.attr
            if why:
                break
        if not why:
            continue
        n += 1
        memo = _memo_decorators(f.node)
        ctx.ob(f, f'{f.qualname} reads {why}: not memoised', not memo,
               f'{memo} caches the answer per argument tuple: a later transfer of the same path / key gets the size or bytes of an earlier one')
    # wrappers applied by assignment: name = lru_cache(...)(function)
    for m in ctx.p.modules.values():
        for x in ast.walk(m.tree):
            curried = isinstance(x, ast.Call) and isinstance(x.func, ast.Call) and (dotted(x.func.func) or '').split('.')[-1] in MEMO
            direct = isinstance(x, ast.Call) and (dotted(x.func) or '').split('.')[-1] in MEMO and len(x.args) == 1 and isinstance(x.args[0], (ast.Name, ast.Attribute))
            if curried or direct:
                tgt = x.args[0] if x.args else None
                nm = (dotted(tgt) or '') if tgt is not None else ''
                fx = next((g for g in ctx.p.all_functions() if g.module is m and g.name == nm.split('.')[-1]), None)
                if fx is not None:
                    reads = any((dotted(c.func) or '').startswith(('os.', 'time.')) or (dotted(c.func) or '') == 'open' or r.kind == 'client' for c, r in q.calls_in(ctx, fx))
                    ctx.ob(fx, f'{norm(x)[:60]}', not reads, 'a function that reads the outside world is wrapped in a cache')
    ctx.need(n >= 20, f'only {n} world-reading functions found')
