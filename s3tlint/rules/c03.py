"""C03 - a future never reports success unless every step succeeded."""
import ast

from ..engine import rule
from ..ir import AnalysisError, ancestors, dotted, enclosing_func, kwarg, norm, own_calls, own_nodes, short
from .. import q

COORD = 'futures.TransferCoordinator'

# Documented swallows: (function, handler type text) -> reason.  A handler that
# is not here must re-raise, record the error, or be a recognised bounded retry.
SWALLOWS = {
    ('__init__.OSUtils.remove_file', 'OSError'): 'best-effort removal of a file that may not exist',
    ('utils.OSUtils.remove_file', 'OSError'): 'best-effort removal of a file that may not exist',
    ('compat.seekable', 'OSError'): 'capability probe: a failing seek means "not seekable"',
    ('compat.rename_file', 'OSError'): 'Windows rename: only ENOENT from the pre-remove is ignored, anything else re-raised',
    ('crt.acquire_crt_s3_process_lock', 'RuntimeError'): 'lock not acquired is reported by returning None',
    ('crt.CRTTransferManager._shutdown', 'Exception'): 'shutdown is a barrier; each failure is reported through its own future',
    ('crt.CRTTransferManager._shutdown', 'KeyboardInterrupt'): 'Ctrl-C during shutdown cancels the remaining transfers',
    ('crt.CRTTransferCoordinator.handle_exception', 'Exception'): 'failure to translate an error: the original error is raised instead',
    ('crt._S3ArnParamHandler._get_arn_details_from_bucket', 'InvalidArnException'): 'a bucket name that is not an ARN',
    ('futures.TransferCoordinator._run_callback', 'Exception'): 'C08: one failing callback must not prevent the others',
    ('manager.TransferCoordinatorController.wait', 'Exception'): 'shutdown barrier: failures are reported through the futures; the executor joins follow (C18.a)',
    ('tasks.Task._wait_until_all_complete', 'Exception'): "the same future's result() is called again in _get_all_main_kwargs, which raises",
    ('bandwidth.BandwidthLimitedStream._consume_through_leaky_bucket', 'RequestExceededException'): 'flow control: sleep the advised time and re-consume (C13)',
}
# Where a documented swallow may also appear when the method that holds it is cut differently (the helper inlined into
# its callers, a method split in two): a handler of the same owner (class or module) with the same exception type whose
# guarded statements and handler body are the same up to local names and logging - the *fingerprint* below.
def handler_fingerprint(try_node, h):
    """What is guarded and what the handler does, up to local names, logging and the way the result is passed on: the calls
    made in the try body, in order, and the handler's statements other than logging, `pass`, `return [None]` and `x = None`
    (a handler that merely falls through, returns None or resets the result local swallows in the same way)."""
    import copy

    def trivial(s_):
        if isinstance(s_, (ast.Pass, ast.Continue)):
            return True
        if isinstance(s_, ast.Expr) and isinstance(s_.value, ast.Call) and (dotted(s_.value.func) or '').startswith('logger.'):
            return True
        if isinstance(s_, ast.Return) and (s_.value is None or (isinstance(s_.value, ast.Constant) and s_.value.value is None)):
            return True
        if isinstance(s_, ast.Assign) and isinstance(s_.value, ast.Constant) and s_.value.value is None and all(isinstance(t, ast.Name) for t in s_.targets):
            return True
        return False
    calls = []
    for s_ in try_node.body:
        if isinstance(s_, ast.Expr) and isinstance(s_.value, ast.Call) and (dotted(s_.value.func) or '').startswith('logger.'):
            continue
        cs = [c for c in ast.walk(s_) if isinstance(c, ast.Call)]
        outer = [c for c in cs if not any(c is not o and any(c is x for x in ast.walk(o)) for o in cs)]
        if outer:
            calls += [ast.Expr(value=copy.deepcopy(c)) for c in outer]
        else:
            calls.append(copy.deepcopy(s_))
    mod = ast.Module(body=calls + [ast.Expr(value=ast.Constant(value='<handler>'))] + copy.deepcopy([s_ for s_ in h.body if not trivial(s_)]), type_ignores=[])
    names = {}
    for n in ast.walk(mod):
        if isinstance(n, ast.Name) and n.id != 'self':
            n.id = names.setdefault(n.id, f'v{len(names)}')
        elif isinstance(n, ast.ExceptHandler) and n.name:
            n.name = names.setdefault(n.name, f'v{len(names)}')
    return norm(mod)


def swallow_prints(ctx):
    """{(owner scope, type, fingerprint): reason} of the documented swallows as they occur in this tree and its expanded view"""
    prints = {}
    xp = ctx.expanded().p
    for f in list(ctx.p.all_functions()) + list(xp.all_functions()):
        owner = f.cls.qualname if f.cls is not None else f.module.name
        for t_ in own_nodes(f.node):
            if isinstance(t_, ast.Try):
                for h in t_.handlers:
                    if (f.qualname, handler_type_text(h)) in SWALLOWS:
                        prints.setdefault((owner, handler_type_text(h), handler_fingerprint(t_, h)), SWALLOWS[(f.qualname, handler_type_text(h))])
    return prints


def frozen_swallow_prints():
    """the same, frozen for the tree the rules were confirmed against (s3tlint/known_swallows.json, tools/gen_inventory.py)"""
    import json
    import os
    p = os.path.join(os.path.dirname(os.path.dirname(__file__)), 'known_swallows.json')
    if not os.path.exists(p):
        return {}
    return {(o, t, fp): r for o, t, fp, r in json.load(open(p))}


RECORDERS = {'set_exception', '_log_and_set_exception', 'notify_exception', 'set_exception_info'}
BROAD = {'Exception', 'BaseException', 'OSError', 'IOError', 'EnvironmentError', '<bare>'}


def handler_type_text(h):
    return norm(h.type) if h.type is not None else '<bare>'


def _top_level_calls(h):
    for s in h.body:
        if isinstance(s, (ast.Expr, ast.Assign, ast.Return)):
            for n in ast.walk(s):
                if isinstance(n, ast.Call):
                    yield n


def classify_handler(ctx, f, h, retry_handlers):
    if h in retry_handlers:
        return 'bounded-retry'
    if q.always_exits(h.body) and isinstance(h.body[-1], ast.Raise):
        return 're-raise'
    for c in _top_level_calls(h):
        r = ctx.r.resolve(c, f, _count=False)
        if r.kind in ('package', 'ambiguous'):
            for t in r.targets:
                if t.name in RECORDERS:
                    return 'record'
                if q.always_exits(t.node.body) and any(isinstance(n, ast.Raise) for n in own_nodes(t.node)) and r.kind == 'package':
                    return 're-raise'
    return 'swallow'


# ---------------------------------------------------------------------------
# retry loops
# ---------------------------------------------------------------------------

class RetryLoop:
    def __init__(self, func, loop, try_, handler, get_call):
        self.func, self.loop, self.try_, self.handler, self.get_call = func, loop, try_, handler, get_call


def _makes_get_object(ctx, func, node, depth=0):
    """A get_object client call lexically in node, or one hop into a same-class helper."""
    for c in ast.walk(node):
        if isinstance(c, ast.Call) and enclosing_func(c) is func:
            r = ctx.r.resolve(c, func, _count=False)
            if r.kind == 'client' and r.ext == 'get_object':
                return c
            if depth == 0 and r.kind == 'package':
                for t in r.targets:
                    if t.cls is not None and func.cls is not None and t.cls is func.cls:
                        if _makes_get_object(ctx, t, t.node, 1) is not None:
                            return c
    return None


def retry_loops(ctx):
    cached = getattr(ctx, '_retry_loops', None)
    if cached is not None:
        return cached
    out = []
    for f in ctx.p.all_functions():
        for loop in own_nodes(f.node):
            if not isinstance(loop, (ast.For, ast.While)):
                continue
            for st in loop.body:
                if isinstance(st, ast.Try):
                    gc = None
                    for s in st.body:
                        gc = gc or _makes_get_object(ctx, f, s)
                    if gc is None:
                        continue
                    for h in st.handlers:
                        # a handler that lets the loop continue
                        if not (q.always_exits(h.body) and isinstance(h.body[-1], (ast.Raise, ast.Return, ast.Break))):
                            out.append(RetryLoop(f, loop, st, h, gc))
    ctx._retry_loops = out
    return out


def retryable_names(ctx, f, h):
    """Element texts of the handler's exception tuple, names resolved through package constants."""
    t = h.type
    if t is None:
        return ['<bare>']
    def expand(e, mod, depth=0):
        if isinstance(e, ast.Tuple):
            out = []
            for x in e.elts:
                out += expand(x, mod, depth)
            return out
        if isinstance(e, ast.Name) and depth < 4:
            g = ctx.p.resolve_global(mod, e.id)
            if isinstance(g, tuple) and g[0] == 'const':
                return expand(g[2], g[1], depth + 1)
            return [e.id]
        return [norm(e)]
    return expand(t, f.module)


@rule('C03.a', ['C03', 'C07', 'C05', 'C08', 'C17', 'C16', 'C02'], floor=6)
def single_funnel(ctx):
    """Task.__call__ wraps waiting, kwarg gathering and _execute_main in a try whose
    handler catches Exception (or wider) and records it; no Task subclass overrides
    __call__/_execute_main/_log_and_set_exception; _execute_main runs only when the
    transfer is not done; done callbacks and (if final) announce_done are in finally."""
    # a task body runs only through the funnel: nobody but Task._execute_main (or __call__ itself) calls a task's _main
    for fx in ctx.p.all_functions():
        for c in own_calls(fx.node):
            if isinstance(c.func, ast.Attribute) and c.func.attr == '_main' and fx.qualname not in ('tasks.Task._execute_main', 'tasks.Task.__call__') \
                    and not (isinstance(c.func.value, ast.Call) and norm(c.func.value.func) == 'super'):
                ctx.ob(fx, c, False, 'a task body is run outside Task.__call__: its exception is not recorded on the transfer where it happened (it surfaces in '
                                     'the caller, e.g. as a "retryable" stream error), the done() check and the done callbacks are skipped')
            # ... and the step that runs it (_execute_main) is entered only from the funnel itself, on `self` (seeded C03-Q: the inline
            # IO write of a non-ranged download ran `task._execute_main(task._get_all_main_kwargs())`, so a destination write error of a
            # retryable type was retried as a stream error and the download reported success)
            if isinstance(c.func, ast.Attribute) and c.func.attr == '_execute_main' and not (isinstance(c.func.value, ast.Call) and norm(c.func.value.func) == 'super'):
                ok = fx.qualname.startswith('tasks.Task.') and norm(c.func.value) == 'self'
                ctx.ob(fx, c, ok, 'Task._execute_main is entered outside the funnel Task.__call__ (or on another task object): an exception of that task\'s body is not '
                                  'recorded on the transfer but surfaces in the caller (e.g. as a "retryable" stream error), its done() check and done callbacks are skipped')
    f = ctx.func('tasks.Task.__call__')
    trys = [n for n in own_nodes(f.node) if isinstance(n, ast.Try)]
    ctx.need(trys, 'Task.__call__ has no try statement')
    steps = ('_wait_on_dependent_futures', '_get_all_main_kwargs', '_execute_main')
    for step in steps:
        calls = q.find_calls(f, step)
        ok = bool(calls)
        for c in calls:
            frames = q.enclosing_trys(c)
            covered = False
            for t, field in frames:
                if field == 'body':
                    for h in t.handlers:
                        names = set(retryable_names(ctx, f, h))
                        if names & {'Exception', 'BaseException', '<bare>'}:
                            if classify_handler(ctx, f, h, ()) == 'record':
                                covered = True
            ok = ok and covered
        ctx.ob(f, f'{step}() inside try/except Exception -> set_exception', ok,
               f'an exception from {step} must be recorded into the coordinator, otherwise the future can report success/hang')
    g = ctx.cfg(f)
    waits = [n for c in q.find_calls(f, '_wait_on_dependent_futures') for n in g.nodes_of(c)]
    gathers = [n for c in q.find_calls(f, '_get_all_main_kwargs') for n in g.nodes_of(c)]
    for c in q.find_calls(f, '_wait_on_dependent_futures'):
        ctx.ob(f, f'{short(c)} is unconditional', not q.guards(c) and q.in_loop(c) is None,
               f'the wait for the futures this task depends on must not be skipped (guards={q.guard_texts(c)}): a final task would announce done / abort while requests are in flight')
    for c in q.find_calls(f, '_execute_main'):
        gs = q.guards(c)
        ctx.ob(f, c, q.guards_imply(gs, 'not self._transfer_coordinator.done()'),
               f'the task body must be skipped once the transfer is done (guards={q.guard_texts(c)})')
        # the done() test that guards the body must be evaluated after the wait (and kwargs gathering)
        tests = []
        for e, pol in gs:
            for x in ast.walk(e):
                if isinstance(x, ast.Call) and (dotted(x.func) or '').endswith('_transfer_coordinator.done'):
                    tests.append(x)
                elif isinstance(x, ast.Name):
                    for st, v in q.local_defs(f, x.id):
                        if isinstance(v, ast.AST):
                            tests += [y for y in ast.walk(v) if isinstance(y, ast.Call) and (dotted(y.func) or '').endswith('_transfer_coordinator.done')]
        tn = [n for t in tests for n in g.nodes_of(t)]
        ok = bool(tn) and bool(waits) and g.all_dominate(waits, tn, g.NORMAL) and (not gathers or g.all_dominate(gathers, tn, g.NORMAL))
        ctx.ob(f, 'done() is tested after waiting for the dependencies, right before the body', ok,
               'a cancellation/failure that lands while this task waits for its dependencies must still stop its request')
        between = g.reach(tn, avoid=g.nodes_of(c), labels=g.NORMAL) - set(g.nodes_of(c))
        blocking = [n for n in between if n.ast is not None and n.kind == 'stmt' and any(isinstance(y, ast.Call) and 'logger' not in norm(y.func) for y in ast.walk(n.ast))
                    and n in g.reach(tn, labels=g.NORMAL) and g.nodes_of(c)[0] in g.reach([n], labels=g.NORMAL)]
        ctx.ob(f, 'nothing blocks between the done() test and the body', not blocking, 'calls between the check and the body: ' + ', '.join(short(n.ast, 40) for n in blocking[:2]))
    anns = [n for c in q.find_calls(f, 'announce_done') for n in g.nodes_of(c)]
    ok = bool(waits) and bool(anns) and not (g.reach([g.entry], avoid=waits, labels=None, include_src=True) & set(anns))
    ctx.ob(f, 'every path to announce_done() passes the wait for the dependent futures', ok,
           'the final task can announce done (run cleanups / on_done) before the requests it depends on have returned')
    # finally: done callbacks + announce when final
    for c in q.find_calls(f, 'announce_done'):
        frames = q.enclosing_trys(c)
        ctx.ob(f, c, any(field == 'finalbody' for _, field in frames) and q.guards_imply(q.guards(c), 'self._is_final')
               and len(q.guards(c)) == 1, 'announce_done must be in finally, exactly under `if self._is_final`')
    if not q.find_calls(f, 'announce_done'):
        ctx.ob(f, 'announce_done() in finally', False, 'the final task no longer announces done')
    dc = [c for c, r in q.calls_in(ctx, f) if r.kind == 'open' and isinstance(q.in_loop(c), ast.For) and norm(q.in_loop(c).iter) == 'self._done_callbacks'
          and isinstance(c.func, ast.Name) and c.func.id == norm(q.in_loop(c).target)]
    ctx.ob(f, 'done callbacks run in finally', bool(dc) and all(any(field == 'finalbody' for _, field in q.enclosing_trys(c)) for c in dc),
           'task done-callbacks (invoker decrement, final IO task) must run whatever happens')
    base = ctx.cls('tasks.Task')
    for c in base.all_subclasses():
        for m in ('__call__', '_execute_main', '_log_and_set_exception', '_wait_on_dependent_futures', '_get_all_main_kwargs'):
            ctx.ob(c.methods.get(m) or c.qualname, f'{c.name} does not override {m}', m not in c.methods,
                   f'{c.qualname} overrides {m}: the exception funnel can be bypassed', trivial=True)
    # _log_and_set_exception records
    f2 = ctx.func('tasks.Task._log_and_set_exception')
    cs = [c for c, r in q.calls_in(ctx, f2) if r.kind == 'package' and any(t.qualname == f'{COORD}.set_exception' for t in r.targets)]
    ok = bool(cs) and all(not q.guards(c) and c.args and norm(c.args[0]) == f2.params[1] for c in cs)
    ctx.ob(f2, 'self._transfer_coordinator.set_exception(exception)', ok, 'the caught exception itself must be recorded, unconditionally')
    # _execute_main returns the result of _main(**kwargs)
    f3 = ctx.func('tasks.Task._execute_main')
    mains = q.find_calls(f3, '_main')
    ctx.ob(f3, 'self._main(**kwargs)', len(mains) == 1 and not q.guards(mains[0]) and q.in_loop(mains[0]) is None
           and not q.enclosing_trys(mains[0]), '_main must be called exactly once, unconditionally, outside any try')


@rule('C03.b', ['C03', 'C05', 'C17'], floor=2)
def success_has_one_writer(ctx):
    """set_result is called only by Task._execute_main, control dependent on
    self._is_final and dominated by the normal return of the _main call."""
    target = ctx.func(f'{COORD}.set_result')
    callers = q.callers_of(ctx, target.qualname)
    ctx.need(callers, 'nobody calls TransferCoordinator.set_result')
    for cf, c, r in callers:
        ctx.ob(cf, c, cf.qualname in ('tasks.Task._execute_main', 'tasks.Task.__call__'),
               'set_result may only be called by the task funnel (Task.__call__ / Task._execute_main: the final task after its _main returned)')
    # the shape is judged on the fully expanded Task.__call__ (whether the block sits in _execute_main or in __call__ itself)
    x = ctx.expanded()
    cf = x.func('tasks.Task.__call__')
    g = x.cfg(cf)
    srs = [c for c in own_calls(cf.node) if (dotted(c.func) or '').endswith('_transfer_coordinator.set_result')]
    ctx.ob(cf.qualname, 'exactly one set_result site in the expanded task funnel', len(srs) == 1, f'{len(srs)} sites', node=cf.node)
    for c in srs:
        mains = [n for m in q.find_calls(cf, '_main') for n in g.nodes_of(m)]
        mcalls = q.find_calls(cf, '_main')
        mpos = max([m._pos for m in mcalls], default=0)
        # tests made after _main returned decide whether the success is recorded: exactly `self._is_final`;
        # tests made before _main (the skip-if-done check of the funnel) only decide whether _main runs at all
        after = [(e, pol) for e, pol in q.guards(c) if getattr(e, '_pos', 0) > mpos]
        before = [(e, pol) for e, pol in q.guards(c) if getattr(e, '_pos', 0) <= mpos]
        conj = ' and '.join(('' if pol else 'not ') + f'({norm(e)})' for e, pol in after) or 'True'
        conj_b = ' and '.join(('' if pol else 'not ') + f'({norm(e)})' for e, pol in before) or 'True'
        ok = q.equivalent(conj, 'self._is_final') and (conj_b == 'True' or q.equivalent(conj_b, 'not self._transfer_coordinator.done()')) \
            and bool(mains) and g.all_dominate(mains, g.nodes_of(c), g.NORMAL) \
            and not q.in_handler(c) and not any(field == 'finalbody' for _, field in q.enclosing_trys(c))
        ctx.ob(cf.qualname, c, ok, f'set_result must run exactly when the final task\'s _main returned normally - success of the final step overrides an earlier cancel (guards={q.guard_texts(c)})')
        arg = c.args[0] if c.args else None
        if isinstance(arg, ast.Name):
            # every definition of the argument that can reach this call is the value _main returned
            rd = q.reaching_defs(g, cf, arg.id, g.nodes_of(c))
            src = bool(rd) and all(isinstance(v, ast.Call) and (dotted(v.func) or '').endswith('_main') for _, v in rd)
        else:
            src = isinstance(arg, ast.Call) and (dotted(arg.func) or '').endswith('_main')
        ctx.ob(cf.qualname, f'set_result argument {norm(arg)}', bool(src), 'the result must be the return value of _main')


@rule('C03.c', ['C03', 'C05', 'C06', 'C19', 'C20', 'C01', 'C02', 'C16'], floor=15)
def error_discipline(ctx):
    """Every except handler of the package re-raises, records the error into the
    coordinator/monitor/future, is a recognised bounded retry, or is in the frozen
    table of documented swallows (one reason each).  No contextlib.suppress."""
    retry_handlers = {rl.handler for rl in retry_loops(ctx)}
    seen = set()
    # fingerprints of the documented swallows, taken from the fully expanded view of the *current* tree (so that a
    # documented helper that has been inlined is still found inside its former callers) keyed by owner scope
    prints = dict(frozen_swallow_prints())
    for k_, v_ in swallow_prints(ctx).items():
        prints.setdefault(k_, v_)
    # C01 looks at the upload / copy side only (the handlers of the download front-ends say nothing about uploaded bytes)
    skip_mod = {'download', 'processpool', 'crt', 'delete'} if ctx.prop == 'C01' else \
        ({'upload', 'copies', 'delete', 'crt'} if ctx.prop == 'C02' else ({'upload', 'copies', 'delete', 'crt', 'processpool', '__init__'} if ctx.prop == 'C16' else set()))
    # a context manager's __exit__ that returns a true value suppresses whatever was propagating out of the with block
    for f in ctx.p.all_functions():
        if f.name == '__exit__' and f.module.name not in skip_mod:
            rets = [n for n in own_nodes(f.node) if isinstance(n, ast.Return) and n.value is not None]
            bad = [n for n in rets if not (isinstance(n.value, ast.Constant) and not n.value.value)]
            ctx.ob(f, f'{f.qualname} does not suppress exceptions', not bad,
                   f'returns {[norm(n.value) for n in bad]}: an error raised inside the with block (a failed request) disappears and the step looks successful')
    for f in ctx.p.all_functions():
        if f.module.name in skip_mod:
            continue
        for h in own_nodes(f.node):
            if not isinstance(h, ast.ExceptHandler):
                continue
            kind = classify_handler(ctx, f, h, retry_handlers)
            key = (f.qualname, handler_type_text(h))
            if kind == 'swallow':
                reason = SWALLOWS.get(key)
                if reason is None:
                    owner = f.cls.qualname if f.cls is not None else f.module.name
                    fp = (owner, handler_type_text(h), handler_fingerprint(h._parent, h))
                    if fp in prints:
                        reason = prints[fp] + ' (same guarded statements as the documented site)'
                        key = (f.qualname + '#' + str(len(seen)), key[1])
                if reason and key not in seen:
                    seen.add(key)
                    ctx.ob(f, f'except {key[1]}: documented swallow', True, reason)
                else:
                    ctx.ob(f, f'except {key[1]}: ' + ' ; '.join(short(s, 40) for s in h.body)[:100], False,
                           'this handler neither re-raises nor records the error and is not a documented swallow: a failed step can be reported as success')
            else:
                ctx.ob(f, f'except {key[1]}: {kind}', True, kind)
    for f in ctx.p.all_functions():
        for c in own_calls(f.node):
            d = dotted(c.func) or ''
            if d.endswith('suppress') and ('contextlib' in d or d == 'suppress'):
                ctx.ob(f, c, False, 'contextlib.suppress swallows errors')
        for t in own_nodes(f.node):
            if isinstance(t, ast.Try) and t.finalbody:
                for n in t.finalbody:
                    for x in ast.walk(n):
                        if isinstance(x, (ast.Return, ast.Break, ast.Continue)) and enclosing_func(x) is f:
                            ctx.ob(f, x, False, 'return/break/continue inside finally discards a propagating exception')


@rule('C03.d', ['C03', 'C02'], floor=12)
def bounded_retry(ctx):
    """Each stream retry loop iterates range(<attempts>), makes its get_object inside
    the try, is continued only by the handler naming the retryable set (no Exception/
    BaseException/OSError in the manager and process-pool sets), ends the successful
    attempt with return, and is followed by raise RetriesExceededError(<last error>).
    Every get_object call of the package sits in such a loop."""
    loops = retry_loops(ctx)
    ctx.need(len(loops) >= 1, 'no retry loop recognised')
    in_loop_calls = set()
    for rl in loops:
        f = rl.func
        in_loop_calls.add(rl.get_call)
        it = rl.loop.iter if isinstance(rl.loop, ast.For) else None
        ok = isinstance(it, ast.Call) and isinstance(it.func, ast.Name) and it.func.id == 'range' and len(it.args) == 1 \
            and not isinstance(it.args[0], ast.Constant)
        bound = norm(it.args[0]) if ok else norm(getattr(rl.loop, 'test', None))
        if not ok and isinstance(it, ast.Call) and isinstance(it.func, ast.Name) and it.func.id == 'range' and len(it.args) == 2 and norm(it.args[0]) == '1' \
                and isinstance(it.args[1], ast.BinOp) and isinstance(it.args[1].op, ast.Add) and norm(it.args[1].right) == '1':
            ok, bound = True, norm(it.args[1].left)  # range(1, attempts + 1): the same number of iterations
        ok = ok and ('attempt' in bound.lower())
        if not ok and isinstance(rl.loop, ast.While):
            # counted while: k = 0; while k < attempts: ...; k += 1 on every way back to the loop head
            t = rl.loop.test
            if isinstance(t, ast.Compare) and len(t.ops) == 1 and isinstance(t.ops[0], ast.Lt) and isinstance(t.left, ast.Name) and 'attempt' in norm(t.comparators[0]).lower():
                k = t.left.id
                g = ctx.cfg(f)
                head = [n for n in g.nodes if n.kind == 'while' and n.stmt is rl.loop]
                incs = [n for x in ast.walk(rl.loop) if isinstance(x, ast.AugAssign) and isinstance(x.op, ast.Add) and norm(x.target) == k and norm(x.value) == '1'
                        and q.in_loop(x) is rl.loop for n in g.nodes_of(x)]
                inits = [v for st, v in q.local_defs(f, k) if isinstance(st, ast.Assign) and not any(a is rl.loop for a in ancestors(st))]
                others = [st for st, v in q.local_defs(f, k) if any(a is rl.loop for a in ancestors(st)) and not (isinstance(st, ast.AugAssign))]
                first = [b for h in head for b, l in g.succ[h] if l == 't']
                ok = bool(head) and bool(incs) and len(inits) == 1 and norm(inits[0]) == '0' and not others \
                    and not (set(head) & g.reach(first, avoid=incs, include_src=True)) \
                    and len([x for x in ast.walk(rl.loop) if isinstance(x, ast.AugAssign) and norm(x.target) == k]) == len({id(n.ast) for n in incs})
                bound = norm(t.comparators[0])
        ctx.ob(f, f'retry loop over {short(it) if it is not None else "while " + bound}', ok,
               'stream retries must be bounded by the attempts setting (for _ in range(attempts))')
        names = retryable_names(ctx, f, rl.handler)
        legacy = f.module.name == '__init__'
        bad = set(names) & BROAD
        if legacy:
            ctx.ob(f, f'retry handler {handler_type_text(rl.handler)[:60]}', not (set(names) & {'Exception', 'BaseException', '<bare>'}),
                   f'legacy retryable set {names}', trivial=True)
        else:
            ctx.ob(f, f'retry handler {handler_type_text(rl.handler)}', not bad and handler_type_text(rl.handler) == 'S3_RETRYABLE_DOWNLOAD_ERRORS',
                   f'only the retryable stream errors may be retried; found {names}' + (f' (too broad: {sorted(bad)})' if bad else ''))
        others = [h for h in rl.try_.handlers if h is not rl.handler]
        ctx.ob(f, 'single handler on the retry try', not others, 'another handler on the retry try changes which errors are retried/propagated')
        after_try = []
        lb = rl.loop.body
        if rl.try_ in lb:
            after_try = lb[lb.index(rl.try_) + 1:]
        ctx.ob(f, 'successful attempt returns', q.always_exits(rl.try_.body) or (rl.try_.orelse and q.always_exits(rl.try_.orelse))
               or (q.always_exits(after_try) and isinstance(after_try[-1], ast.Return) and all(q.always_exits(h.body) for h in rl.try_.handlers)),
               'a successful attempt must leave the loop (return), otherwise the object is fetched again')
        blk = q.containing_block(rl.loop)
        i = [k for k, s in enumerate(blk) if s is rl.loop][0]
        nxt = blk[i + 1] if i + 1 < len(blk) else None
        last = rl.handler.name
        stored = [norm(s.targets[0]) for s in rl.handler.body if isinstance(s, ast.Assign) and isinstance(s.value, ast.Name) and s.value.id == last]
        ok = isinstance(nxt, ast.Raise) and isinstance(nxt.exc, ast.Call) and norm(nxt.exc.func) == 'RetriesExceededError' \
            and nxt.exc.args and norm(nxt.exc.args[0]) in stored and not rl.loop.orelse
        ctx.ob(f, 'raise RetriesExceededError(last_exception) after the loop', ok,
               'when attempts run out the last retryable error must be raised wrapped in RetriesExceededError')
        # no enclosing unbounded loop re-entering the attempts
        outer = [a for a in ancestors(rl.loop) if isinstance(a, ast.While) and enclosing_func(a) is f]
        ctx.ob(f, 'no enclosing while loop', not outer, 'an enclosing while loop makes the number of requests unbounded', trivial=True)
    # the shared tuple itself
    utils = ctx.p.modules['utils']
    if 'S3_RETRYABLE_DOWNLOAD_ERRORS' in utils.consts:
        e = utils.consts['S3_RETRYABLE_DOWNLOAD_ERRORS']
        names = []
        for x in (e.elts if isinstance(e, (ast.Tuple, ast.List)) else [e]):
            if isinstance(x, ast.Name):
                g = ctx.p.resolve_global(utils, x.id)
                names.append(norm(g[2]) if isinstance(g, tuple) and g[0] == 'const' else x.id)
            else:
                names.append(norm(x))
        bad = set(names) & BROAD
        ctx.ob('utils.S3_RETRYABLE_DOWNLOAD_ERRORS', f'S3_RETRYABLE_DOWNLOAD_ERRORS = {names}', not bad,
               f'the retryable set must not contain catch-all classes: {sorted(bad)}')
        origins = set()
        for x in (e.elts if isinstance(e, (ast.Tuple, ast.List)) else [e]):
            if isinstance(x, ast.Name):
                g_ = ctx.p.resolve_global(utils, x.id)
                if isinstance(g_, tuple) and g_[0] == 'const':
                    origins.add('builtins.' + norm(g_[2]) if isinstance(g_[2], ast.Name) else norm(g_[2]))
                elif isinstance(g_, tuple) and g_[0] == 'external':
                    origins.add(f'{g_[1]}.{g_[2]}')
                else:
                    origins.add(x.id)
            else:
                origins.add(norm(x))
        want = {'socket.timeout', 'builtins.ConnectionError', 'botocore.exceptions.ReadTimeoutError', 'botocore.exceptions.IncompleteReadError',
                'botocore.exceptions.ResponseStreamingError'}
        ctx.ob('utils.S3_RETRYABLE_DOWNLOAD_ERRORS', 'the retryable set is exactly the five stream errors', origins == want,
               f'non-retryable errors must never be retried; unexpected members: {sorted(origins - want)}; missing: {sorted(want - origins)}')
    else:
        raise AnalysisError('utils.S3_RETRYABLE_DOWNLOAD_ERRORS vanished')
    for f, c, op in q.client_calls(ctx, 'get_object'):
        inside = any(c is rl.get_call for rl in loops)
        if not inside:
            # one hop: the function is the same-class helper called from a loop
            inside = any(rl.func.cls is not None and rl.func.cls is f.cls and
                         any(t is f for t in (ctx.r.resolve(rl.get_call, rl.func, _count=False).targets)) for rl in loops)
        ctx.ob(f, c, inside, 'this get_object is not inside a recognised bounded retry loop (stream errors would be fatal or retried without bound)')


def on_queued_calls(ctx, f):
    """Calls of the loop variable of a for-loop over get_callbacks(..., 'queued')."""
    out = []
    for c, r in q.calls_in(ctx, f):
        lp = q.in_loop(c)
        if r.kind == 'open' and isinstance(lp, ast.For) and isinstance(c.func, ast.Name) and c.func.id == norm(lp.target) and \
                q.derives_from(f, lp.iter, lambda n: isinstance(n, ast.Call) and (dotted(n.func) or '').endswith('get_callbacks') and len(n.args) > 1 and norm(n.args[1]) == "'queued'"):
            out.append(c)
    return out


@rule('C03.e', ['C03', 'C05', 'C08', 'C07', 'C04', 'C18'], floor=4)
def submission_failures_recorded_and_announced(ctx):
    """SubmissionTask._main: the try covers set_status_to_queued, the on_queued loop,
    set_status_to_running and _submit; the handler catches BaseException and, in
    order, records the error, waits for all submitted futures, announces done."""
    f = ctx.func('tasks.SubmissionTask._main')
    trys = [t for t in own_nodes(f.node) if isinstance(t, ast.Try)]
    ctx.need(trys, 'SubmissionTask._main has no try')
    for what in ('set_status_to_queued', 'on_queued_callback', 'set_status_to_running', '_submit'):
        cs = [c for c in own_calls(f.node) if (dotted(c.func) or '').split('.')[-1] == what]
        if what == 'on_queued_callback':
            cs = on_queued_calls(ctx, f)
        ok = bool(cs)
        for c in cs:
            fr = q.enclosing_trys(c)
            ok = ok and any(field == 'body' and any('BaseException' in retryable_names(ctx, f, h) or h.type is None for h in t.handlers) for t, field in fr)
        ctx.ob(f, f'{what}() inside try/except BaseException', ok,
               'a failure (incl. KeyboardInterrupt with serial executors) here must be recorded and announced, otherwise result() hangs')
    hs = [h for t in trys for h in t.handlers if 'BaseException' in retryable_names(ctx, f, h) or h.type is None]
    if not hs:
        ctx.ob(f, 'except BaseException', False, 'the submission error handler vanished')
        return
    h = hs[0]
    g = ctx.cfg(f)
    def nodes(name):
        return [n for s in h.body for c in ast.walk(s) if isinstance(c, ast.Call) and (dotted(c.func) or '').endswith(name) for n in g.nodes_of(c)]
    rec, wait, ann = nodes('_log_and_set_exception'), nodes('_wait_for_all_submitted_futures_to_complete'), nodes('announce_done')
    top = lambda ns: all(any(n.ast is s or n.stmt is s for s in h.body) for n in ns)
    hn = [n for n in g.nodes if n.kind == 'handler' and n.ast is h]
    ctx.need(hn, 'handler node not found in CFG')
    ctx.ob(f, 'handler: record -> wait -> announce', bool(rec and wait and ann) and top(rec + wait + ann)
           and g.all_dominate(rec, wait, g.NORMAL, entry=hn[0]) and g.all_dominate(wait, ann, g.NORMAL, entry=hn[0])
           and g.must_pass(hn, ann, [g.exit], g.NORMAL),
           'the handler must record the error, wait for every spawned future, then announce done (cleanups/on_done only after all requests returned)')
    # no silent way out: a submission task that returns normally without having run _submit (which
    # hands the transfer to a final task) and without announcing leaves the transfer never done
    subn = [n for c in own_calls(f.node) if (dotted(c.func) or '').split('.')[-1] == '_submit' for n in g.nodes_of(c)]
    ctx.ob(f, 'every normal path through _main runs _submit(...) or announce_done()', bool(subn) and g.must_pass([g.entry], subn + ann, [g.exit], g.NORMAL),
           'a return before _submit (e.g. "already cancelled, nothing to do") means nobody ever announces done: result()/shutdown() hang, cleanups and on_done never run')
    # the wait helper loops until the set of associated futures is stable
    w = ctx.func('tasks.SubmissionTask._wait_for_all_submitted_futures_to_complete')
    loops = [n for n in own_nodes(w.node) if isinstance(n, ast.While)]
    ok = bool(loops) and any((dotted(c.func) or '').endswith('_wait_until_all_complete') and q.in_loop(c) is not None for c in own_calls(w.node)) \
        and sum('associated_futures' in norm(n) for n in own_nodes(w.node) if isinstance(n, ast.Assign)) >= 2
    ctx.ob(w, 'wait until associated futures reach a fixed point', ok, 'tasks spawned by tasks must be waited for as well')


@rule('C03.f', ['C03'], floor=3)
def who_may_record_a_failure(ctx):
    """A failure is recorded on the (manager) coordinator only by the two funnels - Task.__call__ and
    SubmissionTask._main, in their handlers, through Task._log_and_set_exception - and by the user
    facing TransferFuture.set_exception.  A task body that records an error itself and returns
    normally is overridden by the final task's set_result (reported success of a failed step)."""
    tgt = ctx.func(f'{COORD}.set_exception')
    allowed = {'tasks.Task._log_and_set_exception', 'futures.TransferFuture.set_exception'}
    n = 0
    for cf, c, r in q.callers_of(ctx, tgt.qualname):
        if r.kind == 'ambiguous' and cf.module.name == 'crt':
            continue
        n += 1
        ctx.ob(cf, c, cf.qualname in allowed, 'only the task funnel may record a failure; a step signals failure by raising')
    ctx.need(n >= 2, f'only {n} callers of TransferCoordinator.set_exception')
    for cf, c, r in q.callers_of(ctx, 'tasks.Task._log_and_set_exception'):
        ctx.ob(cf, c, cf.qualname in ('tasks.Task.__call__', 'tasks.SubmissionTask._main') and q.in_handler(c) is not None,
               'the recording helper is called only from the handlers of the two funnels')
    # a read of coordinator.exception is never re-raised inside a task body (it would be taken for
    # an error of the current step - e.g. a retryable stream error)
    base = ctx.cls('tasks.Task')
    for cl in base.all_subclasses():
        for m in cl.methods.values():
            for rs in own_nodes(m.node):
                if isinstance(rs, ast.Raise) and rs.exc is not None:
                    v = q.resolve_local(m, rs.exc)
                    bad = isinstance(v, ast.Attribute) and v.attr == 'exception' and 'coordinator' in norm(v.value)
                    ctx.ob(m, rs, not bad, 'raising the transfer\'s stored exception inside a task body re-enters the step\'s own error handling '
                                           '(a stored write error becomes a "retryable" stream error)', trivial=not bad)
