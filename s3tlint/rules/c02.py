"""C02 - downloads deliver exactly the object bytes (rules beyond those in c16.py / c14.py)."""
import ast

from ..engine import rule
from ..ir import ancestors, dotted, kwarg, norm, own_calls, own_nodes, short
from .. import q

# every place where a response body is drained
BODY_READERS = [
    '__init__.MultipartDownloader._download_range',
    '__init__.S3Transfer._do_get_object',
    'download.DownloadChunkIterator.__next__',
    'processpool.GetObjectWorker._write_to_file',
]


def _empty_test(var):
    return [f'not {var}', f"{var} == b''", f'len({var}) == 0', f'0 == len({var})']


def _implies_empty(conds, var):
    return any(q.guards_imply(conds, t) for t in _empty_test(var))


@rule('C02.f', ['C02', 'C19'], floor={'*': 4, 'C19': 1})
def bodies_are_drained_until_an_empty_read(ctx):
    """Every loop that drains a GetObject body ends only when a read returns nothing - the
    iter(lambda: body.read(n), b'') idiom with no early exit, or explicit exits whose
    conditions imply that the chunk just read is empty.  A short read is not the end of
    the stream (sockets return what they have)."""
    # the expanded view also covers a reader moved into / out of a helper
    x = ctx
    for qn in BODY_READERS:
        if ctx.prop == 'C19' and not qn.startswith('processpool.'):
            continue
        f = x.func(qn)
        reads = [c for c in ast.walk(f.node) if isinstance(c, ast.Call) and isinstance(c.func, ast.Attribute) and c.func.attr == 'read'
                 and not (dotted(c.func) or '').startswith('self._fileobj')]
        # a reader built as a bound call: functools.partial(body.read, n) (canonically FunctionContainer(body.read, n))
        bound_reads = [c for c in ast.walk(f.node) if isinstance(c, ast.Call) and norm(c.func) == 'FunctionContainer' and c.args
                       and isinstance(c.args[0], ast.Attribute) and c.args[0].attr == 'read' and not (dotted(c.args[0]) or '').startswith('self._fileobj')]
        ctx.need(reads or bound_reads, f'{qn} no longer reads a body')
        for rd in bound_reads + reads:
            lam = rd if rd in bound_reads else next((a for a in ancestors(rd) if isinstance(a, ast.Lambda)), None)
            if lam is not None:
                it = lam._parent
                if isinstance(it, ast.Assign) and len(it.targets) == 1 and isinstance(it.targets[0], ast.Name):
                    # the reader is kept in a local first: read_chunk = ...; iter(read_chunk, b'')
                    uses = [x for x in own_nodes(f.node) if isinstance(x, ast.Name) and x.id == it.targets[0].id and isinstance(x.ctx, ast.Load)]
                    if len(uses) == 1 and isinstance(uses[0]._parent, ast.Call):
                        lam, it = uses[0], uses[0]._parent
                ok = isinstance(it, ast.Call) and isinstance(it.func, ast.Name) and it.func.id == 'iter' and len(it.args) == 2 and it.args[0] is lam \
                    and isinstance(it.args[1], ast.Constant) and it.args[1].value == b''
                loop = None
                if ok:
                    par = it._parent
                    if isinstance(par, ast.For) and par.iter is it:
                        loop = par
                    elif isinstance(par, ast.Assign) and isinstance(par.targets[0], ast.Name):
                        loops = [l for l in own_nodes(f.node) if isinstance(l, ast.For) and isinstance(l.iter, ast.Name) and l.iter.id == par.targets[0].id]
                        loop = loops[0] if len(loops) == 1 else None
                early = [n for n in ast.walk(loop) if isinstance(n, (ast.Break, ast.Return)) and q.in_loop(n) is loop] if loop is not None else []
                ctx.ob(f, f"for chunk in iter(lambda: {short(rd, 40)}, b''): no early exit", ok and loop is not None and not early,
                       'the body must be drained until a read returns b\'\': stopping earlier (e.g. on a short read) truncates the download while it still reports success')
                continue
            st = rd._parent
            var = st.targets[0].id if isinstance(st, ast.Assign) and isinstance(st.targets[0], ast.Name) else None
            if var is None:
                ctx.ob(f, rd, False, 'the chunk read from the body is not kept in a local: cannot decide the end-of-stream test')
                continue
            g = x.cfg(f)
            loop = q.in_loop(rd)
            rn = g.nodes_of(rd)
            if loop is not None:
                exits = [n for n in ast.walk(loop) if isinstance(n, (ast.Break, ast.Return)) and q.in_loop(n) is loop]
                stop_nodes = [m for e in exits for m in g.nodes_of(e)]
            else:
                # an iterator step: the stream ends where StopIteration is raised
                exits = [n for n in own_nodes(f.node) if isinstance(n, ast.Raise) and 'StopIteration' in norm(n.exc)]
                stop_nodes = [m for e in exits for m in g.nodes_of(e)]
            ctx.need(stop_nodes, f'{qn}: no end-of-stream exit found')
            pcs = g.path_conditions(rn, stop_nodes, labels=g.NORMAL)
            ctx.need(pcs is not None, f'too many paths in {qn}')
            ok = bool(pcs) and all(_implies_empty(pc, var) for pc in pcs)
            ctx.ob(f, f'reading stops only when {var} is empty', ok,
                   'an end-of-stream decision that does not imply an empty read (e.g. len(chunk) < n) ends the download at a short read: missing bytes, reported success')


# writers of (offset, data) pairs
OFFSET_WRITERS = [
    ('__init__.MultipartDownloader._perform_io_writes', None),
    ('download.IOWriteTask._main', 'offset'),
    ('processpool.GetObjectWorker._write_to_file', 'offset'),
]


@rule('C02.g', ['C02'], floor=3)
def offset_tagged_data_is_written_at_its_offset(ctx):
    """Writers of (offset, data) pairs seek to the pair's own offset on every path between
    learning the offset and writing - never conditionally on a locally tracked position
    (which is wrong as soon as chunks of different parts interleave)."""
    for qn, pname in OFFSET_WRITERS:
        f = ctx.func(qn)
        g = ctx.cfg(f)
        writes = [c for c in own_calls(f.node) if isinstance(c.func, ast.Attribute) and c.func.attr == 'write']
        ctx.need(writes, f'{qn} no longer writes')
        recv = {norm(c.func.value) for c in writes}
        if pname is not None and pname in f.params:
            offs, srcs = {pname}, [g.entry]
        else:
            # for/tuple-unpack: offset, data = task
            offs, srcs = set(), []
            for n in own_nodes(f.node):
                if isinstance(n, ast.Assign) and isinstance(n.targets[0], ast.Tuple) and len(n.targets[0].elts) == 2 and all(isinstance(e, ast.Name) for e in n.targets[0].elts):
                    wn = {norm(a) for c in writes for a in c.args}
                    if n.targets[0].elts[1].id in wn:
                        offs.add(n.targets[0].elts[0].id)
                        srcs += g.nodes_of(n)
        ctx.need(offs and srcs, f'{qn}: offset of the written data not identified')
        seeks = [c for c in own_calls(f.node) if isinstance(c.func, ast.Attribute) and c.func.attr == 'seek' and norm(c.func.value) in recv
                 and len(c.args) == 1 and isinstance(c.args[0], ast.Name) and c.args[0].id in offs]
        sn = [n for c in seeks for n in g.nodes_of(c)]
        wn_ = [n for c in writes for n in g.nodes_of(c)]
        ok = bool(sn) and not (g.reach(srcs, avoid=sn, labels=g.NORMAL, include_src=False) & set(wn_))
        ctx.ob(f, f'seek({"/".join(sorted(offs))}) on every path from the offset to write()', ok,
               'a write that can be reached without seeking to the chunk\'s own offset puts data of interleaved parts at the wrong place')
