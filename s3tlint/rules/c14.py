"""C14 - part planning tiles the object and respects S3 limits."""
import ast

from ..engine import rule
from ..ir import AnalysisError, ancestors, dotted, enclosing_func, kwarg, norm, own_calls, own_nodes, short
from .. import q
from ..poly import NotPoly, equal, poly, show


def _threshold_names(f):
    names = set()
    for n in own_nodes(f.node):
        if isinstance(n, ast.Assign) and len(n.targets) == 1 and isinstance(n.targets[0], ast.Name) and norm(n.value).endswith('multipart_threshold'):
            names.add(n.targets[0].id)
    return names


def _is_threshold(e, f, tn):
    return (isinstance(e, ast.Attribute) and e.attr == 'multipart_threshold') or (isinstance(e, ast.Name) and e.id in tn)


def _kind(stmts, f):
    """'multi' / 'single' / None for a branch, judged by the callee names and returns."""
    text = ' '.join(norm(s) for s in stmts)
    calls = [(dotted(c.func) or '').split('.')[-1] for s in stmts for c in ast.walk(s) if isinstance(c, ast.Call)]
    # a branch may only pick the method (submit = self._submit_ranged... ) and call it after the if
    calls += [a.attr for s in stmts if isinstance(s, ast.Assign) and isinstance(s.value, ast.Attribute) and isinstance(s.value.value, ast.Name)
              and s.value.value.id == 'self' for a in [s.value] if f.cls is not None and f.cls.lookup(a.attr) is not None]
    if any('multipart' in c or 'ranged' in c for c in calls):
        return 'multi'
    for s in stmts:
        if isinstance(s, ast.Return) and isinstance(s.value, ast.Constant) and isinstance(s.value.value, bool):
            return 'multi' if s.value.value else 'single'
    if calls:
        return 'single'
    return None


@rule('C14.a', ['C14'], floor=7)
def one_multipart_decision(ctx):
    """Sibling agreement of every multipart decision (upload filename / non-seekable x2,
    download, copy, process pool, legacy upload, legacy download): each compares a size
    with multipart_threshold and, normalised, means 'multipart iff size >= threshold'."""
    n = 0
    sites = set()
    for f in ctx.p.all_functions():
        if f.module.name == 'crt':
            continue
        tn = _threshold_names(f)
        for cmp in own_nodes(f.node):
            if not (isinstance(cmp, ast.Compare) and len(cmp.ops) == 1):
                continue
            l, r = cmp.left, cmp.comparators[0]
            if _is_threshold(r, f, tn):
                op = cmp.ops[0]
            elif _is_threshold(l, f, tn):
                # threshold on the left: mirror
                op = {ast.Lt: ast.Gt, ast.Gt: ast.Lt, ast.LtE: ast.GtE, ast.GtE: ast.LtE}.get(type(cmp.ops[0]), type(cmp.ops[0]))()
            else:
                continue
            n += 1
            sites.add(f.qualname)
            par = cmp._parent
            top = cmp
            flip = False
            while isinstance(par, ast.UnaryOp) and isinstance(par.op, ast.Not):
                top, par, flip = par, par._parent, not flip
            if flip:
                op = {ast.Lt: ast.GtE, ast.GtE: ast.Lt, ast.Gt: ast.LtE, ast.LtE: ast.Gt}.get(type(op), type(op))()
            ok, why = False, ''
            if isinstance(par, ast.Return):
                ok = isinstance(op, ast.GtE) and 'multipart' in f.name
                why = f'`return size {type(op).__name__} threshold` in {f.name}: True must mean multipart, i.e. size >= threshold'
                if ok:
                    # callers: `if not requires(...): single else multi`
                    for cf, c, r_ in q.callers_of(ctx, f.qualname):
                        u = c._parent
                        neg = isinstance(u, ast.UnaryOp) and isinstance(u.op, ast.Not)
                        iff = u._parent if neg else u
                        if isinstance(iff, ast.If) and (iff.test is u or iff.test is c):
                            tb, fb = _kind(iff.body, cf), _kind(q.else_branch(iff), cf)
                            want = ('single', 'multi') if neg else ('multi', 'single')
                            ctx.ob(cf, f'if {norm(iff.test)}: {tb} else: {fb}', (tb, fb) == want, 'the branches of the multipart decision are swapped')
            elif isinstance(par, ast.If) and par.test is top:
                tb, fb = _kind(par.body, f), _kind(q.else_branch(par), f) if q.else_branch(par) else None
                if isinstance(op, ast.Lt):
                    ok = tb == 'single' and (fb == 'multi')
                elif isinstance(op, ast.GtE):
                    ok = tb == 'multi' and (fb == 'single')
                why = f'`if size {type(op).__name__} threshold`: then={tb}, else={fb}; multipart must be chosen exactly when size >= threshold'
            else:
                why = f'comparison with the threshold in an unrecognised position: {short(par, 60)}'
            ctx.ob(f, cmp, ok, why)
    ctx.need(n >= 7, f'only {n} multipart decisions found')
    for qn in ('upload.UploadFilenameInputManager.requires_multipart_upload', 'upload.UploadNonSeekableInputManager.requires_multipart_upload',
               'download.DownloadSubmissionTask._submit', 'copies.CopySubmissionTask._submit', 'processpool.GetObjectSubmitter._submit_get_object_jobs',
               '__init__.S3Transfer.upload_file', '__init__.S3Transfer._download_file'):
        ctx.ob(qn, 'decides single vs multipart by comparing the size with multipart_threshold', qn in sites,
               'this front-end no longer compares the size with multipart_threshold')


def _fn_return_env(ctx, qn):
    f = ctx.func(qn)
    env = {}
    for n in own_nodes(f.node):
        if isinstance(n, ast.Assign) and len(n.targets) == 1 and isinstance(n.targets[0], ast.Name) and not q.guards(n):
            env.setdefault(n.targets[0].id, n.value)
    return f, env


def check_range_fn(ctx, qn):
    """start(i) = i*p; for i != n-1: end(i) + 1 = start(i+1); last part open or T-1."""
    f = ctx.func(qn)
    p, i, n = f.bound_params()[0:3]
    # the returned f-string 'bytes={S}-{E}' names the start and end locals
    ret = [x for x in own_nodes(f.node) if isinstance(x, ast.Return) and x.value is not None]
    fs = q.resolve_local(f, ret[0].value) if len(ret) == 1 else None
    S = E = None
    if isinstance(fs, ast.JoinedStr):
        parts = [v for v in fs.values]
        fv = [v.value for v in parts if isinstance(v, ast.FormattedValue)]
        consts = [v.value for v in parts if isinstance(v, ast.Constant)]
        if len(fv) == 2 and consts[:2] == ['bytes=', '-'] and len(consts) == 2:
            S, E = fv[0], fv[1]
    ctx.ob(f, "returns f'bytes={start}-{end}'", S is not None, f'range header format changed: {norm(fs) if fs is not None else None}')
    if S is None:
        return
    # start / end are locals (with their definitions) or the expressions themselves
    starts = [v for st, v in q.local_defs(f, S.id) if isinstance(v, ast.AST)] if isinstance(S, ast.Name) else [S]
    ok = len(starts) == 1 and equal(starts[0], f'{i} * {p}')
    ctx.ob(f, f'range start = {i} * {p}', ok, f'range start must be part_index * part_size, found {[norm(s) for s in starts]}')
    ends = [(st, v) for st, v in q.local_defs(f, E.id) if isinstance(v, ast.AST)] if isinstance(E, ast.Name) else [(ret[0], E)]
    S = S.id if isinstance(S, ast.Name) else '<start>'
    inner = [(st, v) for st, v in ends if not q.guards_imply(q.guards(st), f'{i} == {n} - 1')]
    last = [(st, v) for st, v in ends if q.guards_imply(q.guards(st), f'{i} == {n} - 1')]
    ok = len(inner) == 1
    if ok:
        try:
            e = poly(inner[0][1], {S: starts[0]} if starts else {})
            nxt = poly(f'({i} + 1) * {p}')
            ok = poly_add1(e) == nxt
        except NotPoly:
            ok = False
    ctx.ob(f, 'range end + 1 == start of the next part (for every part but the last)', ok,
           f'consecutive ranges must neither overlap nor leave a gap: end = {norm(inner[0][1]) if inner else None}')
    okl = bool(last) and all(norm(v) == "''" or (isinstance(v, ast.Call) and norm(v.func) == 'str') for st, v in last)
    if len(f.bound_params()) > 3:
        T = f.bound_params()[3]
        okl = okl and any(norm(v) == f'str({T} - 1)' and q.guards_imply(q.guards(st), f'{T} is not None') for st, v in last) \
            and all(norm(v) in ("''", f'str({T} - 1)') for st, v in last)
    else:
        okl = okl and all(norm(v) == "''" for st, v in last)
    ctx.ob(f, 'last part is open-ended or ends at total_size - 1', okl, f'the last range must reach the last byte: {[norm(v) for _, v in last]}')


def poly_add1(p):
    out = dict(p)
    out[()] = out.get((), 0) + 1
    return {k: v for k, v in out.items() if v}


def part_loop(f, n_name):
    """The loop that enumerates the parts of a multipart plan over the part count n:
    `for k in range(1, n + 1)` (k is the part number, k - 1 the index) or `for i in range(n)`
    (i is the index, i + 1 the number).  -> (loop, index expression text, number expression text) or None"""
    for l in own_nodes(f.node):
        if isinstance(l, ast.For) and isinstance(l.target, ast.Name) and isinstance(l.iter, ast.Call) and norm(l.iter.func) == 'range':
            a = l.iter.args
            if len(a) == 2 and norm(a[0]) == '1' and equal(a[1], f'{n_name} + 1'):
                return l, f'{l.target.id} - 1', l.target.id
            if (len(a) == 1 and norm(a[0]) == n_name) or (len(a) == 2 and norm(a[0]) == '0' and norm(a[1]) == n_name):
                return l, l.target.id, f'{l.target.id} + 1'
    return None


def copy_part_size_call(ctx, f):
    """In CopySubmissionTask._submit_multipart_request: the call that computes the 'size' main kwarg of the CopyPartTask
    (whatever the callee is called and wherever it lives). -> (call, callee FuncInfo or None)"""
    for s_ in q.submits(ctx):
        if s_.func is not f:
            continue
        for cl, ctor, _ in s_.task_ctors:
            if cl is not None and cl.name == 'CopyPartTask' and ctor is not None:
                mk = q.resolve_local(f, kwarg(ctor, 'main_kwargs'))
                if isinstance(mk, ast.Dict):
                    for k, v in zip(mk.keys, mk.values):
                        if isinstance(k, ast.Constant) and k.value == 'size':
                            c = q.resolve_local(f, v)
                            if isinstance(c, ast.Call):
                                r = ctx.r.resolve(c, f, _count=False)
                                return c, (r.targets[0] if r.kind == 'package' and len(r.targets) == 1 else None)
    return None, None


def copy_part_size_cases(ctx, f):
    """[(defining statement, value)] of the CopyPartTask 'size' kwarg when it is computed in place through locals"""
    for s_ in q.submits(ctx):
        if s_.func is not f:
            continue
        for cl, ctor, _ in s_.task_ctors:
            if cl is not None and cl.name == 'CopyPartTask' and ctor is not None:
                mk = q.resolve_local(f, kwarg(ctor, 'main_kwargs'))
                if isinstance(mk, ast.Dict):
                    for k, v in zip(mk.keys, mk.values):
                        if isinstance(k, ast.Constant) and k.value == 'size':
                            v = q.resolve_local(f, v)
                            if isinstance(v, ast.Name):
                                return [(st, d) for st, d in q.local_defs(f, v.id) if isinstance(d, ast.AST)]
                            return [(ctor, v)]
    return None


def _np_names(f):
    return q.names_defined_by(f, lambda v: 'ceil(' in norm(v) or 'calculate_num_parts(' in norm(v) or 'floor(' in norm(v) or '//' in norm(v))


def _num_parts_expr_ok(e, size_txt, p_txt):
    t = norm(e).replace(' ', '')
    return t in (f'int(math.ceil({size_txt}/float({p_txt})))', f'calculate_num_parts({size_txt},{p_txt})')


@rule('C14.b', ['C14', 'C02', 'C01', 'C09'], floor=14)
def tiling_identities(ctx):
    """Polynomial identities of the planning expressions: range helpers tile [0, T);
    every writer's offset equals the start of the range it is paired with, built from the
    same part-size variable that is passed to the range helper and to the part count;
    upload part k starts at c*(k-1) with size c and n = ceil(T/c) over the same c."""
    check_range_fn(ctx, 'utils.calculate_range_parameter')
    check_range_fn(ctx, '__init__.MultipartDownloader._calculate_range_param')
    f = ctx.func('utils.calculate_num_parts')
    rets = [x for x in own_nodes(f.node) if isinstance(x, ast.Return)]
    ctx.ob(f, 'int(math.ceil(size / float(part_size)))', len(rets) == 1 and _num_parts_expr_ok(rets[0].value, 'size', 'part_size'), f'found {norm(rets[0].value) if rets else None}')
    # download (manager)
    f = ctx.func('download.DownloadSubmissionTask._submit_ranged_download_request')
    _check_ranged_loop(ctx, f, range_fn='calculate_range_parameter', offset_key='start_index', size_txt='transfer_future.meta.size')
    # process pool
    f = ctx.func('processpool.GetObjectSubmitter._submit_ranged_get_object_jobs')
    _check_ranged_loop(ctx, f, range_fn='calculate_range_parameter', offset_key='offset', size_txt='size')
    # legacy download
    f = ctx.func('__init__.MultipartDownloader._download_range')
    cs = [c for c in own_calls(f.node) if (dotted(c.func) or '').endswith('_calculate_range_param')]
    cursors = [x.target.id for x in own_nodes(f.node) if isinstance(x, ast.AugAssign) and isinstance(x.target, ast.Name) and norm(x.value).startswith('len(')]
    cur = [v for c_ in cursors[:1] for st, v in q.local_defs(f, c_) if isinstance(st, ast.Assign) and isinstance(v, ast.AST)]
    ok = len(cs) == 1 and bool(cur) and all(equal(v, f'{norm(q.argn(cs[0], "part_index", 1))} * {norm(q.argn(cs[0], "part_size", 0))}') for v in cur)
    ctx.ob(f, 'current_index = part_index * part_size (start of the requested range)', ok, f'found {[norm(v) for v in cur]} vs range({", ".join(norm(a) for a in cs[0].args) if cs else ""})')
    f = ctx.func('__init__.MultipartDownloader._download_file_as_future')
    npn = _np_names(f)
    ps = q.names_defined_by(f, lambda v: norm(v).endswith('multipart_chunksize')) or ['self._config.multipart_chunksize']
    npd = [v for nm in npn[:1] for st, v in q.local_defs(f, nm) if isinstance(v, ast.AST)]
    ctx.ob(f, 'num_parts = ceil(object_size / float(part_size))', len(npd) == 1 and bool(ps) and _num_parts_expr_ok(npd[0], 'object_size', ps[0]), f'{[norm(v) for v in npd]}')
    loops = [c for c in own_calls(f.node) if isinstance(c.func, ast.Name) and c.func.id == 'range' and len(c.args) == 1 and npn and norm(c.args[0]) == npn[0]]
    ctx.ob(f, 'parts 0..num_parts-1 are all requested', bool(loops), 'every part index must be downloaded')
    # uploads (manager)
    f = ctx.func('upload.UploadFilenameInputManager.yield_upload_part_bodies')
    chunk = f.params[2]
    cs = [c for c in own_calls(f.node) if (dotted(c.func) or '').endswith('_get_upload_part_fileobj_with_full_size')]
    npc0 = [c for c in own_calls(f.node) if (dotted(c.func) or '').endswith('_get_num_parts')]
    npn0 = norm(npc0[0]._parent.targets[0]) if len(npc0) == 1 and isinstance(npc0[0]._parent, ast.Assign) else None
    pl = part_loop(f, npn0) if npn0 else None
    loopv = [pl[2]] if pl else []
    sbe = q.resolve_local(f, q.argn(cs[0], 'start_byte')) if len(cs) == 1 and q.argn(cs[0], 'start_byte') is not None else None
    ok = sbe is not None and pl is not None and equal(sbe, f'{chunk} * ({pl[1]})')
    ctx.ob(f, f'start_byte = {chunk} * (part_number - 1)', ok, f'found {norm(sbe)}')
    ok = len(cs) == 1 and sbe is not None and norm(kwarg(cs[0], 'part_size')) == chunk
    ctx.ob(f, f'part handle opened at start_byte with part_size={chunk}', ok, 'the part body must start at its own offset')
    # the size that bounds the last part is the planned transfer size (the size the part count was computed from),
    # handed through the part-handle helper unchanged - not a fresh look at the file
    ffs = q.resolve_local(f, q.argn(cs[0], 'full_file_size')) if len(cs) == 1 and q.argn(cs[0], 'full_file_size') is not None else None
    ctx.ob(f, 'full_file_size=transfer_future.meta.size is what bounds the part bodies', ffs is not None and norm(ffs) == 'transfer_future.meta.size',
           'parts are planned from meta.size: bounding them by another size makes the last part overrun or fall short of the plan')
    h = ctx.func('upload.UploadFilenameInputManager._get_upload_part_fileobj_with_full_size')
    hr = [x for x in own_nodes(h.node) if isinstance(x, ast.Return) and isinstance(x.value, ast.Tuple) and len(x.value.elts) == 2]

    def _is_given_full_size(e):
        e = q.resolve_local(h, e)
        kw = h.node.args.kwarg.arg if h.node.args.kwarg else None
        return (isinstance(e, ast.Subscript) and isinstance(e.slice, ast.Constant) and e.slice.value == 'full_file_size' and isinstance(e.value, ast.Name) and e.value.id == kw) \
            or (isinstance(e, ast.Name) and e.id == 'full_file_size' and e.id in h.params + h.kwonly)
    ctx.ob(h, 'returns (handle at start_byte, the full_file_size it was given)', len(hr) >= 1 and all(_is_given_full_size(x.value.elts[1]) for x in hr),
           'the planned size must reach the chunk reader unchanged')
    cr = [c for c in own_calls(f.node) if (dotted(c.func) or '').endswith('open_file_chunk_reader_from_fileobj')]
    fsz = q.argn(cr[0], 'full_file_size', 2) if len(cr) == 1 else None
    two = cs[0]._parent.targets[0] if len(cs) == 1 and isinstance(cs[0]._parent, ast.Assign) and isinstance(cs[0]._parent.targets[0], ast.Tuple) else None
    ctx.ob(f, 'the chunk reader gets the full size returned by the part-handle helper', fsz is not None and two is not None and len(two.elts) == 2 and norm(fsz) == norm(two.elts[1]),
           'the bound of the part bodies must be the planned size')
    ctx.ob(f, f'chunk reader limited to chunk_size={chunk}', len(cr) == 1 and norm(q.argn(cr[0], 'chunk_size', 1)) == chunk, 'each part body must be limited to the part size')
    npc = [c for c in own_calls(f.node) if (dotted(c.func) or '').endswith('_get_num_parts')]
    ctx.ob(f, f'num_parts = _get_num_parts(transfer_future, {chunk})', len(npc) == 1 and norm(q.argn(npc[0], 'part_size', 1)) == chunk, 'the part count must use the same chunk size as the offsets')
    ys = [y for y in own_nodes(f.node) if isinstance(y, ast.Yield) and isinstance(y.value, ast.Tuple) and y.value.elts]
    ok = pl is not None and len(npc) == 1 and bool(ys) and all(q.in_loop(y) is pl[0] and equal(q.inline_locals(f, y.value.elts[0]), pl[2]) for y in ys)
    ctx.ob(f, 'for part_number in range(1, num_parts + 1)', ok, 'every part 1..n must be produced (and yielded with its own number)')
    g = ctx.func('upload.UploadFilenameInputManager._get_num_parts')
    rets = [x for x in own_nodes(g.node) if isinstance(x, ast.Return)]
    ctx.ob(g, 'int(math.ceil(size / float(part_size)))', len(rets) == 1 and _num_parts_expr_ok(rets[0].value, 'transfer_future.meta.size', 'part_size'), f'{norm(rets[0].value) if rets else None}')
    # on the fully expanded part-handle helper (whether or not _get_deferred_open_file exists as a helper)
    d = ctx.expanded().func('upload.UploadFilenameInputManager._get_upload_part_fileobj_with_full_size')
    cs = [c for c in own_calls(d.node) if norm(c.func) == 'DeferredOpenFile']
    sb = q.resolve_local(d, q.argn(cs[0], 'start_byte', 1)) if len(cs) == 1 and q.argn(cs[0], 'start_byte', 1) is not None else None
    kw_ = d.node.args.kwarg.arg if d.node.args.kwarg else None
    ok_sb = sb is not None and (norm(sb) == 'start_byte' and 'start_byte' in d.params + d.kwonly or norm(sb) == f"{kw_}['start_byte']")
    ctx.ob(d.qualname, 'DeferredOpenFile(fileobj, start_byte, ...)', ok_sb, 'the handle must seek to the part offset when opened', node=d.node)
    o = ctx.func('utils.DeferredOpenFile._open_if_needed')
    sk = [c for c in own_calls(o.node) if (dotted(c.func) or '') == 'self._fileobj.seek']
    ctx.ob(o, 'seek(self._start_byte) when opening', len(sk) == 1 and norm(sk[0].args[0]) == 'self._start_byte', 'the deferred handle must start at its start byte')
    if len(sk) == 1:
        # ... exactly when the file has just been opened and the start byte is not zero (the zero case may skip the seek): every
        # guard of the seek other than "not yet open" must be implied by a non-zero start byte, and the open precedes it
        go = ctx.cfg(o)
        opens = [n for n in own_nodes(o.node) if isinstance(n, ast.Assign) and any(dotted(t) == 'self._fileobj' for t in n.targets)]
        extra = [(e, pol) for e, pol in q.guards(sk[0]) if '_fileobj' not in norm(e)]
        okg = all(q.guards_imply([(ast.parse('self._start_byte != 0', mode='eval').body, True)], ast.parse(('' if pol else 'not ') + '(' + norm(e) + ')', mode='eval').body)
                  or q.guards_imply([(ast.parse('self._start_byte > 0', mode='eval').body, True)], ast.parse(('' if pol else 'not ') + '(' + norm(e) + ')', mode='eval').body)
                  for e, pol in extra)
        oko = len(opens) == 1 and go.all_dominate(go.nodes_of(opens[0]), go.nodes_of(sk[0]), go.NORMAL)
        ctx.ob(o, 'the seek is skipped at most for start byte 0 and follows the open', okg and oko,
               f'guards of the seek: {[(norm(e), pol) for e, pol in q.guards(sk[0])]}: a part handle that is not positioned at its start byte uploads the bytes of another part')
    # legacy upload
    f = ctx.func('__init__.MultipartUploader._upload_one_part')
    cs = [c for c, r in q.calls_in(ctx, f) if r.kind == 'package' and any(t.name == 'open_file_chunk_reader' for t in r.targets)]
    ok = len(cs) == 1 and q.argn(cs[0], 'start_byte', 1) is not None and equal(q.argn(cs[0], 'start_byte', 1), 'part_size * (part_number - 1)') and norm(q.argn(cs[0], 'size', 2)) == 'part_size'
    ctx.ob(f, 'open_chunk_reader(filename, part_size * (part_number - 1), part_size, ...)', ok, 'legacy part k must cover [c(k-1), ck)')
    f = ctx.func('__init__.MultipartUploader._upload_parts')
    npn = _np_names(f)
    ps = q.names_defined_by(f, lambda v: norm(v).endswith('multipart_chunksize')) or ['self._config.multipart_chunksize']
    npd = [v for nm in npn[:1] for st, v in q.local_defs(f, nm) if isinstance(v, ast.AST)]
    ps_i = norm(q.inline_locals(f, ast.parse(ps[0], mode='eval').body)) if ps else None
    ctx.ob(f, 'num_parts = ceil(file size / float(part_size))', len(npd) == 1 and bool(ps)
           and (_num_parts_expr_ok(npd[0], 'self._os.get_file_size(filename)', ps[0]) or _num_parts_expr_ok(q.inline_locals(f, npd[0]), 'self._os.get_file_size(filename)', ps_i)),
           f'{[norm(v) for v in npd]}')
    part = [c for c in own_calls(f.node) if ((dotted(c.func) or '').endswith('partial') or (dotted(c.func) or '') == 'FunctionContainer') and c.args and norm(c.args[0]) == 'self._upload_one_part']
    ctx.ob(f, 'the same part size is bound into _upload_one_part', len(part) == 1 and bool(ps) and len(part[0].args) > 5 and norm(part[0].args[5]) == ps[0], 'part size of the bodies and of the count differ')
    # copies
    f = ctx.func('copies.CopySubmissionTask._submit_multipart_request')
    npn = _np_names(f)
    adj = [c for c in own_calls(f.node) if (dotted(c.func) or '').endswith('adjust_chunksize')]
    psn = norm(adj[0]._parent.targets[0]) if adj and isinstance(adj[0]._parent, ast.Assign) else None
    npd = [v for nm in npn[:1] for st, v in q.local_defs(f, nm) if isinstance(v, ast.AST)]
    ctx.ob(f, 'num_parts = ceil(size / float(part_size))', len(npd) == 1 and psn is not None and _num_parts_expr_ok(q.alias_inline(f, npd[0]), 'transfer_future.meta.size', psn), f'{[norm(v) for v in npd]}')
    pl = part_loop(f, npn[0]) if npn else None
    ctx.ob(f, 'for part_number in range(1, num_parts + 1)', pl is not None, 'every part 1..n must be copied')
    cs = [c for c in own_calls(f.node) if (dotted(c.func) or '').split('.')[-1] == 'calculate_range_parameter']
    names = ('part_size', 'part_index', 'num_parts', 'total_size')
    gota = [q.argn(cs[0], nm, k) for k, nm in enumerate(names)] if len(cs) == 1 else None
    got = [norm(q.alias_inline(f, a)) if a is not None else None for a in gota] if gota else None
    ok = len(cs) == 1 and pl is not None and bool(npn) and None not in gota and got[0] == psn and equal(gota[1], pl[1]) \
        and got[2] == npn[0] and got[3] == 'transfer_future.meta.size' and q.in_loop(cs[0]) is pl[0]
    ctx.ob(f, 'calculate_range_parameter(part_size, part_number - 1, num_parts, size)', ok, f'found {got}')
    # the function that sizes the parts (for progress): found through the 'size' kwarg of the part task; its parameters get
    # their roles from what the call site hands them
    sc, g = copy_part_size_call(ctx, f)
    if sc is None:
        # computed in place (the helper written out / de-extracted): the cases of the 'size' local, by their guards
        cases = copy_part_size_cases(ctx, f)
        ctx.need(cases is not None, 'the computation of the size of a copy part was not found')
        okc = pl is not None and bool(npn) and psn is not None and bool(cases)
        seen_last = seen_rest = False
        for st_, v_ in cases:
            gs_ = q.guards(st_)
            if norm(v_) == psn and q.guards_imply(gs_, f'({pl[1]}) != {npn[0]} - 1' if pl else 'False'):
                seen_rest = True
            elif pl and equal(v_, f'transfer_future.meta.size - ({pl[1]}) * {psn}') and q.guards_imply(gs_, f'({pl[1]}) == {npn[0]} - 1'):
                seen_last = True
            else:
                okc = False
        ctx.ob(f, '_get_transfer_size(part_size, part_number - 1, num_parts, size)', okc and seen_last and seen_rest,
               f'part sizes computed in place: {[(norm(v_), q.guard_texts(st_)) for st_, v_ in cases]}')
        return
    ctx.need(g is not None, 'the call computing the size of a copy part does not resolve to one package function')
    b = q.bind_args(ctx, sc, f, g) or {}
    role = {}
    for pn_, a_ in b.items():
        if not isinstance(a_, ast.AST):
            continue
        if norm(a_) == psn:
            role['ps'] = pn_
        elif npn and norm(a_) == npn[0]:
            role['n'] = pn_
        elif norm(q.alias_inline(f, a_)) == 'transfer_future.meta.size':
            role['T'] = pn_
        elif pl is not None and equal(a_, pl[1]):
            role['pi'] = pn_
    ok = len(role) == 4 and q.in_loop(sc) is (pl[0] if pl else None)
    ctx.ob(f, '_get_transfer_size(part_size, part_number - 1, num_parts, size)', ok, f'the part-size function is handed {sorted((k, norm(v)) for k, v in b.items() if isinstance(v, ast.AST))}')
    if len(role) == 4:
        ps, pi, n, T = role['ps'], role['pi'], role['n'], role['T']
        gg = ctx.cfg(g)
        rets = [x for x in own_nodes(g.node) if isinstance(x, ast.Return) and x.value is not None]
        okr = bool(rets)
        seen_last = seen_rest = False
        for x in rets:
            pcs = gg.path_conditions([gg.entry], gg.nodes_of(x), labels=gg.NORMAL)
            for pc in pcs or [None]:
                if pc is None:
                    okr = False
                elif norm(x.value) == ps and q.guards_imply(pc, f'{pi} != {n} - 1'):
                    seen_rest = True
                elif equal(x.value, f'{T} - {pi} * {ps}') and q.guards_imply(pc, f'{pi} == {n} - 1'):
                    seen_last = True
                else:
                    okr = False
        ctx.ob(g, 'part sizes: part_size, last = total - part_index * part_size (they sum to the total)', okr and seen_last and seen_rest, f'{[norm(x.value) for x in rets]}')


def _check_ranged_loop(ctx, f, range_fn, offset_key, size_txt):
    cs = [c for c in own_calls(f.node) if (dotted(c.func) or '').split('.')[-1] == range_fn]
    ctx.need(cs, f'{f.qualname} no longer calls {range_fn}')
    c = cs[0]
    p, i, n = [norm(q.argn(c, nm, k)) for k, nm in enumerate(('part_size', 'part_index', 'num_parts'))]
    loop = q.in_loop(c)
    ok = isinstance(loop, ast.For) and norm(loop.iter) == f'range({n})' and norm(loop.target) == i
    ctx.ob(f, f'for {i} in range({n}): {range_fn}({p}, {i}, {n})', ok, 'every part index 0..n-1 must be requested exactly once')
    npd = [v for st, v in q.local_defs(f, n) if isinstance(v, ast.AST)]
    ctx.ob(f, f'{n} = ceil({size_txt} / {p})', len(npd) == 1 and _num_parts_expr_ok(npd[0], size_txt, p), f'{[norm(v) for v in npd]}')
    # the offset the writer uses
    off = None
    for x in own_nodes(f.node):
        if isinstance(x, ast.Dict):
            for k, v in zip(x.keys, x.values):
                if isinstance(k, ast.Constant) and k.value == offset_key:
                    off = v
        if isinstance(x, ast.keyword) and x.arg == offset_key:
            off = x.value
    env = {}
    if isinstance(off, ast.Name):
        ds = [v for st, v in q.local_defs(f, off.id) if isinstance(v, ast.AST)]
        if len(ds) == 1:
            env[off.id] = ds[0]
    ok = off is not None and equal(off, f'{i} * {p}', env)
    ctx.ob(f, f'{offset_key} = {i} * {p} (start of the requested range)', ok, f'the write offset must equal the range start: found {norm(off)}')


@rule('C14.c', ['C14'], floor=10)
def limits_are_s3s_and_applied(ctx):
    """MAX_PARTS / MAX_SINGLE_UPLOAD_SIZE / MIN_UPLOAD_CHUNKSIZE fold to 10 000, 5 GiB,
    5 MiB and are the adjuster's defaults; both _submit_multipart_request use
    ChunksizeAdjuster().adjust_chunksize(config.multipart_chunksize, size) for the part
    iterator / range helper / part count; adjust_chunksize applies the max-parts step
    before the clamp and returns the clamp's result; the clamp and the doubling loop have
    the expected shape."""
    u = ctx.p.modules['utils']
    want = {'MAX_PARTS': 10000, 'MAX_SINGLE_UPLOAD_SIZE': 5 * 1024 ** 3, 'MIN_UPLOAD_CHUNKSIZE': 5 * 1024 ** 2}
    for k, v in want.items():
        try:
            got = q.const_eval(ctx, u.consts[k], u)
        except Exception as e:
            got = f'<{e}>'
        ctx.ob('utils', f'{k} == {v}', got == v, f'found {got}')
    init = ctx.func('utils.ChunksizeAdjuster.__init__')
    d = {k: norm(v) for k, v in init.defaults_map().items()}
    ctx.ob(init, 'defaults (max_size, min_size, max_parts) = the three S3 limits', d == {'max_size': 'MAX_SINGLE_UPLOAD_SIZE', 'min_size': 'MIN_UPLOAD_CHUNKSIZE', 'max_parts': 'MAX_PARTS'}, f'{d}')
    cl = ctx.cls('utils.ChunksizeAdjuster')
    for a in ('max_size', 'min_size', 'max_parts'):
        vals = [norm(v) for fn, v in cl.init_attrs.get(a, []) if fn is init]
        ctx.ob(init, f'self.{a} = {a}', vals == [a], f'{vals}')
    f = ctx.func('utils.ChunksizeAdjuster.adjust_chunksize')
    g = ctx.cfg(f)
    mp = [c for c in own_calls(f.node) if (dotted(c.func) or '').endswith('_adjust_for_max_parts')]
    cl_ = [c for c in own_calls(f.node) if (dotted(c.func) or '').endswith('_adjust_for_chunksize_limits')]
    ok = len(mp) == 1 and len(cl_) == 1 and q.guards_imply(q.guards(mp[0]), 'file_size is not None') and isinstance(cl_[0]._parent, ast.Return) \
        and g.must_pass([g.entry], g.nodes_of(cl_[0]), [g.exit], g.NORMAL)
    ctx.ob(f, 'max-parts step (when size is known), then return the clamp', ok, 'the clamp to [5 MiB, 5 GiB] must be applied last and be what is returned')
    if ok:
        # path rule: what the clamp receives is the max-parts-adjusted configured chunksize when the size is known and the
        # configured chunksize itself otherwise; the max-parts step starts from the configured chunksize
        pv = q.path_values(g, f, g.nodes_of(cl_[0]), [cl_[0].args[0]])
        okp = bool(pv)
        for conds, vals, _ in pv or []:
            v = vals[0]
            if isinstance(v, ast.Call) and v is mp[0]:
                okp = okp and q.guards_imply(conds, 'file_size is not None')
            else:
                okp = okp and isinstance(v, ast.AST) and norm(v) == f.params[1] and q.guards_imply(conds, 'file_size is None')
        pv2 = q.path_values(g, f, g.nodes_of(mp[0]), [mp[0].args[0]]) if mp[0].args else None
        okp = okp and bool(pv2) and all(isinstance(vals[0], ast.AST) and norm(vals[0]) == f.params[1] for _, vals, _ in pv2)
        ctx.ob(f, 'the clamp receives the max-parts-adjusted value', okp, 'the two adjustments must be chained')
    c = ctx.func('utils.ChunksizeAdjuster._adjust_for_chunksize_limits')
    p = c.params[1]
    rets = [x for x in own_nodes(c.node) if isinstance(x, ast.Return)]
    by = {}
    for x in rets:
        by.setdefault(norm(x.value), []).append(x)
    def cond(x):
        return ' and '.join(('' if pol else 'not ') + f'({norm(e)})' for e, pol in q.guards(x)) or 'True'
    ok = set(by) == {'self.max_size', 'self.min_size', p} and all(len(v) == 1 for v in by.values()) \
        and q.equivalent(cond(by['self.max_size'][0]), f'{p} > self.max_size') \
        and q.equivalent(cond(by['self.min_size'][0]), f'not ({p} > self.max_size) and {p} < self.min_size') \
        and q.equivalent(cond(by[p][0]), f'not ({p} > self.max_size) and not ({p} < self.min_size)')
    ctx.ob(c, 'clamp: > max -> max; < min -> min; else unchanged', ok, f'{[(norm(x.value), q.guard_texts(x)) for x in rets]}')
    m = ctx.func('utils.ChunksizeAdjuster._adjust_for_max_parts')
    loops = [x for x in own_nodes(m.node) if isinstance(x, ast.While)]
    rets = [norm(x.value) for x in own_nodes(m.node) if isinstance(x, ast.Return)]
    cv = rets[0] if len(rets) == 1 else None  # the chunk size being adjusted is what is returned
    npn = _np_names(m)
    nv = npn[0] if npn else None
    ok = len(loops) == 1 and cv is not None and nv is not None and q.equivalent(loops[0].test, f'{nv} > self.max_parts') and \
        any(isinstance(x, ast.AugAssign) and isinstance(x.op, ast.Mult) and norm(x.value) == '2' and norm(x.target) == cv for x in loops[0].body) and \
        any(isinstance(x, ast.Assign) and norm(x.targets[0]) == nv and _num_parts_expr_ok(x.value, m.params[2], cv) for x in loops[0].body) and \
        any(_num_parts_expr_ok(v, m.params[2], cv) for st, v in q.local_defs(m, nv) if isinstance(v, ast.AST) and q.in_loop(st) is None) and \
        any(norm(v) == m.params[1] for st, v in q.local_defs(m, cv) if isinstance(v, ast.AST))
    if not ok and len(loops) == 1 and cv is not None:
        # the part count is recomputed in the loop test itself: while <num_parts(file_size, chunksize)> > self.max_parts: chunksize *= 2
        t = loops[0].test
        direct = isinstance(t, ast.Compare) and len(t.ops) == 1 and (
            (isinstance(t.ops[0], ast.Lt) and norm(t.left) == 'self.max_parts' and _num_parts_expr_ok(t.comparators[0], m.params[2], cv)) or
            (isinstance(t.ops[0], ast.Gt) and norm(t.comparators[0]) == 'self.max_parts' and _num_parts_expr_ok(t.left, m.params[2], cv)))
        ok = direct and [x for x in loops[0].body if not isinstance(x, ast.Expr)] == [x for x in loops[0].body if isinstance(x, ast.AugAssign) and isinstance(x.op, ast.Mult)
                                                                                   and norm(x.value) == '2' and norm(x.target) == cv] \
            and len(loops[0].body) >= 1 and any(norm(v) == m.params[1] for st, v in q.local_defs(m, cv) if isinstance(v, ast.AST))
    ctx.ob(m, 'while num_parts > max_parts: chunksize *= 2; recompute num_parts; return chunksize', ok, f'loop {norm(loops[0].test) if loops else None}, returns {rets}')
    # use in the two submitters
    for qn, consumers in (('upload.UploadSubmissionTask._submit_multipart_request', ['yield_upload_part_bodies']),
                          ('copies.CopySubmissionTask._submit_multipart_request', ['calculate_range_parameter', '<part size>'])):
        f = ctx.func(qn)
        adj = [c for c in own_calls(f.node) if (dotted(c.func) or '').endswith('adjust_chunksize')]
        ok = len(adj) == 1 and q.argn(adj[0], 'current_chunksize', 0) is not None and q.argn(adj[0], 'file_size', 1) is not None
        if ok:
            a0 = q.argn(adj[0], 'current_chunksize', 0)
            a0defs = [norm(v) for _, v in q.local_defs(f, a0.id) if isinstance(v, ast.AST)] if isinstance(a0, ast.Name) else [norm(a0)]
            ok = 'config.multipart_chunksize' in a0defs and q.ntext(f, q.argn(adj[0], 'file_size', 1)) == 'transfer_future.meta.size'
        ctx.ob(f, 'adjust_chunksize(config.multipart_chunksize, size)', ok, 'the configured chunk size and the object size must be what gets adjusted')
        rv = adj[0]._parent.targets[0].id if adj and isinstance(adj[0]._parent, ast.Assign) and isinstance(adj[0]._parent.targets[0], ast.Name) else None
        ctx.ob(f, 'the adjusted chunk size is kept in a local of this transfer', rv is not None,
               'the adjusted size must not be written back into the shared TransferConfig (it would change the configured chunk size of every later transfer)')
        cfg_stores = [n for n in own_nodes(f.node) if isinstance(n, (ast.Assign, ast.AugAssign)) and any(
            isinstance(t, ast.Attribute) and isinstance(t.value, ast.Name) and t.value.id == 'config' for t in (n.targets if isinstance(n, ast.Assign) else [n.target]))]
        for n in cfg_stores:
            ctx.ob(f, n, False, 'a submission task must not modify the manager-wide config')
        gf = ctx.cfg(f)
        for cn in consumers:
            if cn == '<part size>':
                sc_, _g = copy_part_size_call(ctx, f)
                cands = [sc_] if sc_ is not None else []
                cn = '_get_transfer_size'
            else:
                cands = [c for c in own_calls(f.node) if (dotted(c.func) or '').split('.')[-1] == cn]
            for c in cands:
                uses = any(isinstance(a, ast.Name) and a.id == rv for a in list(c.args) + [k.value for k in c.keywords])
                after = bool(adj) and gf.all_dominate(gf.nodes_of(adj[0]), gf.nodes_of(c), gf.NORMAL)
                ctx.ob(f, f'{cn}(...) uses the adjusted chunk size ({rv})', uses and after, 'parts must be planned with the adjusted size, otherwise > 10 000 parts or parts < 5 MiB are produced')
        if 'copies' in qn:
            npd = [st for nm in _np_names(f)[:1] for st, v in q.local_defs(f, nm)]
            ctx.ob(f, 'num_parts computed after the adjustment', bool(adj) and bool(npd) and gf.all_dominate(gf.nodes_of(adj[0]), [x for st in npd for x in gf.nodes_of(st)], gf.NORMAL),
                   'the part count must follow the adjusted size')
    ad = [f for f, c, r in q.call_index(ctx) if r.kind == 'package' and any(t.qualname == 'utils.ChunksizeAdjuster.__init__' for t in r.targets) and (c.args or c.keywords)]
    ctx.ob('<package>', 'ChunksizeAdjuster() is built with its default (S3) limits', not ad, f'custom limits at {[f.qualname for f in ad]}')
