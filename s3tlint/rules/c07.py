"""C07 - cancellation is effective, clean and truthfully reported."""
import ast

from ..engine import rule
from ..ir import dotted, kwarg, norm, own_calls, own_nodes, short
from .. import q


@rule('C07.a', ['C07', 'C04'], floor=300)
def arg_agreement(ctx):
    """Argument agreement at every resolved call: a bare-name argument equal to a
    parameter name of the resolved callee must bind to that parameter (and a
    keyword kw=name where name is a different parameter of the callee must not
    cross).  Finds shifted/swapped arguments such as _shutdown(cancel, cancel, msg)."""
    for f, c, r in q.call_index(ctx):
        if r.kind != 'package' or not r.targets:
            continue
        problems = []
        checked = False
        for t in r.targets:
            b = q.bind_args(ctx, c, f, t)
            if b is None:
                problems = []
                break
            allp = set(t.params + t.kwonly)
            bad = []
            for pname, a in b.items():
                if isinstance(a, list) or pname.startswith('<') or pname.startswith('*'):
                    continue
                if isinstance(a, ast.Name) and a.id in allp and a.id != pname and pname in allp:
                    # the name the caller holds IS a parameter of the callee, yet it
                    # is bound to a different one; it is a defect only if that
                    # parameter is left unbound or bound to something else
                    other = b.get(a.id)
                    if not (isinstance(other, ast.Name) and other.id == pname):
                        bad.append((pname, a.id))
                    else:
                        bad.append((pname, a.id))
                checked = True
            problems.append(bad)
        if not problems:
            continue
        # report only if the mismatch holds for every possible target
        if all(problems):
            pn, an = problems[0][0]
            ctx.ob(f, c, False, f"argument '{an}' is bound to parameter '{pn}' of {r.targets[0].qualname}"
                               f" although the callee has a parameter named '{an}' (shifted/swapped arguments)")
        elif checked:
            ctx.ob(f, c, True, 'names agree', trivial=not any(isinstance(a, ast.Name) for a in c.args))


def _flow(ctx, caller_q, callee_suffix, mapping, must_guard=None):
    """In caller, the call resolved to *callee_suffix binds callee param <- expr
    mentioning the caller-side name, for each (callee_param, caller_name)."""
    f = ctx.func(caller_q)
    hits = [(c, r) for c, r in q.calls_in(ctx, f) if r.kind in ('package', 'ambiguous') and any(t.qualname.endswith('.' + callee_suffix) for t in r.targets) and not q.in_handler(c)]
    ctx.need(hits or True, '')
    if not hits:
        ctx.ob(f, f'call to {callee_suffix}', False, f'{caller_q} no longer calls {callee_suffix}: the cancellation message/type cannot reach the exception')
        return
    for c, r in hits:
        t = [t for t in r.targets if t.qualname.endswith('.' + callee_suffix)][0]
        b = q.bind_args(ctx, c, f, t) or {}
        for callee_param, caller_name in mapping:
            a = b.get(callee_param)
            ok = a is not None and not isinstance(a, list) and q.derives_from(f, a, lambda n: isinstance(n, ast.Name) and n.id == caller_name)
            ctx.ob(f, c, ok, f"parameter '{callee_param}' of {t.qualname} must receive '{caller_name}'"
                            + ('' if ok else f' but receives {short(a) if a is not None and not isinstance(a, list) else "nothing (default)"}'))


@rule('C07.b', ['C07'], floor=8)
def message_and_type_reach_exception(ctx):
    """shutdown(cancel_msg) / __exit__'s message and exception type flow parameter to
    parameter through _shutdown -> controller.cancel -> coordinator.cancel into
    exc_type(msg) stored in _exception; __exit__ picks CancelledError exactly for
    KeyboardInterrupt and FatalError otherwise."""
    _flow(ctx, 'manager.TransferManager.shutdown', 'TransferManager._shutdown', [('cancel', 'cancel'), ('cancel_msg', 'cancel_msg')])
    _flow(ctx, 'manager.TransferManager._shutdown', 'TransferCoordinatorController.cancel', [('msg', 'cancel_msg'), ('exc_type', 'exc_type')])
    _flow(ctx, 'manager.TransferCoordinatorController.cancel', 'TransferCoordinator.cancel', [('msg', 'msg'), ('exc_type', 'exc_type')])
    _exit_values(ctx)
    # _shutdown: the cancel call is control dependent on `cancel` only
    f = ctx.func('manager.TransferManager._shutdown')
    for c, r in q.calls_in(ctx, f):
        if r.kind == 'package' and any(t.qualname == 'manager.TransferCoordinatorController.cancel' for t in r.targets) and not q.in_handler(c):
            g = q.guard_texts(c)
            ctx.ob(f, c, g == [('cancel', True)], f'cancel-all must run exactly under `if cancel` (guards: {g})')
    # controller.cancel iterates every tracked coordinator
    f = ctx.func('manager.TransferCoordinatorController.cancel')
    for c, r in q.calls_in(ctx, f):
        if r.kind in ('package', 'ambiguous') and any(t.qualname == 'futures.TransferCoordinator.cancel' for t in r.targets):
            loop = q.in_loop(c)
            ok = isinstance(loop, ast.For) and 'tracked_transfer_coordinators' in norm(loop.iter) and not q.guards(c)
            ctx.ob(f, c, ok, 'cancel must be applied unconditionally to every tracked coordinator')
    # coordinator.cancel stores exc_type(msg)
    f = ctx.func('futures.TransferCoordinator.cancel')
    stores = [n for n in own_nodes(f.node) if isinstance(n, ast.Assign) and any(dotted(t) == 'self._exception' for t in n.targets)]
    ok = False
    for s in stores:
        v = s.value
        if isinstance(v, ast.Call) and isinstance(v.func, ast.Name) and v.func.id == 'exc_type' and len(v.args) == 1 \
                and isinstance(v.args[0], ast.Name) and v.args[0].id == 'msg':
            ok = True
    ctx.ob(f, stores[0] if stores else 'self._exception = exc_type(msg)', ok, 'cancel must store exc_type(msg) as the exception')


def _exit_values(ctx):
    """__exit__: on every path exactly one _shutdown call; the (cancel, message, type) values
    that reach it, per path: cancel is False exactly when no exception left the block; on
    cancelling paths the message derives from exc_value and the type is CancelledError exactly
    under isinstance(exc_value, KeyboardInterrupt), FatalError otherwise."""
    ex = ctx.func('manager.TransferManager.__exit__')
    sdf = ctx.func('manager.TransferManager._shutdown')
    sd = [c for c, r in q.calls_in(ctx, ex) if r.kind == 'package' and any(t.qualname == sdf.qualname for t in r.targets)]
    g = ctx.cfg(ex)
    sn = [n for c in sd for n in g.nodes_of(c)]
    once = bool(sn) and g.must_pass([g.entry], sn, [g.exit], g.NORMAL) and not (g.reach(sn, labels=g.NORMAL) & set(sn))
    ctx.ob(ex, '__exit__ calls self._shutdown(cancel, cancel_msg, cancel_exc_type) exactly once on every normal path', once, '__exit__ must shut down (and cancel on error)')
    etype, evalue = (ex.params + ['exc_type', 'exc_value'])[1:3] if len(ex.params) >= 3 else ('exc_type', 'exc_value')
    ki = f'isinstance({evalue}, KeyboardInterrupt)'
    ok_bind = ok_cancel = ok_type = ok_msg = bool(sd)
    why = []
    for c in sd:
        b = q.bind_args(ctx, c, ex, sdf) or {}
        exprs = [b.get(k) for k in ('cancel', 'cancel_msg', 'exc_type')]
        if any(e is None or isinstance(e, list) for e in exprs):
            ok_bind = False
            continue
        pv = q.path_values(g, ex, g.nodes_of(c), exprs)
        ctx.need(pv is not None, 'too many paths in __exit__')
        for conds, (vc, vm, vt), _ in pv:
            cancelling = None
            if isinstance(vc, ast.Constant) and vc.value in (True, False):
                cancelling = vc.value
                if not q.guards_imply(conds, etype if cancelling else f'not {etype}'):
                    ok_cancel = False
                    why.append(f'cancel={vc.value} on a path where {etype} may be {"false" if cancelling else "true"}')
            elif isinstance(vc, ast.AST) and q.equivalent(vc, etype) or (isinstance(vc, ast.AST) and norm(vc) in (f'bool({etype})', f'{etype} is not None')):
                cancelling = None  # cancel follows exc_type itself
            else:
                ok_cancel = False
                why.append(f'cancel={norm(vc) if isinstance(vc, ast.AST) else vc}')
            if cancelling is False or (cancelling is None and q.guards_imply(conds, f'not {etype}')):
                continue
            # a (possibly) cancelling path
            if not (isinstance(vm, ast.AST) and evalue in q.names_in(vm)):
                ok_msg = False
            if isinstance(vt, ast.IfExp):
                good = (q.equivalent(vt.test, ki) and norm(vt.body) == 'CancelledError' and norm(vt.orelse) == 'FatalError') or \
                       (q.equivalent(vt.test, f'not {ki}') and norm(vt.body) == 'FatalError' and norm(vt.orelse) == 'CancelledError')
            elif isinstance(vt, ast.AST) and norm(vt) == 'CancelledError':
                good = q.guards_imply(conds, ki)
            elif isinstance(vt, ast.AST) and norm(vt) == 'FatalError':
                good = q.guards_imply(conds, f'not {ki}')
            else:
                good = False
            if not good:
                ok_type = False
                why.append(f'type={norm(vt) if isinstance(vt, ast.AST) else vt} under {[(norm(e), p) for e, p in conds]}')
    ctx.ob(ex, 'all three values are passed to their own parameters', ok_bind, 'cancel / cancel_msg / exc_type of _shutdown are not all bound')
    ctx.ob(ex, 'cancel = True under exc_type', ok_cancel, 'leaving the with-block through an exception must request cancellation (and only then): ' + '; '.join(why[:2]))
    ctx.ob(ex, 'cancel_exc_type selection', ok_type,
           'exception type must be CancelledError exactly under isinstance(exc_value, KeyboardInterrupt) and FatalError otherwise: ' + '; '.join(why[:2]))
    ctx.ob(ex, 'cancel_msg derives from exc_value', ok_msg, 'the cancellation message must derive from the exception value')


@rule('C07.c', ['C07'], floor=3)
def cancelled_before_start_issues_no_request(ctx):
    """cancel stores the exception and 'cancelled' under the state lock, guarded by
    not done(); the transition helper raises when done (so a cancelled transfer
    cannot be (re)started); requests are issued only from task bodies (C10.b) which
    Task.__call__ skips once done (C03.a)."""
    f = ctx.func('futures.TransferCoordinator.cancel')
    for n in own_nodes(f.node):
        if isinstance(n, ast.Assign) and any(dotted(t) in ('self._exception', 'self._status') for t in n.targets):
            held = q.locks_held(n)
            g = q.guard_texts(n)
            ok = 'self._lock' in held and q.guards_imply(q.guards_under_lock(n, 'self._lock'), 'not self.done()')
            ctx.ob(f, n, ok, f'store must be under self._lock and guarded by a not-done() test made while the lock is held (held={held}, guards={g})')
    f = ctx.func('futures.TransferCoordinator._transition_to_non_done_state')
    stores = [n for n in own_nodes(f.node) if isinstance(n, ast.Assign) and any(dotted(t) == 'self._status' for t in n.targets)]
    ctx.need(stores, 'no _status store in _transition_to_non_done_state')
    for n in stores:
        g = q.guard_texts(n)
        ctx.ob(f, n, q.guards_imply(q.guards_under_lock(n, 'self._lock'), 'not self.done()') and 'self._lock' in q.locks_held(n),
               f'transition to a non-done state must be refused (raise) when done() (guards={g})')


@rule('C07.e', ['C07', 'C08', 'C04', 'C03', 'C05'], floor=5)
def ctrl_c(ctx):
    """TransferFuture.result and TransferManager._shutdown each have a KeyboardInterrupt
    handler that cancels and re-raises; in _shutdown the executor joins are in finally and the
    interrupt cancels with the default (CancelledError) type; the serial executor lets
    KeyboardInterrupt/SystemExit through (its handler catches Exception only)."""
    f = ctx.func('futures.TransferFuture.result')
    _ki_handler(ctx, f, lambda c, r: r.kind == 'package' and any(t.qualname.endswith('.cancel') for t in r.targets), 'self.cancel()')
    f = ctx.func('manager.TransferManager._shutdown')
    _ki_handler(ctx, f, lambda c, r: r.kind == 'package' and any(t.qualname == 'manager.TransferCoordinatorController.cancel' for t in r.targets),
                'self._coordinator_controller.cancel(...)')
    # the interrupt is the user's cancellation: CancelledError (the callee's default), whatever type the caller asked
    # _shutdown to use for its own cancel
    tgt = ctx.func('manager.TransferCoordinatorController.cancel')
    for h in [h for h in own_nodes(f.node) if isinstance(h, ast.ExceptHandler) and h.type is not None and 'KeyboardInterrupt' in norm(h.type)]:
        for c in [c for c in ast.walk(h) if isinstance(c, ast.Call)]:
            r = ctx.r.resolve(c, f, _count=False)
            if r.kind == 'package' and tgt in r.targets:
                b = q.bind_args(ctx, c, f, tgt) or {}
                et = b.get('exc_type')
                ctx.ob(f, c, et is None or norm(et) == 'CancelledError', 'Ctrl-C while waiting must finish the transfers with CancelledError, not with the type meant for errors in the with-block')
    n = ctx.func('futures.NonThreadedExecutor.submit')
    hs = [h for h in own_nodes(n.node) if isinstance(h, ast.ExceptHandler)]
    from .c03 import retryable_names
    ok = len(hs) == 1 and retryable_names(ctx, n, hs[0]) == ['Exception']
    ctx.ob(n, 'NonThreadedExecutor.submit: except Exception (interrupts propagate)', ok,
           'with the serial executor a KeyboardInterrupt must reach SubmissionTask._main / the caller: parked on a task future it lets the remaining requests run and the final task announce a transfer that never got a final status')


def _ki_handler(ctx, f, is_cancel, what):
    hs = [h for h in own_nodes(f.node) if isinstance(h, ast.ExceptHandler) and h.type is not None and 'KeyboardInterrupt' in norm(h.type)]
    if not hs:
        ctx.ob(f, 'except KeyboardInterrupt', False, f'{f.qualname} has no KeyboardInterrupt handler: Ctrl-C while waiting would not cancel')
        return
    for h in hs:
        calls = [c for c in own_calls(f.node) if any(a is h for a in [h] + list(_anc(c)))]
        cancels = [c for c in calls if is_cancel(c, ctx.r.resolve(c, f, _count=False))]
        reraises = [n for n in ast.walk(h) if isinstance(n, ast.Raise)]
        ctx.ob(f, f'except KeyboardInterrupt -> {what}', bool(cancels), 'the KeyboardInterrupt handler must cancel')
        ctx.ob(f, 'except KeyboardInterrupt -> raise', bool(reraises) and isinstance(h.body[-1], ast.Raise), 'the KeyboardInterrupt handler must re-raise')


def _anc(n):
    from ..ir import ancestors
    return ancestors(n)


@rule('C07.f', ['C07', 'C03'], floor=2)
def inflight_work_notices(ctx):
    """InterruptReader.read raises the coordinator's exception when set, on every path
    before delegating to the wrapped read; the bandwidth wait loop tests the
    coordinator's exception on every iteration."""
    f = ctx.func('upload.InterruptReader.read')
    g = ctx.cfg(f)
    reads = [c for c in own_calls(f.node) if dotted(c.func) and dotted(c.func).endswith('_fileobj.read')]
    ctx.need(reads, 'InterruptReader.read no longer delegates to _fileobj.read')
    for c in reads:
        gs = q.guard_texts(c)
        ok = any('_transfer_coordinator.exception' in t and pol is False for t, pol in gs)
        raises = [n for n in own_nodes(f.node) if isinstance(n, ast.Raise) and n.exc is not None and '_transfer_coordinator.exception' in norm(n.exc)]
        ctx.ob(f, c, ok and bool(raises), f'the wrapped read must be reached only when no exception is recorded, otherwise raise it (guards={gs})')
    # every upload body goes through an InterruptReader, on every path of the wrapping helper (the bandwidth-limited
    # stream only looks at the coordinator when it has to wait for the bucket - not on ordinary reads)
    w = ctx.func('upload.UploadInputManager._wrap_fileobj')
    gw = ctx.cfg(w)
    irs = [c for c in own_calls(w.node) if norm(c.func) == 'InterruptReader']
    okw = len(irs) == 1 and norm(q.argn(irs[0], 'transfer_coordinator', 1)) == 'self._transfer_coordinator' \
        and gw.must_pass([gw.entry], gw.nodes_of(irs[0]), [gw.exit], gw.NORMAL)
    rets = [x for x in own_nodes(w.node) if isinstance(x, ast.Return) and x.value is not None]
    def through_interrupt(e, depth=0):
        # the returned stream is the InterruptReader itself or a wrapper built around (a local holding) it
        if depth > 4:
            return False
        e = q.resolve_local(w, e) if isinstance(e, ast.Name) and q.single_def(w, e.id) is not None else e
        if e in irs:
            return True
        if isinstance(e, ast.Name):
            return any(through_interrupt(v, depth + 1) for _, v in q.local_defs(w, e.id) if isinstance(v, ast.AST))
        if isinstance(e, ast.Call):
            return any(through_interrupt(a, depth + 1) for a in list(e.args) + [k.value for k in e.keywords])
        return False
    ctx.ob(w, '_wrap_fileobj: the body is wrapped in InterruptReader(fileobj, self._transfer_coordinator) on every path', okw and bool(rets) and all(through_interrupt(r.value) for r in rets),
           'an upload body that is not interrupt-aware keeps streaming after a cancel/failure: the request completes and the transfer can report success')
    f = ctx.func('bandwidth.BandwidthLimitedStream._consume_through_leaky_bucket')
    consumes = [c for c in own_calls(f.node) if dotted(c.func) and dotted(c.func).endswith('_leaky_bucket.consume')]
    ctx.need(consumes, 'no consume call in _consume_through_leaky_bucket')
    for c in consumes:
        loop = q.in_loop(c)
        ok = isinstance(loop, ast.While) and '_transfer_coordinator.exception' in norm(loop.test)
        ctx.ob(f, c, ok, 'each (re)try of consume must be control dependent on the coordinator having no exception')
