"""The thin layer between the user and the coordinator: accessors and delegations whose whole
behaviour is their shape.  They are necessary conditions of several properties at once (what
result() reports, that cancel() reaches the coordinator, that a submitted task's future is
tracked and tagged), and no other rule looks inside them."""
import ast

from ..engine import rule
from ..ir import dotted, kwarg, norm, own_calls, own_nodes, short
from .. import q

COORD = 'futures.TransferCoordinator'


def _returns(f):
    return [x for x in own_nodes(f.node) if isinstance(x, ast.Return) and x.value is not None]


def _single_return_text(f):
    r = _returns(f)
    return norm(r[0].value) if len(r) == 1 else None


@rule('C03.g', ['C03', 'C07', 'C04', 'C08', 'C05'], floor=8)
def result_reports_the_recorded_outcome(ctx):
    """TransferCoordinator.result waits for the done event, then raises the recorded exception if
    there is one and returns the recorded result otherwise (path rule); set_result stores its
    argument; TransferFuture.result/done/cancel/set_exception delegate to its own coordinator,
    and the future keeps the meta/coordinator it was given."""
    f = ctx.func(f'{COORD}.result')
    g = ctx.cfg(f)
    waits = [c for c in own_calls(f.node) if (dotted(c.func) or '') == 'self._done_event.wait']
    rets = _returns(f)
    raises = [x for x in own_nodes(f.node) if isinstance(x, ast.Raise) and x.exc is not None]
    wn = [n for c in waits for n in g.nodes_of(c)]
    leave = [n for x in rets + raises for n in g.nodes_of(x)]
    ok = len(waits) == 1 and not q.guards(waits[0]) and bool(leave) and g.all_dominate(wn, leave, g.NORMAL)
    ctx.ob(f, 'result(): wait for the done event before looking at the outcome', ok, 'result() must block until the transfer is done (C08: on_done only once result() no longer blocks)')
    okr = bool(rets) and all(norm(r.value) == 'self._result' for r in rets)
    oke = bool(raises) and all(norm(r.exc) == 'self._exception' for r in raises)
    pcs = g.path_conditions([g.entry], [n for r in rets for n in g.nodes_of(r)], labels=g.NORMAL)
    okp = pcs is not None and bool(pcs) and all(q.guards_imply(pc, 'not self._exception') for pc in pcs)
    ctx.ob(f, 'result(): raise self._exception if set, else return self._result', okr and oke and okp,
           'a recorded failure must be raised: returning normally reports success for a failed transfer')
    f = ctx.func(f'{COORD}.set_result')
    st = [n for n in own_nodes(f.node) if isinstance(n, ast.Assign) and any(dotted(t) == 'self._result' for t in n.targets)]
    ctx.ob(f, 'set_result stores its argument', len(st) == 1 and norm(st[0].value) == f.params[1] and not q.guards(st[0]), 'the result handed to set_result must be what result() returns')
    # TransferFuture
    tf = ctx.cls('futures.TransferFuture')
    init = tf.methods['__init__']
    for attr, param, default in (('_meta', 'meta', 'TransferMeta'), ('_coordinator', 'coordinator', 'TransferCoordinator')):
        vals = [(n, v) for n in own_nodes(init.node) if isinstance(n, ast.Assign) and any(dotted(t) == f'self.{attr}' for t in n.targets) for v in [n.value]]
        given = [n for n, v in vals if norm(v) == param and (not q.guards(n) or q.guards_imply(q.guards(n), f'{param} is not None'))]
        fresh = [n for n, v in vals if isinstance(v, ast.Call) and norm(v.func) == default and q.guards_imply(q.guards(n), f'{param} is None')]
        ctx.ob(init, f'self.{attr} = {param} (a fresh {default} only when none is given)', bool(given) and len(vals) == len(given) + len(fresh),
               'a future that does not keep the coordinator/meta it was built with reports on another transfer')
    ctx.ob(tf.methods['meta'], 'meta -> self._meta', _single_return_text(tf.methods['meta']) == 'self._meta', 'meta accessor')
    ctx.ob(tf.methods['done'], 'done() -> self._coordinator.done()', _single_return_text(tf.methods['done']) == 'self._coordinator.done()', 'done() must reflect the coordinator')
    r = tf.methods['result']
    rr = _returns(r)
    ctx.ob(r, 'result() -> self._coordinator.result()', len(rr) == 1 and norm(rr[0].value) == 'self._coordinator.result()', 'result() must be the coordinator\'s')
    c = tf.methods['cancel']
    cs = [x for x in own_calls(c.node) if (dotted(x.func) or '') == 'self._coordinator.cancel']
    ctx.ob(c, 'cancel() -> self._coordinator.cancel()', len(cs) == 1 and not q.guards(cs[0]) and not cs[0].args and not cs[0].keywords, 'future.cancel() must reach the coordinator (with the default CancelledError)')
    se = tf.methods['set_exception']
    cs = [x for x in own_calls(se.node) if (dotted(x.func) or '') == 'self._coordinator.set_exception']
    ov = kwarg(cs[0], 'override') if cs else None
    ok = len(cs) == 1 and cs[0].args and norm(cs[0].args[0]) == se.params[1] and isinstance(ov, ast.Constant) and ov.value is True \
        and q.guards_imply(q.guards(cs[0]), 'self.done()')
    ctx.ob(se, 'set_exception(e) -> coordinator.set_exception(e, override=True), only once done', ok, 'user set_exception semantics')
    # status / exception accessors of the coordinator
    co = ctx.cls(COORD)
    ctx.ob(co.methods['status'], 'status -> self._status', _single_return_text(co.methods['status']) == 'self._status', 'status accessor')
    ctx.ob(co.methods['exception'], 'exception -> self._exception', _single_return_text(co.methods['exception']) == 'self._exception', 'exception accessor (readers of the recorded error: C07.f, C13.b)')
    d = co.methods['done']
    txt = _single_return_text(d) or ''
    ok = False
    rd = _returns(d)
    if len(rd) == 1 and isinstance(rd[0].value, ast.Compare) and len(rd[0].value.ops) == 1 and isinstance(rd[0].value.ops[0], ast.In):
        try:
            vals = set(q.const_eval(ctx, rd[0].value.comparators[0], d.module, d.cls))
        except Exception:
            vals = set()
        ok = norm(rd[0].value.left) in ('self.status', 'self._status') and vals == {'failed', 'cancelled', 'success'}
    ctx.ob(d, "done() <=> status in {'failed', 'cancelled', 'success'}", ok, f'done() is {txt}')


@rule('C04.i', ['C04', 'C05', 'C10', 'C11', 'C08', 'C12'], floor=5)
def submitted_futures_are_tracked_and_tagged(ctx):
    """TransferCoordinator.submit hands the task and the tag to the executor it was given,
    records the returned future as associated (under the futures lock) before returning it,
    and un-records it from the future's done callback; associated_futures hands out a copy.
    The submission error path and the legacy waits rely on that set to wait for every request
    of the transfer; the tag decides which semaphore bounds the task."""
    f = ctx.func(f'{COORD}.submit')
    g = ctx.cfg(f)
    ex, task, tag = (f.params + [None] * 4)[1:4]
    subs = [c for c in own_calls(f.node) if (dotted(c.func) or '') == f'{ex}.submit']
    ok = len(subs) == 1 and subs[0].args and norm(subs[0].args[0]) == task and norm(kwarg(subs[0], 'tag')) == tag and not q.guards(subs[0])
    ctx.ob(f, f'{ex}.submit({task}, tag={tag})', ok, 'the task must go to the given executor with the given tag (no tag: the in-memory limits are not applied)')
    fut = subs[0]._parent.targets[0].id if len(subs) == 1 and isinstance(subs[0]._parent, ast.Assign) and isinstance(subs[0]._parent.targets[0], ast.Name) else None
    adds = [c for c in own_calls(f.node) if (dotted(c.func) or '') == 'self.add_associated_future' and c.args and norm(c.args[0]) == fut]
    an = [n for c in adds for n in g.nodes_of(c)]
    ctx.ob(f, 'self.add_associated_future(future) on every path after the submit', fut is not None and bool(an) and g.must_pass([n for c in subs for n in g.nodes_of(c)], an, [g.exit], g.NORMAL),
           'an untracked future is not waited for by the submission error path: cleanups / on_done could run while its request is in flight')
    rem = [c for c in own_calls(f.node) if isinstance(c.func, ast.Attribute) and c.func.attr == 'add_done_callback' and norm(c.func.value) == fut]
    okr = len(rem) == 1 and rem[0].args and isinstance(rem[0].args[0], ast.Call) and norm(rem[0].args[0].func) == 'FunctionContainer' \
        and [norm(a) for a in rem[0].args[0].args] == ['self.remove_associated_future', fut]
    ctx.ob(f, 'future.add_done_callback(FunctionContainer(self.remove_associated_future, future))', okr, 'the association must be dropped for this very future when it completes')
    if an and rem:
        ctx.ob(f, 'associated before the removal callback is registered', g.all_dominate(an, g.nodes_of(rem[0]), g.NORMAL),
               'a future that completes at once would be removed before it was added (KeyError in the executor thread) / stay associated forever')
    ctx.ob(f, 'submit returns the executor future', [norm(r.value) for r in _returns(f)] == [fut], 'callers wait on / chain the returned future')
    for name, meth in (('add_associated_future', 'add'), ('remove_associated_future', 'remove')):
        m = ctx.func(f'{COORD}.{name}')
        cs = [c for c in own_calls(m.node) if (dotted(c.func) or '') == f'self._associated_futures.{meth}']
        ok = len(cs) == 1 and [norm(a) for a in cs[0].args] == [m.params[1]] and 'self._associated_futures_lock' in q.locks_held(cs[0]) and not q.guards(cs[0])
        ctx.ob(m, f'self._associated_futures.{meth}(future) under the futures lock', ok, 'association bookkeeping')
    a = ctx.func(f'{COORD}.associated_futures')
    ctx.ob(a, 'associated_futures returns a copy', (_single_return_text(a) or '') in ('copy.copy(self._associated_futures)', 'set(self._associated_futures)', 'self._associated_futures.copy()'),
           'waiters iterate the set while executor threads mutate it')
    # the executor facade
    b = ctx.func('futures.BoundedExecutor.submit')
    inner = [c for c in own_calls(b.node) if (dotted(c.func) or '') == 'self._executor.submit']
    ok = len(inner) == 1 and inner[0].args and norm(inner[0].args[0]) == b.params[1]
    ctx.ob(b, 'self._executor.submit(task, ...)', ok, 'the task itself must be what the pool runs')
    ef = ctx.cls('futures.ExecutorFuture')
    ctx.ob(ef.methods['result'], 'ExecutorFuture.result -> self._future.result()', _single_return_text(ef.methods['result']) == 'self._future.result()', 'waits on task futures must wait on the pool future')
    ctx.ob(ef.methods['done'], 'ExecutorFuture.done -> self._future.done()', _single_return_text(ef.methods['done']) == 'self._future.done()', 'done() of a task future')
    adc = ef.methods['add_done_callback']
    cs = [c for c in own_calls(adc.node) if (dotted(c.func) or '') == 'self._future.add_done_callback']
    ctx.ob(adc, 'ExecutorFuture.add_done_callback registers on the pool future', len(cs) == 1 and not q.guards(cs[0]), 'permit release / association removal hang on this callback')
    # what is registered: a wrapper (nested def here, or built by a package factory around fn) that calls fn()
    def _wrapper_calls(fn_node, pname):
        return any(isinstance(c, ast.Call) and isinstance(c.func, ast.Name) and c.func.id == pname for c in ast.walk(fn_node))
    ok = False
    if len(cs) == 1 and cs[0].args:
        w = q.resolve_local(adc, cs[0].args[0])
        inner_fn = {n.name: n for n in ast.walk(adc.node) if isinstance(n, ast.FunctionDef) and n is not adc.node}
        if isinstance(w, ast.Lambda):
            ok = _wrapper_calls(w.body, adc.params[1])
        elif isinstance(w, ast.Name) and w.id in inner_fn:
            ok = _wrapper_calls(inner_fn[w.id], adc.params[1])
        elif isinstance(w, ast.Call):
            r = ctx.r.resolve(w, adc, _count=False)
            if r.kind == 'package' and len(r.targets) == 1:
                t = r.targets[0]
                b = q.bind_args(ctx, w, adc, t) or {}
                pn = [k for k, v in b.items() if isinstance(v, ast.Name) and v.id == adc.params[1]]
                nested = [n for n in ast.walk(t.node) if isinstance(n, (ast.FunctionDef, ast.Lambda)) and n is not t.node]
                rets = [x.value for x in own_nodes(t.node) if isinstance(x, ast.Return) and x.value is not None]
                ok = bool(pn) and len(nested) == 1 and _wrapper_calls(nested[0], pn[0]) and len(rets) == 1 and \
                    ((isinstance(rets[0], ast.Name) and isinstance(nested[0], ast.FunctionDef) and rets[0].id == nested[0].name) or rets[0] is nested[0])
    ctx.ob(adc, 'the registered wrapper calls fn()', ok, 'the callback itself must run')
    # ... and nothing that can raise runs before it: the wrapper is the only way the permit release / association removal happens
    wrappers = [n for n in ast.walk(adc.node) if isinstance(n, (ast.FunctionDef, ast.Lambda)) and n is not adc.node]
    for wn in wrappers:
        calls = sorted([c for c in ast.walk(wn) if isinstance(c, ast.Call)], key=lambda c: getattr(c, '_pos', 0))
        fn_calls = [c for c in calls if isinstance(c.func, ast.Name) and c.func.id == adc.params[1]]
        if not fn_calls:
            continue
        before = [c for c in calls if getattr(c, '_pos', 0) < getattr(fn_calls[0], '_pos', 0) and not (dotted(c.func) or '').startswith('logger.')]
        guarded = q.guards(fn_calls[0])
        guarded = [g_ for g_ in guarded if isinstance(g_[0], ast.AST) and any(g_[0] is x for x in ast.walk(wn))]
        ctx.ob(adc, 'fn() is the first thing the wrapper does, unconditionally', not before and not guarded,
               f'{[short(c, 40) for c in before]} runs before fn(): if it raises (e.g. future.result() of a failed task) the callback - the semaphore release - never runs and the permit is lost')


# who may hand work to an executor directly (function -> receiver text): everything else goes through
# TransferCoordinator.submit, which is what records the future as belonging to the transfer
DIRECT_SUBMITTERS = {
    'futures.TransferCoordinator.submit': 'the tracked front door itself',
    'futures.BoundedExecutor.submit': 'the facade over the pool',
    'manager.TransferManager._submit_transfer': 'the submission task: it is the root of the transfer, and its own failure path is what waits for the tracked futures',
}
TASK_MODULES = ('copies', 'delete', 'download', 'upload', 'manager', 'tasks', 'futures', 'utils', 'bandwidth', 'subscribers')


@rule('C04.j', ['C04', 'C05', 'C08', 'C10'], floor=10)
def every_task_goes_through_the_coordinator(ctx):
    """In the transfer-manager modules every `.submit(` of work is
    `self._transfer_coordinator.submit(executor, task, tag)` (resolved to
    TransferCoordinator.submit), except the three functions of DIRECT_SUBMITTERS.  A task
    handed straight to an executor runs, but its future is not associated with the transfer:
    the submission error path does not wait for it, so cleanups (the abort), on_done and the
    release of the transfer's slot can happen while its request is still in flight."""
    n = 0
    for f, c, r in q.call_index(ctx):
        if not (isinstance(c.func, ast.Attribute) and c.func.attr == 'submit') or f.module.name not in TASK_MODULES:
            continue
        n += 1
        if f.qualname in DIRECT_SUBMITTERS:
            ctx.ob(f, c, True, DIRECT_SUBMITTERS[f.qualname], trivial=True)
            if f.qualname == 'manager.TransferManager._submit_transfer':
                ctx.ob(f, f'submission tasks go to self._submission_executor ({norm(c.func.value)})', norm(q.resolve_local(f, c.func.value)) == 'self._submission_executor',
                       'a submission task that runs on the executor it submits to holds one of that stage\'s threads and slots while it waits for another: with a '
                       '1-slot or 1-thread request stage (or as many submitting transfers as threads) nothing can ever run')
            continue
        ok = r.kind == 'package' and [t.qualname for t in r.targets] == [f'{COORD}.submit']
        ctx.ob(f, c, ok, f'{norm(c.func)}(...) hands work to an executor without TransferCoordinator.submit: the future is not associated with the '
                         'transfer, so nothing that waits for "all requests of this transfer" waits for it')
    ctx.need(n >= 10, f'only {n} submit sites found')


@rule('C08.f', ['C08', 'C14'], floor=3)
def provided_size_is_the_size(ctx):
    """TransferMeta.provide_transfer_size stores its argument where .size reads it; call_args /
    transfer_id / user_context return what the constructor stored."""
    m = ctx.cls('futures.TransferMeta')
    p = m.methods['provide_transfer_size']
    st = [n for n in own_nodes(p.node) if isinstance(n, ast.Assign) and any(dotted(t) == 'self._size' for t in n.targets)]
    ctx.ob(p, 'provide_transfer_size: self._size = size', len(st) == 1 and norm(st[0].value) == p.params[1] and not q.guards(st[0]), 'a provided size that is not stored makes the library discover it again / plan with None')
    ctx.ob(m.methods['size'], 'size -> self._size', _single_return_text(m.methods['size']) == 'self._size', 'size accessor')
    init = m.methods['__init__']
    for attr, param in (('_call_args', 'call_args'), ('_transfer_id', 'transfer_id')):
        st = [n for n in own_nodes(init.node) if isinstance(n, ast.Assign) and any(dotted(t) == f'self.{attr}' for t in n.targets)]
        ctx.ob(init, f'self.{attr} = {param}', len(st) == 1 and norm(st[0].value) == param, 'meta must carry the call it describes')
        ctx.ob(m.methods[param], f'{param} -> self.{attr}', _single_return_text(m.methods[param]) == f'self.{attr}', f'{param} accessor')


@rule('C08.g', ['C08', 'C09'], floor=2)
def subscriber_hooks_are_looked_up_on_the_instance(ctx):
    """get_callbacks collects, for every subscriber of the transfer in order, the bound
    on_<type> attribute of the *subscriber object* (getattr on the instance, so inherited
    and instance-level hooks count), bound to this transfer's future; the only thing that
    may exclude a subscriber is that it has no such attribute (hasattr on the instance)."""
    f = ctx.func('utils.get_callbacks')
    loops = [n for n in own_nodes(f.node) if isinstance(n, ast.For) and norm(n.iter).endswith('.subscribers')]
    ctx.need(len(loops) == 1 and isinstance(loops[0].target, ast.Name), 'get_callbacks no longer loops over the subscribers')
    lp = loops[0]
    sub = lp.target.id
    apps = [c for c in ast.walk(lp) if isinstance(c, ast.Call) and isinstance(c.func, ast.Attribute) and c.func.attr == 'append']
    ctx.ob(f, 'one callback appended per subscriber', len(apps) == 1 and not [n for n in ast.walk(lp) if isinstance(n, (ast.Break, ast.Return))],
           'every subscriber must be considered, in order')

    def _is_hasattr(t, name_txt):
        t = q.resolve_local(f, t) if isinstance(t, ast.Name) else t
        return isinstance(t, ast.Call) and norm(t.func) == 'hasattr' and len(t.args) == 2 and norm(t.args[0]) == sub and norm(q.inline_locals(f, t.args[1])) == name_txt
    for c in apps:
        full = q.inline_locals(f, c)
        ga = [x for x in ast.walk(full) if isinstance(x, ast.Call) and norm(x.func) == 'getattr' and len(x.args) >= 2 and norm(x.args[0]) == sub]
        name_txt = norm(ga[0].args[1]) if ga else None
        okn = bool(ga) and name_txt in ("'on_' + callback_type", "f'on_{callback_type}'")
        okf = any(k.arg == 'future' and norm(k.value) == f.params[0] for x in ast.walk(full) if isinstance(x, ast.Call) for k in x.keywords)
        ctx.ob(f, "getattr(subscriber, 'on_' + callback_type) bound to future=transfer_future", okn and okf, f'found {short(c, 90)}')
        bad = []
        for e, pol in q.guards(c):
            if not any(e is x for x in ast.walk(lp)):
                continue
            if not (pol and _is_hasattr(e, name_txt)):
                bad.append(('' if pol else 'not ') + norm(e))
        # an early `continue` is the same decision written the other way round: it may be taken only when the attribute is missing
        for cn in [n for n in ast.walk(lp) if isinstance(n, ast.Continue)]:
            gs = [(e, pol) for e, pol in q.guards(cn) if any(e is x for x in ast.walk(lp))]
            if not (len(gs) == 1 and not gs[0][1] and _is_hasattr(gs[0][0], name_txt)):
                bad.append('continue when ' + ' and '.join(('' if pol else 'not ') + norm(e) for e, pol in gs))
        ctx.ob(f, 'a subscriber is left out only when it has no such attribute (hasattr on the instance)', not bad,
               f'{bad}: hooks that are inherited from a base class, or set on the instance, are silently dropped: on_queued / on_done never run for that subscriber')
