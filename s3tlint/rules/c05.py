"""C05 - no orphaned or doubly-finished multipart uploads."""
import ast

from ..engine import rule
from ..ir import ancestors, dotted, kwarg, norm, own_calls, own_nodes, short
from .. import q

COORD = 'futures.TransferCoordinator'


@rule('C05.a', ['C05'], floor=2)
def abort_registered_when_id_known(ctx):
    """In every function that calls create_multipart_upload through the manager path,
    every normal path from the call to the exit passes add_failure_cleanup(
    <client>.abort_multipart_upload, ..., UploadId=<id from the response>), with no
    other call in between."""
    sites = [(f, c) for f, c, op in q.client_calls(ctx, 'create_multipart_upload') if f.module.name != '__init__']
    ctx.need(sites, 'no create_multipart_upload call in the manager path')
    for f, c in sites:
        g = ctx.cfg(f)
        regs = []
        for c2, r in q.calls_in(ctx, f):
            if r.kind == 'package' and any(t.qualname == f'{COORD}.add_failure_cleanup' for t in r.targets) and c2.args:
                a0 = c2.args[0]
                if isinstance(a0, ast.Attribute) and a0.attr == 'abort_multipart_upload':
                    regs.append(c2)
        regn = [n for x in regs for n in g.nodes_of(x)]
        ok = bool(regs) and g.must_pass(g.nodes_of(c), regn, [g.exit], g.NORMAL)
        ctx.ob(f, 'add_failure_cleanup(client.abort_multipart_upload, ...) on every path after create', ok,
               'once the upload id is known an abort must be registered, otherwise a later failure orphans the upload')
        for rg in regs:
            uid = kwarg(rg, 'UploadId')
            st = c._parent
            resp = st.targets[0].id if isinstance(st, ast.Assign) and isinstance(st.targets[0], ast.Name) else None
            ok = uid is not None and resp is not None and q.derives_from(f, uid, lambda n: isinstance(n, ast.Name) and n.id == resp)
            ctx.ob(f, rg, ok, 'the abort must carry the UploadId taken from the create response')
            same_client = norm(rg.args[0].value) == norm(c.func.value)
            ctx.ob(f, f'abort uses the client that created the upload ({norm(rg.args[0].value)})', same_client, 'abort must go to the same client')
            bk = all(kwarg(rg, k) is not None and kwarg(c, k) is not None and norm(kwarg(rg, k)) == norm(kwarg(c, k)) for k in ('Bucket', 'Key'))
            ctx.ob(f, 'abort Bucket/Key equal the create Bucket/Key', bk, 'abort must address the same upload')
            # nothing that can block or fail between create and registration
            between = g.reach(g.nodes_of(c), avoid=g.nodes_of(rg), labels=g.NORMAL)
            calls = [n for n in between if n.ast is not None and any(isinstance(x, ast.Call) for x in ast.walk(n.ast)) and n.kind == 'stmt']
            ctx.ob(f, 'no call between create_multipart_upload and the abort registration', not calls,
                   'a call between the two can fail and leave the upload without an abort: ' + ', '.join(short(n.ast, 40) for n in calls[:2]))


@rule('C05.c', ['C05', 'C01'], floor=4)
def finaliser_waits_for_every_request(ctx):
    """In each _submit_multipart_request every future obtained from a submit (the create
    future, the list of part futures) is awaited by the final Complete task through
    pending_main_kwargs; parts await the create future."""
    fs = [f for f in ctx.p.all_functions() if f.name == '_submit_multipart_request']
    ctx.need(len(fs) >= 2, 'fewer than two _submit_multipart_request functions')
    for f in fs:
        subs = [s for s in q.submits(ctx) if s.func is f]
        finals = [(s, ctor) for s in subs for cl, ctor, _ in s.task_ctors if cl is not None and q.ctor_is_final(ctx, cl, ctor)]
        ctx.ob(f, 'one final task', len(finals) == 1, f'found {len(finals)} final tasks')
        if len(finals) != 1:
            continue
        fs_, fctor = finals[0]
        pk = kwarg(fctor, 'pending_main_kwargs')
        awaited = {norm(v) for v in pk.values} if isinstance(pk, ast.Dict) else set()
        futs = set()
        for s in subs:
            if s is fs_:
                continue
            par = s.call._parent
            if isinstance(par, ast.Assign) and isinstance(par.targets[0], ast.Name):
                futs.add(par.targets[0].id)
            elif isinstance(par, ast.Call) and isinstance(par.func, ast.Attribute) and par.func.attr == 'append':
                futs.add(norm(par.func.value))
            else:
                ctx.ob(f, s.call, False, 'the future of this request is dropped: the Complete/abort cannot wait for it')
        for v in sorted(futs):
            ctx.ob(f, f'final task awaits {v}', v in awaited, f'the final task must wait for {v} (awaited: {sorted(awaited)}); otherwise complete/abort can overtake a request')
        # part tasks await the create future
        for s in subs:
            for cl, ctor, _ in s.task_ctors:
                if cl is not None and ctor is not None and cl.name in ('UploadPartTask', 'CopyPartTask'):
                    pk2 = kwarg(ctor, 'pending_main_kwargs')
                    ok = isinstance(pk2, ast.Dict) and any(isinstance(k, ast.Constant) and k.value == 'upload_id' for k in pk2.keys)
                    ctx.ob(f, f'{cl.name} awaits the create future for upload_id', ok, 'a part must get the upload id from the create task')
        # the Complete task's parts kwarg is the part futures list, upload_id the create future
        if isinstance(pk, ast.Dict):
            keys = {k.value for k in pk.keys if isinstance(k, ast.Constant)}
            ctx.ob(f, "final task pending kwargs {'upload_id', 'parts'}", {'upload_id', 'parts'} <= keys, f'found {sorted(keys)}')


@rule('C05.d', ['C05', 'C01'], floor=4)
def who_may_abort_or_complete(ctx):
    """abort_multipart_upload is referenced only as the callee handed to
    add_failure_cleanup (manager path) or inside an except handler that re-raises
    (legacy); complete_multipart_upload is called only from the final Complete task
    (constructed with is_final=True, outside loops) and the legacy uploader."""
    for f, n in q.client_refs(ctx, 'abort_multipart_upload'):
        par = n._parent
        ok = isinstance(par, ast.Call) and (dotted(par.func) or '').endswith('add_failure_cleanup') and par.args and par.args[0] is n
        ctx.ob(f, par if isinstance(par, ast.AST) else n, ok, 'an abort may only be registered as a failure cleanup (it then runs iff the transfer did not succeed, after all requests)')
    for f, c, op in q.client_calls(ctx, 'abort_multipart_upload'):
        h = q.in_handler(c)
        ok = h is not None and q.always_exits(h.body) and isinstance(h.body[-1], ast.Raise) and f.module.name == '__init__'
        ctx.ob(f, c, ok, 'a direct abort call is only allowed in a re-raising error handler of the legacy uploader')
    allowed = {'tasks.CompleteMultipartUploadTask._main', '__init__.MultipartUploader.upload_file'}
    sites = q.client_calls(ctx, 'complete_multipart_upload')
    ctx.need(sites, 'no complete_multipart_upload call found')
    for f, c, op in sites:
        ctx.ob(f, c, f.qualname in allowed and q.in_loop(c) is None and q.in_handler(c) is None,
               'complete may only be issued once, by the final Complete task / legacy uploader')
    cmt = ctx.cls('tasks.CompleteMultipartUploadTask')
    n = 0
    for s in q.submits(ctx):
        for cl, ctor, owner in s.task_ctors:
            if cl is cmt:
                n += 1
                ctx.ob(s.func, s.call, q.ctor_is_final(ctx, cl, ctor) and q.in_loop(s.call) is None and not q.guards(s.call),
                       'the Complete task must be the single final task of the transfer (is_final=True, not in a loop, unconditional)')
    ctx.need(n >= 2, f'CompleteMultipartUploadTask submitted at {n} sites (<2)')
    # complete/part tasks are request-stage tasks behind Task.__call__ (guarded by not done(): no request after abort)
    for name in ('tasks.CompleteMultipartUploadTask', 'upload.UploadPartTask', 'copies.CopyPartTask'):
        cl = ctx.cls(name)
        ctx.ob(name, 'is a Task (runs behind the not-done() guard)', cl.is_subclass_of(ctx.cls('tasks.Task')), 'must be a Task')


@rule('C05.e', ['C05'], floor=2)
def legacy_abort_covers_every_use_of_the_id(ctx):
    """Legacy MultipartUploader.upload_file: every client call that uses the upload id
    lies inside a try whose handler aborts that id (and re-raises)."""
    f = ctx.func('__init__.MultipartUploader.upload_file')
    creates = [c for c, r in q.calls_in(ctx, f) if r.kind == 'client' and r.ext == 'create_multipart_upload']
    ctx.need(creates, 'legacy upload_file no longer creates the multipart upload')
    uid = (q.names_defined_by(f, lambda v: isinstance(v, ast.Subscript) and norm(v.slice) == "'UploadId'") or ['upload_id'])[0]
    for c, r in q.calls_in(ctx, f):
        uses_id = any(k.arg == 'UploadId' for k in c.keywords) or any(isinstance(a, ast.Name) and a.id == uid for a in c.args)
        if not uses_id or q.in_handler(c) is not None:
            continue
        covered = False
        for t, field in q.enclosing_trys(c):
            if field == 'body':
                for h in t.handlers:
                    aborts = [x for x in ast.walk(h) if isinstance(x, ast.Call) and (dotted(x.func) or '').endswith('abort_multipart_upload')]
                    if aborts and any(kwarg(a, 'UploadId') is not None and norm(kwarg(a, 'UploadId')) == uid for a in aborts):
                        covered = True
        ctx.ob(f, f'{dotted(c.func) or short(c.func)}(... upload_id ...)', covered, 'a failure of this call leaves the multipart upload open (no abort is issued): it is outside the aborting try', node=c)

    # the abort is issued only after the part-upload pool has been joined: it is not nested in the `with <executor>` block
    # whose pool runs the parts (seeded C05-Q: the pool was moved into upload_file around the aborting try, so queued parts
    # were still sent after the abort and left an orphaned upload behind).  Judged on the expanded function as well.
    n_pools = 0
    for view, vf in ((ctx, f), (ctx.expanded(), ctx.expanded().func('__init__.MultipartUploader.upload_file'))):
        for w in own_nodes(vf.node):
            if not isinstance(w, ast.With):
                continue
            pooled = [it for it in w.items if isinstance(it.context_expr, ast.Call) and (
                'executor' in norm(it.context_expr.func).lower()
                or (isinstance(it.optional_vars, ast.Name) and any(isinstance(x, ast.Call) and isinstance(x.func, ast.Attribute) and x.func.attr in ('map', 'submit')
                                                                     and norm(x.func.value) == it.optional_vars.id for x in ast.walk(w))))]
            if not pooled:
                continue
            n_pools += 1
            inside = [x for x in ast.walk(w) if isinstance(x, ast.Call) and (dotted(x.func) or '').endswith('abort_multipart_upload')]
            ctx.ob(f, f'abort after the pool `{short(pooled[0].context_expr, 40)}` is joined ({"expanded" if view is not ctx else "as written"})', not inside,
                   'abort_multipart_upload is issued inside the with-block of the part-upload pool: parts still queued or in flight are sent after the abort '
                   'and re-create an orphaned upload', node=(inside[0] if inside else w))
    ctx.need(n_pools >= 1, 'the legacy part-upload pool (a with-block over the executor) was not found in upload_file, expanded')


@rule('C05.f', ['C05'], floor=3)
def abort_request_is_well_formed(ctx):
    """Every abort the package can issue - the direct client calls and the
    abort_multipart_upload method values registered as failure cleanups - passes only
    arguments AbortMultipartUpload has (read from botocore's service model): an abort
    carrying e.g. the SSE-C key arguments is rejected by botocore's parameter validation
    before it is sent, the cleanup raises, and the upload of a failed transfer stays open.
    (The C15 forwarding table restricted to the abort operation.)"""
    from .c15 import _table
    _table(ctx, only={'abort_multipart_upload'})
