"""C09 - progress callbacks account for exactly the transferred bytes."""
import ast

from ..engine import rule
from ..ir import dotted, kwarg, norm, own_calls, own_nodes, short
from .. import q
from ..poly import equal, poly, NotPoly
from .c03 import retry_loops


@rule('C09.a', ['C09'], floor=2)
def rewind_on_stream_retry(ctx):
    """In the manager's stream retry loop the retrying handler reports
    invoke_progress_callbacks(cb, A - B) where B is the cursor advanced by len(chunk)
    in this attempt and A the value it is re-initialised from: exactly minus the bytes
    reported in the abandoned attempt; the stream that reports them is created per
    attempt with the same callbacks."""
    loops = [rl for rl in retry_loops(ctx) if rl.func.qualname == 'download.GetObjectTask._main']
    ctx.need(loops, 'GetObjectTask._main retry loop not recognised')
    rl = loops[0]
    f = rl.func
    cs = [c for s in rl.handler.body for c in ast.walk(s) if isinstance(c, ast.Call) and (dotted(c.func) or '').endswith('invoke_progress_callbacks')]
    ctx.ob(f, 'retry handler rewinds progress', len(cs) == 1 and not [g_ for g_ in q.guards(cs[0]) if isinstance(g_[0], ast.AST) and any(a is rl.handler for a in __import__('s3tlint.ir', fromlist=['ancestors']).ancestors(g_[0]))], 'progress of the abandoned attempt is never taken back: the sum exceeds the object size')
    if len(cs) != 1:
        return
    c = cs[0]
    amt = c.args[1] if len(c.args) > 1 else kwarg(c, 'bytes_transferred')
    amt = q.resolve_local(f, amt) if amt is not None else None
    cursors = [n.target.id for n in ast.walk(rl.try_) if isinstance(n, ast.AugAssign) and isinstance(n.target, ast.Name) and isinstance(n.op, ast.Add) and norm(n.value).startswith('len(')]
    ok = False
    why = f'found {norm(amt)}'
    if isinstance(amt, ast.BinOp) and isinstance(amt.op, ast.Sub) and cursors:
        cur = cursors[0]
        inits = [v for st, v in q.local_defs(f, cur) if isinstance(st, ast.Assign) and isinstance(v, ast.AST)]
        ok = norm(amt.right) == cur and len(inits) == 1 and equal(amt.left, inits[0])
        why = f'rewind amount must be <cursor start> - <cursor> = {norm(inits[0]) if inits else "?"} - {cur}, found {norm(amt)}'
    ctx.ob(f, f'invoke_progress_callbacks({norm(c.args[0])}, {norm(amt)})', ok, why)
    # the chunk length that advances the cursor is the chunk that was read through the progress stream
    srp = [x for x in ast.walk(rl.try_) if isinstance(x, ast.Call) and norm(x.func) == 'StreamReaderProgress']
    ok = len(srp) == 1 and norm(q.argn(srp[0], 'callbacks', 1)) == norm(c.args[0]) and "['Body']" in norm(q.argn(srp[0], 'stream', 0))
    ctx.ob(f, 'StreamReaderProgress(response[Body], callbacks) per attempt, same callbacks as the rewind', ok, 'reads and rewind must report to the same callbacks')
    # ... and every chunk is read through that progress stream, whatever wrappers are put round it on the way
    its = [x for x in ast.walk(rl.try_) if isinstance(x, ast.Call) and norm(x.func) == 'DownloadChunkIterator']
    g = ctx.cfg(f)
    if len(srp) == 1 and its:
        res = g.path_conditions(g.nodes_of(srp[0]), [n for it in its for n in g.nodes_of(it)], labels=g.NORMAL, with_nodes=True)
        ctx.need(res, 'no path from the progress stream to the chunk iterator')
        bad = []
        for conds, nodes in res:
            via = set()        # names that hold the progress stream, possibly wrapped
            for n in nodes[:-1]:
                st = n.ast if n.kind == 'stmt' else None
                if isinstance(st, ast.Assign) and len(st.targets) == 1 and isinstance(st.targets[0], ast.Name):
                    v = st.value
                    carries = any(x is srp[0] for x in ast.walk(v)) or (isinstance(v, ast.Name) and v.id in via) or \
                        (isinstance(v, ast.Call) and any(isinstance(a, ast.Name) and a.id in via for a in list(v.args) + [k.value for k in v.keywords]))
                    if carries:
                        via.add(st.targets[0].id)
                    else:
                        via.discard(st.targets[0].id)
            it = [i for i in its if nodes[-1] in g.nodes_of(i)][0]
            a0 = q.argn(it, 'body', 0)
            if not ((isinstance(a0, ast.Name) and a0.id in via) or (a0 is not None and any(x is srp[0] for x in ast.walk(a0)))):
                bad.append(' and '.join(('' if pol else 'not ') + norm(e) for e, pol in conds) or 'always')
        ctx.ob(f, 'the chunk iterator reads through the StreamReaderProgress of this attempt on every path', not bad,
               f'when {sorted(set(bad))} the chunks are read from a stream that does not contain the progress reader: no on_progress for those bytes')
    adv = [n for n in ast.walk(rl.try_) if isinstance(n, ast.AugAssign) and isinstance(n.target, ast.Name) and n.target.id in cursors]
    ok = len(adv) == 1 and isinstance(q.in_loop(adv[0]), ast.For) and norm(adv[0].value) == f'len({norm(q.in_loop(adv[0]).target)})'
    ctx.ob(f, 'cursor += len(chunk) for every chunk read', ok, 'the cursor must count exactly the bytes read in this attempt')
    for s in q.submits(ctx):
        for cl, ctor, owner in s.task_ctors:
            if cl is not None and ctor is not None and cl.is_subclass_of(ctx.cls('download.GetObjectTask')):
                mk = kwarg(ctor, 'main_kwargs')
                v = {k.value: v for k, v in zip(mk.keys, mk.values) if isinstance(k, ast.Constant)}.get('callbacks') if isinstance(mk, ast.Dict) else None
                ok = isinstance(v, ast.Name) and any(isinstance(d, ast.Call) and norm(d) == "get_callbacks(transfer_future, 'progress')" for _, d in q.local_defs(owner, v.id))
                ctx.ob(owner, f"{cl.name}: callbacks = get_callbacks(transfer_future, 'progress')", ok, 'download progress must go to the on_progress subscribers')


@rule('C09.b', ['C09'], floor=6)
def reads_report_what_they_return(ctx):
    """ReadFileChunk.read reports len(<returned data>) only while callbacks are enabled;
    seek reports the bounded position delta only while enabled and then moves the
    position; StreamReaderProgress.read reports len(<returned value>);
    invoke_progress_callbacks passes the amount on unchanged to every callback."""
    f = ctx.func('utils.ReadFileChunk.read')
    cs = [c for c in own_calls(f.node) if (dotted(c.func) or '').endswith('invoke_progress_callbacks')]
    rets = [x for x in own_nodes(f.node) if isinstance(x, ast.Return)]
    ok = len(cs) == 1 and len(rets) == 1 and norm(q.resolve_local(f, q.argn(cs[0], 'bytes_transferred', 1))) == f'len({norm(rets[0].value)})' and norm(q.argn(cs[0], 'callbacks', 0)) == 'self._callbacks'
    ctx.ob(f, 'read(): invoke_progress_callbacks(self._callbacks, len(data)) with data = the returned value', ok, 'the amount reported must be the amount returned')
    ok = len(cs) == 1 and q.guards_imply(q.guards(cs[0]), 'self._callbacks_enabled')
    ctx.ob(f, 'read(): only while self._callbacks_enabled', ok, 'reads made while signing the request would be counted as transferred')
    f = ctx.func('utils.ReadFileChunk.seek')
    cs = [c for c in own_calls(f.node) if (dotted(c.func) or '').endswith('invoke_progress_callbacks')]
    ok = len(cs) == 1 and q.guards_imply(q.guards(cs[0]), 'self._callbacks_enabled')
    ctx.ob(f, 'seek(): report only while self._callbacks_enabled', ok, 'rewinds while signing would be subtracted')
    # the legacy sibling (s3transfer/__init__.py ReadFileChunk): read and seek report under the same switch, so that what a
    # suppressed read did not add a suppressed (or unsuppressed) rewind does not take away
    lg = ctx.cls('__init__.ReadFileChunk')
    for mname in ('read', 'seek'):
        m = lg.methods.get(mname)
        ctx.need(m is not None, f'legacy ReadFileChunk.{mname} vanished')
        cbs = [c for c in own_calls(m.node) if (dotted(c.func) or '') == 'self._callback']
        ok = len(cbs) == 1 and q.guards_imply(q.guards(cbs[0]), 'self._callback_enabled') and q.guards_imply(q.guards(cbs[0]), 'self._callback is not None')
        ctx.ob(m, f'legacy {mname}(): self._callback(...) only while self._callback_enabled', ok,
               'reads and rewinds must be reported under the same switch: otherwise bytes botocore reads while preparing the request are counted, or their rewind is '
               'subtracted although they were never added (negative running sum)')
    if len(cs) == 1:
        amt = kwarg(cs[0], 'bytes_transferred') or (cs[0].args[1] if len(cs[0].args) > 1 else None)
        from ..ir import canon_text
        got = norm(q.inline_locals(f, amt)) if amt is not None else ''
        want = canon_text('max(min(where - self._start_byte, self._size), 0) - min(self._amount_read, self._size)')
        ctx.ob(f, 'seek(): amount = clamp(where - start, 0, size) - min(amount_read, size)', got == want,
               f'the rewind/forward amount must be the bounded position delta; found {got}')
        g = ctx.cfg(f)
        st = [n for n in own_nodes(f.node) if isinstance(n, ast.Assign) and dotted(n.targets[0]) == 'self._amount_read']
        ok = len(st) == 1 and norm(st[0].value) == 'max(where - self._start_byte, 0)' and not (g.reach(g.nodes_of(st[0]), labels=g.NORMAL) & set(g.nodes_of(cs[0])))
        ctx.ob(f, 'seek(): self._amount_read = max(where - self._start_byte, 0) after reporting', ok, 'the position must be updated after the delta was computed from the old position')
        adds = [n for n in own_nodes(f.node) if isinstance(n, ast.AugAssign) and norm(n.target) == 'where']
        by = {norm(n.value): n for n in adds}
        ok = set(by) == {'self._start_byte', 'self._amount_read', 'self._size'} and len(adds) == 3 \
            and not any('whence ==' in t for t, _ in q.guard_texts(by['self._start_byte'])) \
            and q.guards_imply(q.guards(by['self._amount_read']), 'whence == 1') and q.guards_imply(q.guards(by['self._size']), 'whence == 2')
        ctx.ob(f, 'seek(): where is made absolute (start / current / end relative)', ok, f'{[(norm(n.value), q.guard_texts(n)) for n in adds]}')
    f = ctx.func('utils.StreamReaderProgress.read')
    cs = [c for c in own_calls(f.node) if (dotted(c.func) or '').endswith('invoke_progress_callbacks')]
    rets = [x for x in own_nodes(f.node) if isinstance(x, ast.Return)]
    ok = len(cs) == 1 and len(rets) == 1 and norm(q.resolve_local(f, q.argn(cs[0], 'bytes_transferred', 1))) == f'len({norm(rets[0].value)})' and not q.guards(cs[0]) and norm(q.argn(cs[0], 'callbacks', 0)) == 'self._callbacks'
    ctx.ob(f, 'StreamReaderProgress.read reports len(value) of the value it returns', ok, 'download progress must equal the bytes read')
    f = ctx.func('utils.invoke_progress_callbacks')
    calls = [c for c, r in q.calls_in(ctx, f) if r.kind == 'open']
    ok = len(calls) == 1 and norm(kwarg(calls[0], 'bytes_transferred')) == f.params[1] and isinstance(q.in_loop(calls[0]), ast.For) \
        and norm(q.in_loop(calls[0]).iter) == f.params[0] and q.guard_texts(calls[0]) == [(f.params[1], True)]
    ctx.ob(f, 'every callback gets bytes_transferred unchanged (skipped only when it is 0)', ok, 'amounts must be passed on as they are (negative ones included)')


@rule('C09.c', ['C09'], floor=6)
def suppressed_while_signing(ctx):
    """On 'request-created.s3' signal_not_transferring is registered first and
    signal_transferring last; bodies are opened with enable_callbacks=False; the signal
    functions act on PutObject/UploadPart bodies; ReadFileChunk.signal_* toggle the
    callbacks."""
    f = ctx.func('manager.TransferManager._register_handlers')
    ev = [v for st, v in q.local_defs(f, 'event_name') if isinstance(v, ast.AST)]
    evn = norm(ev[0]) if len(ev) == 1 else None
    for meth, fn in (('register_first', 'signal_not_transferring'), ('register_last', 'signal_transferring')):
        cs = [c for c in own_calls(f.node) if isinstance(c.func, ast.Attribute) and c.func.attr == meth]
        ok = len(cs) == 1 and len(cs[0].args) >= 2 and norm(cs[0].args[1]) == fn and q.ntext(f, cs[0].args[0]) == "'request-created.s3'"
        ctx.ob(f, f"events.{meth}('request-created.s3', {fn})", ok, 'reads made while the request is built/signed must not be reported; reporting must be on when it is sent')
    mi = ctx.func('manager.TransferManager.__init__')
    ctx.ob(mi, 'self._register_handlers() in __init__', any((dotted(c.func) or '') == 'self._register_handlers' and not q.guards(c) for c in own_calls(mi.node)), 'handlers are never registered')
    for qn in ('utils.OSUtils.open_file_chunk_reader', 'utils.OSUtils.open_file_chunk_reader_from_fileobj'):
        g = ctx.func(qn)
        cs = [c for c in own_calls(g.node) if kwarg(c, 'enable_callbacks') is not None]
        ok = len(cs) == 1 and isinstance(kwarg(cs[0], 'enable_callbacks'), ast.Constant) and kwarg(cs[0], 'enable_callbacks').value is False
        ctx.ob(g, 'body opened with enable_callbacks=False', ok, 'bodies must start silent (the signing pass reads them)')
    for fn, meth in (('signal_not_transferring', 'signal_not_transferring'), ('signal_transferring', 'signal_transferring')):
        g = ctx.func(f'utils.{fn}')
        cs = [c for c in own_calls(g.node) if isinstance(c.func, ast.Attribute) and c.func.attr == meth]
        def both_ops(e):
            for n in ast.walk(e):
                if isinstance(n, ast.Compare) and len(n.ops) == 1 and isinstance(n.ops[0], ast.In) and isinstance(n.comparators[0], (ast.Tuple, ast.List, ast.Set)) \
                        and {x.value for x in n.comparators[0].elts if isinstance(x, ast.Constant)} == {'PutObject', 'UploadPart'} and len(n.comparators[0].elts) == 2:
                    return True
            return False
        ok = len(cs) == 1 and any(both_ops(e) and pol for e, pol in q.guards(cs[0]))
        ctx.ob(g, f'{fn}: body.{meth}() for PutObject/UploadPart', ok, 'the toggle must reach upload bodies of both operations')
    for meth, target in (('signal_transferring', 'enable_callback'), ('signal_not_transferring', 'disable_callback')):
        g = ctx.func(f'utils.ReadFileChunk.{meth}')
        cs = [c for c in own_calls(g.node) if (dotted(c.func) or '') == f'self.{target}']
        fw = [c for c in own_calls(g.node) if (dotted(c.func) or '') == f'self._fileobj.{meth}']
        ctx.ob(g, f'{meth} -> self.{target}() and forwards to the wrapped object', len(cs) == 1 and not q.guards(cs[0]) and len(fw) == 1, 'toggle broken')
    for meth, val in (('enable_callback', True), ('disable_callback', False)):
        g = ctx.func(f'utils.ReadFileChunk.{meth}')
        st = [n for n in own_nodes(g.node) if isinstance(n, ast.Assign) and dotted(n.targets[0]) == 'self._callbacks_enabled']
        ctx.ob(g, f'self._callbacks_enabled = {val}', len(st) == 1 and isinstance(st[0].value, ast.Constant) and st[0].value.value is val, 'toggle broken')


@rule('C09.d', ['C09'], floor=4)
def copies_report_after_the_request(ctx):
    """CopyObjectTask / CopyPartTask call every callback with bytes_transferred=size after
    the copy request returned; the size of part k comes from _get_transfer_size (whose two
    cases sum to the total: C14.b); the single copy reports the whole size."""
    for qn, op in (('copies.CopyObjectTask._main', 'copy_object'), ('copies.CopyPartTask._main', 'upload_part_copy')):
        f = ctx.func(qn)
        g = ctx.cfg(f)
        req = [n for c, r in q.calls_in(ctx, f) if r.kind == 'client' and r.ext == op for n in g.nodes_of(c)]
        cbs = [c for c, r in q.calls_in(ctx, f) if r.kind == 'open']
        ok = len(cbs) == 1 and norm(kwarg(cbs[0], 'bytes_transferred')) == 'size' and isinstance(q.in_loop(cbs[0]), ast.For) and norm(q.in_loop(cbs[0]).iter) == 'callbacks' \
            and not q.guards(cbs[0])
        ctx.ob(f, 'for callback in callbacks: callback(bytes_transferred=size)', ok, 'each progress subscriber must get the part size once')
        ctx.ob(f, f'progress is reported after {op} returned', bool(req) and bool(cbs) and g.all_dominate(req, [n for c in cbs for n in g.nodes_of(c)], g.NORMAL),
               'progress reported before/without a successful copy request')
    f = ctx.func('copies.CopySubmissionTask._submit_multipart_request')
    for s in q.submits(ctx):
        if s.func is not f:
            continue
        for cl, ctor, _ in s.task_ctors:
            if cl is not None and cl.name == 'CopyPartTask' and ctor is not None:
                mk = kwarg(ctor, 'main_kwargs')
                d = {k.value: v for k, v in zip(mk.keys, mk.values) if isinstance(k, ast.Constant)} if isinstance(mk, ast.Dict) else {}
                sz = d.get('size')
                # the size is computed by a package function from the part's own index (C14.b judges that function)
                szv = q.resolve_local(f, sz) if sz is not None else None
                rr = ctx.r.resolve(szv, f, _count=False) if isinstance(szv, ast.Call) else None
                ok = rr is not None and rr.kind == 'package' and len(rr.targets) == 1 and rr.targets[0].module.name == 'copies'
                if rr is None and szv is not None:
                    # computed in place from the part size / the total (C14.b judges the cases)
                    from .c14 import copy_part_size_cases
                    cases = copy_part_size_cases(ctx, f) or []
                    # at least two cases, one of them the remainder of the total (the last part is not a full part)
                    ok = len(cases) >= 2 and not any(isinstance(v_, ast.Constant) for _, v_ in cases) \
                        and any(isinstance(v_, ast.BinOp) and isinstance(v_.op, ast.Sub) and 'transfer_future.meta.size' in norm(v_.left) for _, v_ in cases)
                ctx.ob(f, "CopyPartTask 'size' = _get_transfer_size(...)", ok, f'part progress amount is {norm(sz)}')
                ctx.ob(f, "CopyPartTask 'callbacks' = progress callbacks", q.ntext(f, d.get('callbacks')) == "get_callbacks(transfer_future, 'progress')", 'wrong callbacks')
    f = ctx.func('copies.CopySubmissionTask._submit_copy_request')
    for s in q.submits(ctx):
        if s.func is not f:
            continue
        for cl, ctor, _ in s.task_ctors:
            if cl is not None and ctor is not None:
                mk = kwarg(ctor, 'main_kwargs')
                d = {k.value: q.ntext(f, v) for k, v in zip(mk.keys, mk.values) if isinstance(k, ast.Constant)} if isinstance(mk, ast.Dict) else {}
                ctx.ob(f, "CopyObjectTask 'size' = transfer_future.meta.size", d.get('size') == 'transfer_future.meta.size' and d.get('callbacks') == "get_callbacks(transfer_future, 'progress')", f'{d.get("size")}')


@rule('C09.e', ['C09'], floor=6)
def aggregation_is_flushed(ctx):
    """Every AggregatedProgressCallback made by _get_progress_callbacks has its flush
    passed as a close callback to the body that uses it; the aggregate is delivered and
    reset when the threshold is reached and on flush; ReadFileChunk.close runs the close
    callbacks."""
    base = ctx.cls('upload.UploadInputManager')
    n = 0
    for cl in base.all_subclasses():
        for m in cl.methods.values():
            for c in own_calls(m.node):
                if (dotted(c.func) or '') == 'self._get_progress_callbacks':
                    n += 1
                    var = c._parent.targets[0].id if isinstance(c._parent, ast.Assign) and isinstance(c._parent.targets[0], ast.Name) else None
                    cc = [x for x in own_calls(m.node) if (dotted(x.func) or '') == 'self._get_close_callbacks' and x.args and norm(x.args[0]) == var]
                    ccv = cc[0]._parent.targets[0].id if cc and isinstance(cc[0]._parent, ast.Assign) else None
                    # a body factory receives the callbacks (by keyword or position): any call other than the close-callback
                    # helper itself that is handed the callbacks variable
                    users = [x for x in own_calls(m.node) if x not in cc and x is not c
                             and var in [norm(a) for a in list(x.args) + [k.value for k in x.keywords]]]
                    ok = var is not None and ccv is not None and bool(users) and all(
                        any(k.arg == 'close_callbacks' and norm(k.value) == ccv for k in x.keywords) or ccv in [norm(a) for a in x.args] for x in users)
                    same_scope = bool(users) and all(q.in_loop(x) is q.in_loop(c) for x in users)
                    ctx.ob(m, f'{var} and {ccv} (its flushes) go to the same body', ok and same_scope, 'aggregated progress below the threshold would never be delivered')
    ctx.need(n >= 3, f'only {n} _get_progress_callbacks uses')
    f = ctx.func('upload.UploadInputManager._get_close_callbacks')
    rets = [x.value for x in own_nodes(f.node) if isinstance(x, ast.Return)]
    bl = q.built_list(f, rets[0].id) if len(rets) == 1 and isinstance(rets[0], ast.Name) else None
    ok = bl is not None and norm(bl[0].iter) == f.params[1] and not bl[2] and isinstance(bl[1], ast.Attribute) and bl[1].attr == 'flush' \
        and norm(bl[1].value) == norm(bl[0].target)
    ctx.ob(f, 'close callbacks = [callback.flush for callback in aggregated_progress_callbacks]', ok, f'{[norm(r) for r in rets]}')
    f = ctx.func('upload.UploadInputManager._get_progress_callbacks')
    rets = [x for x in own_nodes(f.node) if isinstance(x, ast.Return)]
    cbn = q.names_defined_by(f, lambda v: norm(v) == "get_callbacks(transfer_future, 'progress')")
    ok = len(cbn) == 1 and any(norm(x.value) == f'[AggregatedProgressCallback({cbn[0]})]' and q.guards_imply(q.guards(x), cbn[0]) for x in rets)
    ctx.ob(f, "AggregatedProgressCallback(get_callbacks(transfer_future, 'progress'))", ok, 'upload progress must go to the on_progress subscribers')
    a = ctx.cls('upload.AggregatedProgressCallback')
    call = a.methods['__call__']
    adds = [n for n in own_nodes(call.node) if isinstance(n, ast.AugAssign) and dotted(n.target) == 'self._bytes_seen' and isinstance(n.op, ast.Add) and norm(n.value) == call.params[1]]
    trig = [c for c in own_calls(call.node) if (dotted(c.func) or '') == 'self._trigger_callbacks']
    ok = len(adds) == 1 and not q.guards(adds[0]) and len(trig) == 1 and len(q.guards(trig[0])) == 1 and q.guards_imply(q.guards(trig[0]), 'self._bytes_seen >= self._threshold') \
        and q.equivalent(q.guards(trig[0])[0][0] if q.guards(trig[0])[0][1] else ast.UnaryOp(op=ast.Not(), operand=q.guards(trig[0])[0][0]), 'self._bytes_seen >= self._threshold')
    ctx.ob(call, '__call__: _bytes_seen += bytes_transferred; deliver at the threshold', ok, 'aggregation must add every amount (negative ones too)')
    fl = a.methods['flush']
    trig = [c for c in own_calls(fl.node) if (dotted(c.func) or '') == 'self._trigger_callbacks']
    gs_ = q.guards(trig[0]) if len(trig) == 1 else []
    gexp = (gs_[0][0] if gs_[0][1] else ast.UnaryOp(op=ast.Not(), operand=gs_[0][0])) if len(gs_) == 1 else None
    ok = gexp is not None and any(q.equivalent(gexp, w) for w in ('self._bytes_seen > 0', 'self._bytes_seen', 'self._bytes_seen != 0'))
    ctx.ob(fl, 'flush: deliver whatever is pending', ok, 'pending progress must be delivered on close')
    tr = a.methods['_trigger_callbacks']
    cs = [c for c, r in q.calls_in(ctx, tr) if r.kind == 'open']
    rs = [n for n in own_nodes(tr.node) if isinstance(n, ast.Assign) and dotted(n.targets[0]) == 'self._bytes_seen' and norm(n.value) == '0']
    g = ctx.cfg(tr)
    ok = len(cs) == 1 and norm(kwarg(cs[0], 'bytes_transferred')) == 'self._bytes_seen' and len(rs) == 1 and not q.in_loop(rs[0]) \
        and not (g.reach(g.nodes_of(rs[0]), labels=g.NORMAL) & set(g.nodes_of(cs[0])))
    ctx.ob(tr, '_trigger_callbacks: callback(bytes_transferred=self._bytes_seen) for all, then reset to 0', ok, 'delivered amount must be the aggregate, delivered once')
    f = ctx.func('utils.ReadFileChunk.close')
    cs = [c for c, r in q.calls_in(ctx, f) if r.kind == 'open']
    ok = len(cs) == 1 and isinstance(q.in_loop(cs[0]), ast.For) and norm(q.in_loop(cs[0]).iter) == 'self._close_callbacks'
    ctx.ob(f, 'close(): runs every close callback', ok, 'flushes would never run')
    cl_ = [c for c in own_calls(f.node) if (dotted(c.func) or '') == 'self._fileobj.close']
    ctx.ob(f, 'close(): closes the wrapped object unconditionally', len(cl_) == 1 and not q.guards(cl_[0]), 'the body must be closed')
    rfc = ctx.func('utils.OSUtils.open_file_chunk_reader_from_fileobj')
    cs = [c for c in own_calls(rfc.node) if norm(c.func) == 'ReadFileChunk']
    ok = len(cs) == 1 and norm(kwarg(cs[0], 'callbacks')) == 'callbacks' and norm(kwarg(cs[0], 'close_callbacks')) == 'close_callbacks'
    ctx.ob(rfc, 'ReadFileChunk(..., callbacks=callbacks, close_callbacks=close_callbacks)', ok, 'callbacks not handed to the body')


@rule('C09.g', ['C09', 'C13'], floor=2)
def the_transfer_signal_reaches_the_wrapped_body(ctx):
    """botocore wraps a body that gets a trailing checksum in AwsChunkedWrapper; the body
    whose callbacks (and bandwidth limiting) must be switched on at 'request-created' is
    the wrapped one.  signal_transferring unwraps exactly that class, through the attribute
    in which botocore's AwsChunkedWrapper.__init__ keeps the stream it was given (read from
    the installed botocore source, like the service model for C15), and signals the result
    when it has the method; otherwise no progress is ever reported for such uploads."""
    import importlib.util
    import os
    spec = importlib.util.find_spec('botocore')
    ctx.need(spec is not None and spec.submodule_search_locations, 'botocore is not installed: the wrapper attribute cannot be read')
    path = os.path.join(list(spec.submodule_search_locations)[0], 'httpchecksum.py')
    ctx.need(os.path.exists(path), 'botocore/httpchecksum.py not found')
    tree = ast.parse(open(path, encoding='utf-8').read())
    cls = [n for n in ast.walk(tree) if isinstance(n, ast.ClassDef) and n.name == 'AwsChunkedWrapper']
    ctx.need(len(cls) == 1, 'AwsChunkedWrapper not found in botocore.httpchecksum')
    init = [n for n in cls[0].body if isinstance(n, ast.FunctionDef) and n.name == '__init__']
    ctx.need(init and len(init[0].args.args) >= 2, 'AwsChunkedWrapper.__init__ not recognised')
    first = init[0].args.args[1].arg
    attrs = [t.attr for n in ast.walk(init[0]) if isinstance(n, ast.Assign) and isinstance(n.value, ast.Name) and n.value.id == first
             for t in n.targets if isinstance(t, ast.Attribute) and isinstance(t.value, ast.Name) and t.value.id == 'self']
    ctx.need(len(attrs) == 1, f'AwsChunkedWrapper.__init__ stores its stream in {attrs}')
    raw_attr = attrs[0]
    ctx.extra['AwsChunkedWrapper stream attribute'] = raw_attr
    f = ctx.func('utils.signal_transferring')
    sig = [c for c in own_calls(f.node) if isinstance(c.func, ast.Attribute) and c.func.attr == 'signal_transferring']
    ctx.need(len(sig) == 1, 'utils.signal_transferring no longer signals a body')
    recv = sig[0].func.value
    g = ctx.cfg(f)
    pv = q.path_values(g, f, g.nodes_of(sig[0]), [recv])
    ctx.need(pv, 'no path to the signal')
    seen_wrapped = seen_plain = False
    ok = True
    # locals that start out as the request body are read as `request.body` (body = request.body; if isinstance(body, ...): body = ...)
    import copy
    body_names = {st.targets[0].id for st, v in [(n, n.value) for n in own_nodes(f.node) if isinstance(n, ast.Assign) and len(n.targets) == 1 and isinstance(n.targets[0], ast.Name)]
                  if norm(v) == 'request.body'}

    def _rb(e):
        class T(ast.NodeTransformer):
            def visit_Name(self, node):
                if isinstance(node.ctx, ast.Load) and node.id in body_names:
                    return ast.parse('request.body', mode='eval').body
                return node
        return T().visit(copy.deepcopy(e)) if isinstance(e, ast.AST) else e
    for conds, vals, _ in pv:
        v = _rb(vals[0])
        conds = [(_rb(e), p_) for e, p_ in conds]
        t = norm(v) if isinstance(v, ast.AST) else ''
        wrapped = q.guards_imply(conds, 'isinstance(request.body, AwsChunkedWrapper)')
        plain = q.guards_imply(conds, 'not isinstance(request.body, AwsChunkedWrapper)')
        if wrapped:
            seen_wrapped = True
            ok = ok and t in (f"getattr(request.body, '{raw_attr}', None)", f'request.body.{raw_attr}', f"getattr(request.body, '{raw_attr}')")
        elif plain:
            seen_plain = True
            ok = ok and t == 'request.body'
        else:
            ok = False
    ctx.ob(f, f"a wrapped body is signalled through AwsChunkedWrapper's own attribute ({raw_attr}), a plain body directly", ok and seen_wrapped and seen_plain,
           'the body that reports progress is not reached: uploads whose body botocore wraps (trailing checksums - the default over https) report no progress at all')
    imp = ctx.p.modules['utils'].imports.get('AwsChunkedWrapper')
    ctx.ob('utils', 'AwsChunkedWrapper comes from botocore.httpchecksum', imp is not None and 'botocore.httpchecksum' in imp[0], f'{imp}')
