"""C17 - a transfer's state only moves forward and stays self-consistent."""
import ast
import itertools

from ..engine import rule
from ..ir import AnalysisError, ClassInfo, dotted, kwarg, norm, own_calls, own_nodes, short
from .. import q

STATE_ATTRS = ('_status', '_exception', '_result')
COORD = 'futures.TransferCoordinator'


def _stores(fnode):
    """(stmt, target Attribute, value expr) for attribute stores in a function."""
    for n in own_nodes(fnode):
        if isinstance(n, ast.Assign):
            for t in n.targets:
                for e in ([t] if not isinstance(t, (ast.Tuple, ast.List)) else t.elts):
                    if isinstance(e, ast.Attribute):
                        yield n, e, n.value
        elif isinstance(n, (ast.AugAssign, ast.AnnAssign)) and isinstance(n.target, ast.Attribute):
            yield n, n.target, getattr(n, 'value', None)
        elif isinstance(n, ast.Call) and isinstance(n.func, ast.Name) and n.func.id == 'setattr' and len(n.args) >= 3:
            if isinstance(n.args[1], ast.Constant) and n.args[1].value in STATE_ATTRS:
                fake = ast.Attribute(value=n.args[0], attr=n.args[1].value, ctx=ast.Store())
                yield n, fake, n.args[2]


def terminal_set(ctx):
    """The constants done() tests membership in."""
    f = ctx.func(f'{COORD}.done')
    rets = [n for n in own_nodes(f.node) if isinstance(n, ast.Return)]
    ctx.need(len(rets) == 1 and isinstance(rets[0].value, ast.Compare), 'done() is no longer a single membership test')
    cmp = rets[0].value
    ctx.need(len(cmp.ops) == 1 and isinstance(cmp.ops[0], ast.In) and norm(cmp.left) in ('self.status', 'self._status'),
             f'done() test not recognised: {norm(cmp)}')
    try:
        vals = q.const_eval(ctx, cmp.comparators[0], f.module)
    except q.NotConst as e:
        raise AnalysisError(f'done() compares against a non-constant: {e}')
    return set(vals), rets[0]


@rule('C17.a', ['C17'], floor=6)
def ownership(ctx):
    """_status/_exception/_result of TransferCoordinator are written only by its own
    methods, every write (outside __init__) inside `with self._lock`."""
    coord = ctx.cls(COORD)
    for f in ctx.p.all_functions():
        for st, tgt, val in _stores(f.node):
            if tgt.attr not in STATE_ATTRS:
                continue
            recv = tgt.value
            if isinstance(recv, ast.Name) and recv.id == 'self':
                if f.cls is None or not f.cls.is_subclass_of(coord):
                    continue  # another class's own attribute of the same name
                if f.name == '__init__':
                    ctx.ob(f, st, True, 'initial state', trivial=True)
                    continue
                held = q.locks_held(st)
                ctx.ob(f, st, 'self._lock' in held, f'store to {tgt.attr} outside `with self._lock` (held: {held})')
            else:
                ts = ctx.r.type_of(recv, f)
                is_coord = any(isinstance(t, ClassInfo) and t.is_subclass_of(coord) for t in ts)
                if is_coord or not ts:
                    if not ts and not (f.module.name in ('futures', 'tasks', 'manager', 'upload', 'download', 'copies', 'delete')):
                        continue
                    ctx.ob(f, st, False, f'{norm(recv)}.{tgt.attr} is written outside TransferCoordinator (receiver type: {"coordinator" if is_coord else "unknown"})')


@rule('C17.b', ['C17', 'C07', 'C05', 'C03', 'C08'], floor=6)
def guarded_stores(ctx):
    """Non-done status stores only behind `if self.done(): raise`; 'cancelled' and the
    set_exception stores are control dependent on not done() (or override); done() is
    exactly membership in the terminal constants; the user-level set_exception raises
    unless done() before overriding; override=True has no other caller."""
    # done() itself: one read of the status, tested for membership in the terminal constants.  A done() assembled from several
    # fields (status == 'success' or an exception is stored, ...) is not atomic against the writers, which update those fields one
    # after the other under the lock: a lock-free reader can see done() go back to False while a result replaces an exception
    df = ctx.func(f'{COORD}.done')
    drets = [n for n in own_nodes(df.node) if isinstance(n, ast.Return)]
    shape = len(drets) == 1 and isinstance(drets[0].value, ast.Compare) and len(drets[0].value.ops) == 1 and isinstance(drets[0].value.ops[0], ast.In) \
        and norm(drets[0].value.left) in ('self.status', 'self._status')
    ctx.ob(df, 'done() is one membership test on the status', shape,
           f'found {[norm(r.value) for r in drets]}: done() must be decided by the single status field (once True it can only stay True because no terminal status is ever left)')
    if not shape:
        return
    terminal, ret = terminal_set(ctx)
    f_done = ctx.func(f'{COORD}.done')
    ctx.ob(f_done, ret, terminal == {'failed', 'cancelled', 'success'},
           f'done() must be membership in exactly failed/cancelled/success, found {sorted(terminal)}')
    coord = ctx.cls(COORD)
    for name, f in coord.methods.items():
        if f.name == '__init__':
            continue
        for st, tgt, val in _stores(f.node):
            if not (isinstance(tgt.value, ast.Name) and tgt.value.id == 'self') or tgt.attr != '_status':
                continue
            g = q.guard_texts(st)
            gs = q.guards_under_lock(st, 'self._lock')
            if isinstance(val, ast.Constant) and val.value == 'success':
                ctx.ob(f, st, f.name == 'set_result', "only set_result may store 'success'")
            elif isinstance(val, ast.Constant) and val.value in terminal:
                want = 'not self.done() or override' if (f.name == 'set_exception' and 'override' in f.params) else 'not self.done()'
                ok = q.guards_imply(gs, want)
                ctx.ob(f, st, ok, f"store of terminal status {val.value!r} must be guarded by `{want}` (guards={g})")
            else:
                ok = q.guards_imply(gs, 'not self.done()')
                ctx.ob(f, st, ok, f'store of a non-done status must be refused when done() (guards={g})')
                if not isinstance(val, ast.Constant):
                    # every caller passes a non-terminal constant
                    for cf, c, r in q.callers_of(ctx, f.qualname):
                        b = q.bind_args(ctx, c, cf, f) or {}
                        a = b.get(val.id) if isinstance(val, ast.Name) else None
                        okc = isinstance(a, ast.Constant) and isinstance(a.value, str) and a.value not in terminal
                        ctx.ob(cf, c, okc, f'{f.name} must be called with a non-terminal status constant')
    # user-level set_exception
    f = ctx.func('futures.TransferFuture.set_exception')
    calls = [(c, r) for c, r in q.calls_in(ctx, f) if r.kind == 'package' and any(t.qualname == f'{COORD}.set_exception' for t in r.targets)]
    ctx.need(calls, 'TransferFuture.set_exception no longer calls the coordinator')
    for c, r in calls:
        g = q.guard_texts(c)
        ctx.ob(f, c, q.guards_imply(q.guards(c), 'self.done()'), f'user set_exception must raise unless done() before overriding (guards={g})')
    # who passes override=True
    target = ctx.func(f'{COORD}.set_exception')
    for cf, c, r in q.callers_of(ctx, target.qualname):
        b = q.bind_args(ctx, c, cf, target) or {}
        ov = b.get('override')
        if ov is not None and not (isinstance(ov, ast.Constant) and ov.value is False):
            ok = cf.qualname in ('futures.TransferFuture.set_exception',)
            ctx.ob(cf, c, ok, 'only TransferFuture.set_exception (after its done() check) may override a finished state')
        else:
            ctx.ob(cf, c, True, 'no override')


@rule('C17.c', ['C17', 'C05', 'C03'], floor=3)
def status_and_exception_move_together(ctx):
    """Every block that stores a terminal status also stores _exception in the same
    lock region: an exception object for failed/cancelled, None for success."""
    terminal, _ = terminal_set(ctx)
    coord = ctx.cls(COORD)
    for name, f in coord.methods.items():
        if f.name == '__init__':
            continue
        for st, tgt, val in _stores(f.node):
            if tgt.attr != '_status' or not (isinstance(val, ast.Constant) and val.value in terminal):
                continue
            region = _lock_region(st)
            ctx.need(region is not None, f'terminal status store outside a lock region in {f.qualname}')
            exc_stores = [(s2, v2) for s2, t2, v2 in _stores(f.node) if t2.attr == '_exception' and _lock_region(s2) is region]
            # same guard context
            exc_stores = [(s2, v2) for s2, v2 in exc_stores if q.guard_texts(s2) == q.guard_texts(st) or not q.guard_texts(s2)]
            # exception safety: nothing that can raise between the first and the last state store of the transition
            blk_stores = sorted([s2 for s2, t2, v2 in _stores(f.node) if t2.attr in STATE_ATTRS and _lock_region(s2) is region
                                 and (q.guard_texts(s2) == q.guard_texts(st))], key=lambda n: n._pos)
            if len(blk_stores) >= 2:
                first, last = blk_stores[0], blk_stores[-1]
                risky = []
                for n2 in ast.walk(region):
                    if isinstance(n2, ast.stmt) and first._pos < n2._pos <= last._pos and n2 is not first:
                        for c2 in ast.walk(n2):
                            if isinstance(c2, ast.Call) and not (dotted(c2.func) or '').startswith('logger.') and (dotted(c2.func) or '') != 'self.done':
                                risky.append(c2)
                ctx.ob(f, f'{f.name}: state stores {[norm(x.targets[0]) for x in blk_stores]} with nothing that can raise in between', not risky,
                       'a call that raises between the stores leaves status and exception inconsistent (e.g. cancelled without an exception: result() returns None): '
                       + ', '.join(short(c2, 40) for c2 in risky[:2]))
            if val.value == 'success':
                ok = any(isinstance(v2, ast.Constant) and v2.value is None for _, v2 in exc_stores)
                ctx.ob(f, st, ok, "storing 'success' must clear _exception in the same lock region")
            else:
                ok = any(not (isinstance(v2, ast.Constant) and v2.value is None) for _, v2 in exc_stores)
                ctx.ob(f, st, ok, f'storing {val.value!r} must store the exception in the same lock region under the same guard')


def _lock_region(node):
    from ..ir import ancestors
    for p in ancestors(node):
        if isinstance(p, ast.With) and any(q.is_lock_expr(it.context_expr) for it in p.items):
            return p
        if isinstance(p, (ast.FunctionDef, ast.Lambda)):
            return None
    return None


@rule('C17.e', ['C17'], floor=2)
def forward_only_callers(ctx):
    """The two non-done transitions are requested only by SubmissionTask._main, queued
    before running, neither in a loop (so the status never moves backwards)."""
    fq = ctx.func(f'{COORD}.set_status_to_queued')
    fr = ctx.func(f'{COORD}.set_status_to_running')
    cq = q.callers_of(ctx, fq.qualname)
    cr = q.callers_of(ctx, fr.qualname)
    for cf, c, r in cq + cr:
        ctx.ob(cf, c, cf.qualname == 'tasks.SubmissionTask._main' and q.in_loop(c) is None,
               'status transitions may only be requested once, by SubmissionTask._main')
    main = ctx.func('tasks.SubmissionTask._main')
    g = ctx.cfg(main)
    qn = [n for cf, c, r in cq if cf is main for n in g.nodes_of(c)]
    rn = [n for cf, c, r in cr if cf is main for n in g.nodes_of(c)]
    ctx.ob(main, 'set_status_to_queued() before set_status_to_running()', bool(qn and rn) and g.all_dominate(qn, rn, labels=g.NORMAL),
           'queued must precede running on every path')


# ---------------------------------------------------------------------------
# C17.d - extracted transition table
# ---------------------------------------------------------------------------

class _Unsupported(Exception):
    pass


class _Raise(Exception):
    pass


class _Return(Exception):
    pass


def _eval(expr, env, st, terminal):
    if isinstance(expr, ast.Constant):
        return expr.value
    if isinstance(expr, ast.Name):
        if expr.id in env:
            return env[expr.id]
        raise _Unsupported(f'name {expr.id}')
    if isinstance(expr, ast.UnaryOp) and isinstance(expr.op, ast.Not):
        return not _eval(expr.operand, env, st, terminal)
    if isinstance(expr, ast.BoolOp):
        vals = [_eval(v, env, st, terminal) for v in expr.values]
        return any(vals) if isinstance(expr.op, ast.Or) else all(vals)
    if isinstance(expr, ast.Call):
        d = dotted(expr.func)
        if d == 'self.done' and not expr.args:
            return st['status'] in terminal
        if isinstance(expr.func, ast.Name) and expr.func.id in env and env[expr.func.id] == '<exc_type>':
            return '<exc>'
        raise _Unsupported(f'call {norm(expr)}')
    if isinstance(expr, ast.Attribute):
        d = dotted(expr)
        if d in ('self._status', 'self.status'):
            return st['status']
        if d in ('self._exception', 'self.exception'):
            return st['exc']
        raise _Unsupported(f'attribute {d}')
    if isinstance(expr, ast.Compare) and len(expr.ops) == 1:
        a = _eval(expr.left, env, st, terminal)
        b = _eval(expr.comparators[0], env, st, terminal)
        op = expr.ops[0]
        if isinstance(op, ast.Eq):
            return a == b
        if isinstance(op, ast.NotEq):
            return a != b
        if isinstance(op, ast.In):
            return a in b
        if isinstance(op, ast.NotIn):
            return a not in b
        if isinstance(op, ast.Is):
            return a is b
        if isinstance(op, ast.IsNot):
            return a is not b
    if isinstance(expr, (ast.List, ast.Tuple)):
        return [_eval(e, env, st, terminal) for e in expr.elts]
    if isinstance(expr, ast.JoinedStr):
        return '<str>'
    raise _Unsupported(type(expr).__name__)


def _exec(stmts, env, st, terminal, prog, depth=0):
    for s in stmts:
        if isinstance(s, ast.Expr):
            v = s.value
            if isinstance(v, ast.Constant):
                continue
            if isinstance(v, ast.Call):
                d = dotted(v.func) or ''
                if d.startswith('logger.'):
                    continue
                if d.startswith('self.') and d.count('.') == 1:
                    m = prog.classes[COORD].lookup(d[5:])
                    if m is not None and m.name in ('announce_done',):
                        st['announced'] = True
                        continue
                    if m is not None and depth < 3:
                        # inline a private helper (e.g. _transition_to_non_done_state)
                        b = {}
                        params = m.params[1:]
                        for i, a in enumerate(v.args):
                            b[params[i]] = _eval(a, env, st, terminal)
                        for k in v.keywords:
                            b[k.arg] = _eval(k.value, env, st, terminal)
                        for pn, dv in m.defaults_map().items():
                            if pn not in b:
                                b[pn] = _eval(dv, {}, st, terminal)
                        try:
                            _exec(m.node.body, b, st, terminal, prog, depth + 1)
                        except _Return:
                            pass
                        continue
                raise _Unsupported(f'call statement {norm(v)}')
            raise _Unsupported(f'expression statement {norm(v)}')
        elif isinstance(s, ast.With):
            if not all(q.is_lock_expr(it.context_expr) for it in s.items):
                raise _Unsupported(f'with {norm(s.items[0].context_expr)}')
            _exec(s.body, env, st, terminal, prog, depth)
        elif isinstance(s, ast.If):
            if _eval(s.test, env, st, terminal):
                _exec(s.body, env, st, terminal, prog, depth)
            else:
                _exec(s.orelse, env, st, terminal, prog, depth)
        elif isinstance(s, ast.Assign) and len(s.targets) == 1:
            t = s.targets[0]
            d = dotted(t)
            if d == 'self._status':
                st['status'] = _eval(s.value, env, st, terminal)
            elif d == 'self._exception':
                v = _eval(s.value, env, st, terminal)
                st['exc'] = None if v is None else '<exc>'
            elif d == 'self._result':
                st['result'] = '<result>'
            elif isinstance(t, ast.Name):
                env[t.id] = _eval(s.value, env, st, terminal)
            else:
                raise _Unsupported(f'assignment to {norm(t)}')
        elif isinstance(s, ast.Raise):
            raise _Raise()
        elif isinstance(s, ast.Return):
            raise _Return()
        elif isinstance(s, ast.Pass):
            continue
        else:
            raise _Unsupported(type(s).__name__)


@rule('C17.d', ['C17'], floor=60)
def transition_table(ctx):
    """Transfer function of each coordinator mutator read off its guards and constant
    stores over {6 statuses} x {exception unset/set} x arguments; every transition is
    enumerated: no edge from a terminal to a non-terminal status; from a terminal
    state only set_result and set_exception(override=True) change anything; exception
    set <=> status in {failed, cancelled} in every reachable state."""
    terminal, _ = terminal_set(ctx)
    coord = ctx.cls(COORD)
    init = coord.methods.get('__init__')
    ctx.need(init is not None, 'TransferCoordinator.__init__ vanished')
    st0 = {'status': None, 'exc': 'unset?', 'result': None}
    for s, tgt, val in _stores(init.node):
        if tgt.attr == '_status':
            st0['status'] = q.const_eval(ctx, val, init.module)
        elif tgt.attr == '_exception':
            st0['exc'] = None if isinstance(val, ast.Constant) and val.value is None else '<exc>'
    ctx.ob(init, "initial state ('not-started', no exception)", st0['status'] == 'not-started' and st0['exc'] is None,
           f'initial state is {st0}')
    statuses = ['not-started', 'queued', 'running'] + sorted(terminal)
    muts = [
        ('set_result', [{'result': '<r>'}]),
        ('set_exception', [{'exception': '<exc>', 'override': False}, {'exception': '<exc>', 'override': True}]),
        ('cancel', [{'msg': '', 'exc_type': '<exc_type>'}]),
        ('set_status_to_queued', [{}]),
        ('set_status_to_running', [{}]),
    ]
    table = []
    n_unsupported = 0
    for status, exc in itertools.product(statuses, [None, '<exc>']):
        for mname, argsets in muts:
            m = coord.lookup(mname)
            ctx.need(m is not None, f'mutator {mname} vanished')
            for args in argsets:
                st = {'status': status, 'exc': exc, 'result': None, 'announced': False}
                env = dict(args)
                raised = False
                try:
                    _exec(m.node.body, env, st, terminal, ctx.p)
                except _Raise:
                    raised = True
                except _Return:
                    pass
                except _Unsupported as e:
                    raise AnalysisError(f'mutator {mname}: statement form not supported by the extractor: {e}')
                table.append(((status, exc), mname, args, (st['status'], st['exc']), raised, st['announced']))
    ctx.extra['transition_table_size'] = len(table)
    # reachable closure from the initial state; user-level set_exception(override) only from done states
    reach = {(st0['status'], st0['exc'])}
    frontier = list(reach)
    while frontier:
        s = frontier.pop()
        for (src, mname, args, dst, raised, ann) in table:
            if src != s:
                continue
            if mname == 'set_exception' and args.get('override') and s[0] not in terminal:
                continue  # guarded by TransferFuture.set_exception (C17.b)
            if dst not in reach:
                reach.add(dst)
                frontier.append(dst)
    ctx.extra['reachable_states'] = sorted(map(str, reach))
    for (src, mname, args, dst, raised, ann) in table:
        label = f'{mname}({", ".join(f"{k}={v}" for k, v in args.items() if k in ("override",))}) from {src}'
        if src not in reach:
            ctx.ob(f'{COORD}.{mname}', label, True, 'unreachable source state', trivial=True)
            continue
        if mname == 'set_exception' and args.get('override') and src[0] not in terminal:
            ctx.ob(f'{COORD}.{mname}', label, True, 'excluded by the done() check of TransferFuture.set_exception', trivial=True)
            continue
        ok = True
        why = []
        if src[0] in terminal and dst[0] not in terminal:
            ok = False
            why.append(f'terminal {src[0]} -> non-terminal {dst[0]}')
        if src[0] in terminal and dst != src and not (mname == 'set_result' or (mname == 'set_exception' and args.get('override'))):
            ok = False
            why.append(f'finished state {src} changed to {dst}')
        if (dst[1] is not None) != (dst[0] in ('failed', 'cancelled')):
            ok = False
            why.append(f'state {dst}: exception stored iff status failed/cancelled is broken')
        if mname == 'cancel' and src[0] not in terminal and dst != ('cancelled', '<exc>'):
            ok = False
            why.append(f'cancel of an unfinished transfer must record cancellation, got {dst}')
        if mname == 'cancel' and src[0] == 'not-started' and not ann:
            ok = False
            why.append('cancel of a not-started transfer must announce done (nobody else will)')
        if mname == 'cancel' and src[0] in ('queued', 'running') and ann:
            ok = False
            why.append('cancel of a started transfer must not announce done (the final task / submission error path does)')
        if mname == 'set_exception' and not args.get('override') and src[0] not in terminal and dst != ('failed', '<exc>'):
            ok = False
            why.append(f'first failure must be recorded, got {dst}')
        if mname in ('set_status_to_queued', 'set_status_to_running') and src[0] in terminal and not raised:
            ok = False
            why.append('restarting a finished transfer must raise')
        if mname == 'set_result' and dst != ('success', None):
            ok = False
            why.append(f'set_result must yield (success, no exception), got {dst}')
        ctx.ob(f'{COORD}.{mname}', label, ok, '; '.join(why) or f'-> {dst}{" raises" if raised else ""}')
