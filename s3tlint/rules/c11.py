"""C11 - in-memory buffering stays within the documented bounds."""
import ast

from ..engine import rule
from ..ir import ClassInfo, ancestors, dotted, kwarg, norm, own_calls, own_nodes, short
from .. import q


def reach_methods(ctx, cls, start, depth=6):
    """Methods reached from cls.<start> through self.x() calls, dispatched on cls's MRO."""
    seen = []
    stack = [start]
    while stack:
        name = stack.pop()
        m = cls.lookup(name)
        if m is None or m in seen:
            continue
        seen.append(m)
        for c in own_calls(m.node):
            if isinstance(c.func, ast.Attribute) and isinstance(c.func.value, ast.Name) and c.func.value.id == 'self':
                stack.append(c.func.attr)
    return seen


def returns_true_for(ctx, m, op):
    """Can stores_body_in_memory(op) return True?  Evaluates the tiny body."""
    def ev(stmts):
        for s in stmts:
            if isinstance(s, ast.Return):
                return [s.value]
            if isinstance(s, ast.If):
                t = s.test
                neg = False
                while isinstance(t, ast.UnaryOp) and isinstance(t.op, ast.Not):
                    t, neg = t.operand, not neg
                val = None
                if isinstance(t, ast.Compare) and len(t.ops) == 1 and isinstance(t.left, ast.Name) and t.left.id == m.params[1] \
                        and isinstance(t.comparators[0], ast.Constant):
                    eq = t.comparators[0].value == op
                    val = eq if isinstance(t.ops[0], ast.Eq) else (not eq if isinstance(t.ops[0], ast.NotEq) else None)
                    if val is not None and neg:
                        val = not val
                if val is True:
                    r = ev(s.body)
                elif val is False:
                    r = ev(s.orelse)
                else:
                    r = (ev(s.body) or []) + (ev(s.orelse) or [])
                if r:
                    return r
            elif isinstance(s, (ast.Expr, ast.Pass)):
                continue
            elif isinstance(s, ast.Raise):
                return ['<raise>']
            else:
                return ['<unknown>']
        return []
    def value(v):
        """constant / [not] (param ==|!= 'const') evaluated for this op"""
        if isinstance(v, ast.Constant):
            return v.value
        if isinstance(v, ast.UnaryOp) and isinstance(v.op, ast.Not):
            x = value(v.operand)
            return (not x) if isinstance(x, bool) else '?'
        if isinstance(v, ast.Compare) and len(v.ops) == 1 and isinstance(v.left, ast.Name) and v.left.id == m.params[1] \
                and isinstance(v.comparators[0], ast.Constant) and isinstance(v.ops[0], (ast.Eq, ast.NotEq)):
            eq = v.comparators[0].value == op
            return eq if isinstance(v.ops[0], ast.Eq) else not eq
        return '?'
    vals = ev(m.node.body)
    out = set()
    for v in vals:
        out.add(value(v) if isinstance(v, ast.AST) else '?')
    return out


@rule('C11.a', ['C11', 'C10'], floor=8)
def in_memory_bodies_are_tagged(ctx):
    """Sibling cross-check over the UploadInputManager hierarchy: if the body factory of
    a manager for put_object / upload_part (resolved through its MRO) builds an in-memory
    buffer (BytesIO), stores_body_in_memory(op) returns True for that op; both body
    submissions of UploadSubmissionTask pass tag=_get_upload_task_tag(manager, <the same
    op>), which returns IN_MEMORY_UPLOAD_TAG exactly under stores_body_in_memory(op)."""
    base = ctx.cls('upload.UploadInputManager')
    factories = {'put_object': 'get_put_object_body', 'upload_part': 'yield_upload_part_bodies'}
    concrete = [c for c in base.all_subclasses()]
    ctx.need(len(concrete) >= 3, 'fewer than 3 upload input managers')
    for cl in concrete:
        for op, fac in factories.items():
            ms = reach_methods(ctx, cl, fac)
            in_mem = [c for m in ms for c in own_calls(m.node) if norm(c.func) in ('BytesIO', 'io.BytesIO')]
            sm = cl.lookup('stores_body_in_memory')
            ctx.need(sm is not None, 'stores_body_in_memory vanished')
            vals = returns_true_for(ctx, sm, op)
            if in_mem:
                ctx.ob(cl.qualname, f'{cl.name}.{fac} buffers in memory => stores_body_in_memory({op!r}) is True', vals == {True},
                       f'{cl.name} builds {short(in_mem[0], 40)} for {op} but stores_body_in_memory({op!r}) returns {sorted(map(str, vals))}: '
                       'the part task escapes max_in_memory_upload_chunks')
            else:
                ctx.ob(cl.qualname, f'{cl.name}.{fac} streams from the source; stores_body_in_memory({op!r}) = {sorted(map(str, vals))}',
                       '?' not in vals and '<unknown>' not in vals, 'tag decision could not be evaluated', trivial=True)
    t = ctx.func('upload.UploadSubmissionTask._get_upload_task_tag')
    rets = [n for n in own_nodes(t.node) if isinstance(n, ast.Return)]
    tagn = (q.returned_names(t) or ['tag'])[0]
    tags = [(st, v) for st, v in q.local_defs(t, tagn) if isinstance(v, ast.AST)]
    # per path to a return: the value returned is the tag exactly when stores_body_in_memory(op) held on the path
    gt = ctx.cfg(t)
    cond = f'{t.params[1]}.stores_body_in_memory({t.params[2]})'
    seen_tag = seen_none = False
    ok = bool(rets)
    found = []
    for r in rets:
        pv = q.path_values(gt, t, gt.nodes_of(r), [r.value if r.value is not None else ast.Constant(value=None)])
        if pv is None:
            ok = False
            continue
        for conds, (val,), _ in pv:
            found.append((norm(val), [(norm(e), p) for e, p in conds]))
            if norm(val) == 'IN_MEMORY_UPLOAD_TAG':
                seen_tag = True
                ok = ok and q.guards_imply(conds, cond)
            elif norm(val) == 'None':
                seen_none = True
                ok = ok and q.guards_imply(conds, f'not {cond}')
            else:
                ok = False
    ctx.ob(t, 'tag = IN_MEMORY_UPLOAD_TAG iff stores_body_in_memory(operation_name)', ok and seen_tag and seen_none, f'tag selection not recognised: {found[:4]}')
    for fname, op, fac in (('_submit_upload_request', 'put_object', 'get_put_object_body'), ('_submit_multipart_request', 'upload_part', 'yield_upload_part_bodies')):
        f = ctx.func(f'upload.UploadSubmissionTask.{fname}')
        subs = [s for s in q.submits(ctx) if s.func is f]
        body_subs = []
        for s in subs:
            for cl, ctor, _ in s.task_ctors:
                if cl is not None and cl.name in ('PutObjectTask', 'UploadPartTask'):
                    body_subs.append((s, cl, ctor))
        ctx.ob(f, f'{fname}: body task submission found', bool(body_subs), 'no body-carrying task is submitted')
        for s, cl, ctor in body_subs:
            tag = s.tag
            ok = isinstance(tag, ast.Name) and any(
                isinstance(v, ast.Call) and (dotted(v.func) or '').endswith('_get_upload_task_tag') and len(v.args) == 2
                and isinstance(v.args[1], ast.Constant) and v.args[1].value == op and norm(v.args[0]) == 'upload_input_manager'
                for _, v in q.local_defs(f, tag.id))
            ctx.ob(f, f'{cl.name} submitted with tag=_get_upload_task_tag(upload_input_manager, {op!r})', ok,
                   f'the body task must carry the in-memory tag decided for {op} (tag={norm(tag)})')
            uses = any((dotted(c.func) or '').endswith(fac) for c in own_calls(f.node))
            ctx.ob(f, f'{fname} takes its bodies from {fac}', uses, 'body factory and tag operation must correspond')


@rule('C11.b', ['C11', 'C10'], floor=4)
def streaming_downloads_are_tagged(ctx):
    """Every output manager whose write path goes through a DeferQueue returns
    IN_MEMORY_DOWNLOAD_TAG from get_download_task_tag; both GetObjectTask submissions
    pass tag=download_output_manager.get_download_task_tag()."""
    base = ctx.cls('download.DownloadOutputManager')
    for cl in [base] + base.all_subclasses():
        ms = reach_methods(ctx, cl, 'queue_file_io_task')
        deferred = any((dotted(c.func) or '').endswith('_defer_queue.request_writes') for m in ms for c in own_calls(m.node))
        streaming = any(t[0] is not None and t[0].name == 'IOStreamingWriteTask' for m in reach_methods(ctx, cl, 'get_io_write_task')
                        for n in own_nodes(m.node) if isinstance(n, ast.Return) and n.value is not None for t in q.task_ctors_of(ctx, n.value, m))
        tagm = cl.lookup('get_download_task_tag')
        rets = [norm(n.value) for n in own_nodes(tagm.node) if isinstance(n, ast.Return)]
        if deferred or streaming:
            ctx.ob(cl.qualname, f'{cl.name}: withholds out-of-order data => get_download_task_tag() == IN_MEMORY_DOWNLOAD_TAG', rets == ['IN_MEMORY_DOWNLOAD_TAG'],
                   f'returns {rets}: ranged requests would run arbitrarily far ahead of the lowest unfinished part')
        else:
            ctx.ob(cl.qualname, f'{cl.name}: offset-addressed writes, tag {rets}', True, '', trivial=True)
    n = 0
    for s in q.submits(ctx):
        for cl, ctor, _ in s.task_ctors:
            if cl is not None and cl.is_subclass_of(ctx.cls('download.GetObjectTask')):
                n += 1
                tag = s.tag
                ok = tag is not None and q.derives_from(s.func, tag, lambda x: isinstance(x, ast.Call) and (dotted(x.func) or '').endswith('download_output_manager.get_download_task_tag'))
                ctx.ob(s.func, f'{cl.name} submitted with tag=download_output_manager.get_download_task_tag()', ok, f'tag={norm(tag)}')
    ctx.need(n >= 2, f'{n} GetObjectTask submissions found')


@rule('C11.e', ['C11'], floor=4)
def buffers_bounded_by_amount(ctx):
    """In UploadNonSeekableInputManager._read and UploadSeekableInputManager.
    _get_upload_part_fileobj_with_full_size every fileobj.read(X) has X derived from the
    amount / part_size asked for; the callers pass config.multipart_threshold or the
    adjusted chunk size; the DeferQueue has a single producer behind tagged tasks."""
    f = ctx.func('upload.UploadNonSeekableInputManager._read')
    for c in own_calls(f.node):
        if isinstance(c.func, ast.Attribute) and c.func.attr == 'read' and norm(c.func.value) == 'fileobj':
            ok = len(c.args) == 1 and q.derives_from(f, c.args[0], lambda n: isinstance(n, ast.Name) and n.id == 'amount')
            ctx.ob(f, c, ok, 'a read without an amount derived from the requested amount buffers the whole stream')
    f = ctx.func('upload.UploadSeekableInputManager._get_upload_part_fileobj_with_full_size')
    for c in own_calls(f.node):
        if isinstance(c.func, ast.Attribute) and c.func.attr == 'read':
            ok = len(c.args) == 1 and 'part_size' in norm(c.args[0])
            ctx.ob(f, c, ok, 'the in-memory part must be limited to part_size')
    # callers of _read
    target = 'upload.UploadNonSeekableInputManager._read'
    for cf, c, r in q.callers_of(ctx, target):
        b = q.bind_args(ctx, c, cf, ctx.func(target)) or {}
        a = b.get('amount')
        ok = a is not None and (q.derives_from(cf, a, lambda n: isinstance(n, ast.Attribute) and n.attr == 'multipart_threshold') or
                                (isinstance(a, ast.Name) and a.id in cf.params))
        ctx.ob(cf, c, ok, f'_read must be asked for the threshold or the chunk size, got {norm(a)}')
    # part_size passed to the seekable reader is the chunksize
    y = ctx.func('upload.UploadFilenameInputManager.yield_upload_part_bodies')
    for c in own_calls(y.node):
        if (dotted(c.func) or '').endswith('_get_upload_part_fileobj_with_full_size'):
            ps = kwarg(c, 'part_size')
            ctx.ob(y, c, ps is not None and norm(ps) == y.params[2], f'part_size must be the chunk size, got {norm(ps)}')
    # DeferQueue single producer
    for cf, c, r in q.callers_of(ctx, 'download.DeferQueue.request_writes'):
        ctx.ob(cf, c, cf.cls is not None and cf.cls.qualname == 'download.DownloadNonSeekableOutputManager'
               and cf.name in ('queue_file_io_task', 'get_io_write_tasks'),
               'the defer queue may only be fed by the non-seekable manager (behind tagged GetObjectTasks)')
    # chunksize handed to the part iterator is the adjusted one
    sm = ctx.func('upload.UploadSubmissionTask._submit_multipart_request')
    for c in own_calls(sm.node):
        if (dotted(c.func) or '').endswith('yield_upload_part_bodies'):
            a = c.args[1] if len(c.args) > 1 else kwarg(c, 'chunksize')
            ok = a is not None and q.derives_from(sm, a, lambda n: isinstance(n, ast.Call) and (dotted(n.func) or '').endswith('adjust_chunksize'))
            ctx.ob(sm, c, ok, 'part bodies must be cut with the adjusted chunk size')


@rule('C11.f', ['C11', 'C01'], floor=1)
def countdown_reads_ask_for_what_remains(ctx):
    """Contradiction rule: a loop that counts a remaining amount down by the length of what it just read
    (`remaining -= len(chunk)`) must ask the stream for at most that remaining amount
    (`read(remaining)` / `read(min(remaining, ..))`).  Asking for anything else overshoots after a short
    read: the buffer grows beyond the requested (part / chunk) size."""
    n = 0
    for f in ctx.p.all_functions():
        for loop in [x for x in own_nodes(f.node) if isinstance(x, (ast.While, ast.For))]:
            decs = [x for x in ast.walk(loop) if isinstance(x, ast.AugAssign) and isinstance(x.op, ast.Sub) and isinstance(x.target, ast.Name)
                    and isinstance(x.value, ast.Call) and norm(x.value.func) == 'len' and x.value.args and isinstance(x.value.args[0], ast.Name)]
            for d in decs:
                rem, chunk = d.target.id, d.value.args[0].id
                reads = [v for st, v in q.local_defs(f, chunk) if isinstance(v, ast.Call) and isinstance(v.func, ast.Attribute) and v.func.attr == 'read'
                         and any(a is loop for a in ancestors(v))]
                for rd in reads:
                    n += 1
                    ok = bool(rd.args) and rem in q.names_in(rd.args[0])
                    ctx.ob(f, rd, ok, f'the loop counts {rem} down by len({chunk}) but reads {norm(rd.args[0]) if rd.args else "everything"}: after a short read it takes more than was asked for')
    ctx.ob('<package>', 'count-down read loops ask for the remaining amount', True, f'{n} such loops', trivial=True)


@rule('C11.g', ['C11'], floor=2)
def legacy_io_queue_is_bounded(ctx):
    """The legacy ranged downloader hands chunks to its single IO thread through
    ShutdownQueue(config.max_io_queue); the subclass forwards the size to queue.Queue
    (through the _init hook, or through __init__ if it defines one), so put() blocks the
    fetchers when max_io_queue chunks are pending."""
    cl = ctx.cls('__init__.ShutdownQueue')
    init = cl.methods.get('__init__')
    hook = cl.methods.get('_init')
    ok = True
    if init is not None:
        p_ = init.params[1] if len(init.params) > 1 else None
        sup = [c for c in own_calls(init.node) if norm(c.func) in ('super().__init__', 'queue.Queue.__init__', 'Queue.__init__')]
        ok = p_ is not None and len(sup) == 1 and any(norm(a) == p_ for a in list(sup[0].args) + [k.value for k in sup[0].keywords])
        ctx.ob(init, 'ShutdownQueue.__init__ forwards maxsize to queue.Queue', ok, 'the queue is created unbounded: put() never blocks and every fetched chunk is kept in memory')
    if hook is not None:
        p_ = hook.params[1] if len(hook.params) > 1 else None
        sup = [c for c in own_calls(hook.node) if norm(c.func) in ('queue.Queue._init', 'super()._init', 'Queue._init')]
        okh = p_ is not None and len(sup) == 1 and any(norm(a) == p_ for a in sup[0].args)
        ctx.ob(hook, 'ShutdownQueue._init forwards maxsize to queue.Queue._init', okh, 'the underlying deque / size is not initialised with the bound')
    if init is None and hook is None:
        ctx.ob(cl.qualname, 'ShutdownQueue inherits the constructor of queue.Queue', True, '', trivial=True)
    d = ctx.func('__init__.MultipartDownloader.__init__')
    mk = [c for c in own_calls(d.node) if norm(c.func) == 'ShutdownQueue']
    a0 = q.argn(mk[0], 'maxsize', 0) if len(mk) == 1 else None
    ctx.ob(d, 'self._ioqueue = ShutdownQueue(config.max_io_queue)', a0 is not None and q.self_alias_text(d, a0) == 'self._config.max_io_queue',
           f'the IO queue must be bounded by max_io_queue, found {norm(a0) if a0 is not None else None}')
