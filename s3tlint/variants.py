def run_for(prop, program):
    return None
