"""Self-test of the checker: in-memory source variants of /repo.

Each variant is a textual edit located by a unique source fragment of the
*current* tree (never by line number), applied to an in-memory copy of the
sources - nothing is written to disk and the package is never executed.

kind 'seeded': a property-breaking edit; the listed rules must fire (exit 1).
kind 'twin'  : a behaviour-preserving refactor; no rule of the property may fire.

If the fragment is not found exactly once (the tree was edited there), the
variant is 'inapplicable' - reported, never an error.

Run all:  /venv/bin/python -m s3tlint.variants [--prop C17] [-j 16] [-v]
"""
import argparse
import glob
import importlib
import json
import os
import sys
import time

from . import engine
from .ir import AnalysisError, Program, read_sources

VARIANTS = []  # dicts: id, props, file, old, new, expect (rule ids), kind, why


def V(id, props, file, old, new, expect=(), kind='seeded', why='', count=1):
    VARIANTS.append({'id': id, 'props': list(props), 'file': 's3transfer/' + file, 'old': old, 'new': new,
                     'expect': list(expect), 'kind': kind, 'why': why, 'count': count})


def load_variant_files():
    if VARIANTS:
        return
    here = os.path.join(os.path.dirname(__file__), 'variantdefs')
    for fn in sorted(glob.glob(os.path.join(here, 'v_*.py'))):
        importlib.import_module(f's3tlint.variantdefs.{os.path.basename(fn)[:-3]}')


def apply_variant(sources, v):
    src = sources.get(v['file'])
    if src is None or src.count(v['old']) != v['count']:
        return None
    out = dict(sources)
    out[v['file']] = src.replace(v['old'], v['new'])
    return out


def run_one(v, sources, prop=None):
    """-> dict(status=ok|miss|false_alarm|inapplicable|broken, fired=[...])"""
    from . import rules
    rules.load_all()
    srcs = apply_variant(sources, v)
    if srcs is None:
        return {'id': v['id'], 'status': 'inapplicable', 'fired': []}
    try:
        compile(srcs[v['file']], v['file'], 'exec')
        prog = Program(srcs)
    except (SyntaxError, AnalysisError) as e:
        return {'id': v['id'], 'status': 'broken', 'fired': [], 'detail': f'variant does not compile: {e}'}
    fired = []
    errors = []
    if prop and v['kind'] == 'seeded' and v['expect']:
        mine = {r['id'] for r in engine.RULES if prop in r['props']}
        if not (set(v['expect']) & mine):
            return {'id': v['id'], 'status': 'skipped', 'fired': [], 'kind': v['kind']}
    for p in ([prop] if prop else v['props']):
        code, ctx, viol = engine.run_property(p, 'quick', program=prog, write=False, quiet=True)
        fired += [f'{p}:{o.rule}' for o in viol]
        if ctx is not None:
            errors += [f'{p}:{r}:{m}' for r, m in ctx.errors]
    fired_rules = {f.split(':')[1] for f in fired}
    if v['kind'] == 'seeded':
        want = set(v['expect'])
        if want and not (want & fired_rules):
            status = 'miss'
        elif not want and not fired:
            status = 'miss'
        else:
            status = 'ok'
    else:
        status = 'false_alarm' if fired else ('twin_error' if errors else 'ok')
    return {'id': v['id'], 'status': status, 'fired': sorted(set(fired)), 'errors': errors[:3], 'kind': v['kind']}


def run_for(prop, program, jobs=None):
    """Thorough-tier hook: run the variants of one property against the current tree."""
    load_variant_files()
    sources = {m.path: m.source for m in program.modules.values()}
    vs = [v for v in VARIANTS if prop in v['props']]
    if not vs:
        return {'variants': 0, 'misses': []}
    results = _run_many(vs, sources, prop, jobs)
    misses = [f"{r['id']}: {r['status']} fired={r['fired']} {r.get('detail', '')}" for r in results
              if r['status'] in ('miss', 'false_alarm', 'broken', 'twin_error')]
    return {'variants': len(vs), 'ok': sum(r['status'] == 'ok' for r in results),
            'inapplicable': [r['id'] for r in results if r['status'] == 'inapplicable'],
            'seeded_caught': sum(r['status'] == 'ok' and r.get('kind') == 'seeded' for r in results),
            'twins_silent': sum(r['status'] == 'ok' and r.get('kind') == 'twin' for r in results),
            'misses': misses}


def _worker(args):
    v, sources, prop = args
    try:
        return run_one(v, sources, prop)
    except Exception as e:  # pragma: no cover
        return {'id': v['id'], 'status': 'broken', 'fired': [], 'detail': f'{type(e).__name__}: {e}'}


def _run_many(vs, sources, prop=None, jobs=None):
    jobs = jobs or min(16, os.cpu_count() or 1)
    if jobs <= 1 or len(vs) < 4:
        return [_worker((v, sources, prop)) for v in vs]
    import multiprocessing as mp
    with mp.get_context('fork').Pool(jobs) as pool:
        return pool.map(_worker, [(v, sources, prop) for v in vs], chunksize=1)


def main(argv=None):
    ap = argparse.ArgumentParser()
    ap.add_argument('--prop')
    ap.add_argument('--id')
    ap.add_argument('-j', type=int, default=16)
    ap.add_argument('-v', action='store_true')
    ap.add_argument('--repo', default='/repo')
    a = ap.parse_args(argv)
    load_variant_files()
    sources = read_sources(a.repo)
    vs = [v for v in VARIANTS if (not a.prop or a.prop in v['props']) and (not a.id or v['id'] == a.id)]
    t = time.time()
    res = _run_many(vs, sources, a.prop, a.j)
    bad = 0
    for r in res:
        if r['status'] != 'ok' or a.v:
            print(f"{r['status']:13s} {r['id']:40s} fired={r['fired']} {r.get('detail', '')} {r.get('errors') or ''}")
        if r['status'] in ('miss', 'false_alarm', 'broken', 'twin_error'):
            bad += 1
    print(f'{len(res)} variants, {sum(r["status"] == "ok" for r in res)} ok, {bad} bad, '
          f'{sum(r["status"] == "inapplicable" for r in res)} inapplicable, {time.time() - t:.1f}s')
    return 1 if bad else 0


if __name__ == '__main__':
    from s3tlint import variants as _v
    sys.exit(_v.main())
