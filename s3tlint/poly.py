"""Polynomial normal form of straight-line integer expressions (+, -, * over symbols)."""
import ast

from .ir import norm


class NotPoly(Exception):
    pass


def poly(expr, env=None):
    """-> dict {tuple(sorted symbol names)): coefficient}; env: name -> ast expr to inline."""
    env = env or {}
    if isinstance(expr, str):
        expr = ast.parse(expr, mode='eval').body
    if isinstance(expr, ast.Constant) and isinstance(expr.value, int) and not isinstance(expr.value, bool):
        return {(): expr.value} if expr.value else {}
    if isinstance(expr, ast.Name):
        if expr.id in env:
            v = env[expr.id]
            return poly(v, {k: x for k, x in env.items() if k != expr.id}) if not isinstance(v, dict) else dict(v)
        return {(expr.id,): 1}
    if isinstance(expr, ast.Attribute):
        t = norm(expr)
        if t in env:
            v = env[t]
            return poly(v, {k: x for k, x in env.items() if k != t}) if not isinstance(v, dict) else dict(v)
        return {(t,): 1}
    if isinstance(expr, ast.UnaryOp) and isinstance(expr.op, ast.USub):
        return {k: -v for k, v in poly(expr.operand, env).items()}
    if isinstance(expr, ast.BinOp):
        a, b = poly(expr.left, env), poly(expr.right, env)
        if isinstance(expr.op, ast.Add):
            return _add(a, b)
        if isinstance(expr.op, ast.Sub):
            return _add(a, {k: -v for k, v in b.items()})
        if isinstance(expr.op, ast.Mult):
            out = {}
            for ka, va in a.items():
                for kb, vb in b.items():
                    k = tuple(sorted(ka + kb))
                    out[k] = out.get(k, 0) + va * vb
            return {k: v for k, v in out.items() if v}
        raise NotPoly(f'operator {type(expr.op).__name__}')
    if isinstance(expr, ast.Call) and isinstance(expr.func, ast.Name) and expr.func.id == 'len' and len(expr.args) == 1 and not expr.keywords \
            and isinstance(expr.args[0], (ast.Name, ast.Attribute)) and norm(expr.args[0]) not in env:
        return {(norm(expr),): 1}   # the length of a named value: an opaque symbol
    raise NotPoly(f'{type(expr).__name__}: {norm(expr)}')


def _add(a, b):
    out = dict(a)
    for k, v in b.items():
        out[k] = out.get(k, 0) + v
    return {k: v for k, v in out.items() if v}


def equal(a, b, env=None):
    try:
        return poly(a, env) == poly(b, env)
    except NotPoly:
        return False


def show(p):
    if not p:
        return '0'
    return ' + '.join((f'{v}*' if v != 1 or not k else '') + '*'.join(k) if k else str(v) for k, v in sorted(p.items()))
