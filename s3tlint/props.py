"""Per-property metadata written into evidence files."""

_T = ['CPython ast semantics for Python 3.12']

PROPS = {
    'C01': {'explanation': 'Static necessary conditions of byte-exact uploads/copies: bounded part views, part record = part sent, '
                           'order-preserving collection of part results, single non-loop final Complete task, streams read to EOF from their position, '
                           'every copy task copies from the caller\'s copy_source unchanged.',
            'trusted_base': ['botocore client sends Body as read', 'S3 assembles parts by PartNumber'],
            'assumptions': ['user streams honour read(n) <= n', 'equality of bytes is not decided statically']},
    'C02': {'explanation': 'Static necessary conditions of exact downloads across retries: offset-oblivious writers only behind the '
                           'de-dup queue, per-attempt cursor reset in every retry loop, extent-aware discard (shared with C16), response bodies drained '
                           'until an empty read (a short read is not EOF), offset-tagged data written after a seek to its own offset on every path.',
            'trusted_base': ['file objects honour seek/write'], 'assumptions': ['byte equality over all fault sequences is not decided']},
    'C03': {'explanation': 'Error discipline on every path: single exception funnel in Task.__call__, one writer of success, classified '
                           'except handlers, bounded retry loops with the exact retryable set, submission failures recorded then announced, '
                           'only the task funnels record a failure (a step signals failure by raising).',
            'trusted_base': ['botocore-level retries'], 'assumptions': ['which of several concurrent failures is reported is not decided']},
    'C04': {'explanation': 'Structural reasons every transfer terminates: no user code under the coordinator state lock, result() unblocked '
                           'before on_done, one finaliser per submission path, waits only on earlier work of the same stage, '
                           'condition-variable discipline, permit release wired to task completion.',
            'trusted_base': ['threading.Lock/Condition/Event', 'concurrent.futures.ThreadPoolExecutor FIFO queue'],
            'assumptions': ['liveness over all schedules is not decided']},
    'C05': {'explanation': 'Abort registered right after the upload id is known, cleanups run iff not successful and before anyone is '
                           'told, finaliser waits for every request, who-may-abort/complete, legacy abort coverage.',
            'trusted_base': ['S3 abort of a completed upload is a no-op'], 'assumptions': ['service-side ordering is not decided']},
    'C06': {'explanation': 'Destination name never opened/removed (taint), rename is final and on the single IO thread, cleanup '
                           'registered where the temp handle is made, both outcomes handled in legacy/processpool/CRT.',
            'trusted_base': ['os.rename atomic on POSIX'], 'assumptions': ['cancel racing the rename is not decided']},
    'C07': {'explanation': 'Argument agreement at every resolved call, message/type flow into the stored exception, guarded client '
                           'calls, guarded terminal stores, Ctrl-C handlers, in-flight readers test the recorded error.',
            'trusted_base': [], 'assumptions': ['placement of cancel among thread steps is not decided']},
    'C08': {'explanation': 'on_queued placement, on_done registration before submission, run-once-and-clear callback lists, '
                           'who may announce done, size discovery guarded by size is None, no callback under the state lock.',
            'trusted_base': [], 'assumptions': ['no on_progress after on_done begins (runtime race) is not decided']},
    'C09': {'explanation': 'Progress accounting mechanisms: rewind on stream retry equals -(bytes reported this attempt), reads report '
                           'len(returned data) only while enabled, suppression while signing, copies report after the request, flush on close.',
            'trusted_base': [], 'assumptions': ['the sums themselves are runtime arithmetic and not decided']},
    'C10': {'explanation': 'Config-field-to-limit wiring table, stage discipline of every S3 operation and IO task, acquire-before-submit '
                           'with blocking default, single IO thread literal.',
            'trusted_base': ['ThreadPoolExecutor honours max_workers'], 'assumptions': ['instantaneous counts are not decided']},
    'C11': {'explanation': 'In-memory bodies are tagged (sibling cross-check over input managers), streaming downloads tagged, tag maps to '
                           'the right semaphore kind/size, tag overrides stage semaphore, reads bounded by the requested amount.',
            'trusted_base': [], 'assumptions': ['high-water marks as numbers are not decided']},
    'C12': {'explanation': 'Condition discipline, rejected releases change no state, bookkeeping only under the lock, non-blocking acquire '
                           'never waits, acquire/release pairing through the executor, all sliding-window state keyed by the tag.',
            'trusted_base': ['threading.Condition'], 'assumptions': ['token numbering/capacity formula over histories is not decided']},
    'C13': {'explanation': 'One bucket per manager wrapping every byte mover, dead transfers stop waiting, scheduled tokens are released or '
                           'unscheduled on every exit, small bodies charged on close, scheduler add/subtract pairing, clock read under the bucket lock.',
            'trusted_base': [], 'assumptions': ['rates, bursts and wait-time bounds (timing) are not decided']},
    'C14': {'explanation': 'Sibling agreement of the eight multipart decisions, tiling identities of range/offset expressions in polynomial '
                           'normal form, S3 limits folded and applied.',
            'trusted_base': [], 'assumptions': ['float rounding of ceil(size/float(p)) and the doubling loop result are not decided']},
    'C15': {'explanation': 'Exhaustive table: entry point x mode x operation x argument against the botocore S3 service model read as data.',
            'trusted_base': ['botocore data/s3/2006-03-01/service-2.json.gz'], 'exhaustive': True,
            'assumptions': ['values are forwarded unmodified (only keys tracked)']},
    'C16': {'explanation': 'Every streaming write goes through the defer queue, discard decisions depend on the extent, release is '
                           'contiguous and advances by what was released, released writes submitted in order under one lock.',
            'trusted_base': ['heapq'], 'assumptions': ['exactly-once over all delivery histories is not decided']},
    'C17': {'explanation': 'Ownership and guarding of every status/exception/result store; extracted abstract transition table of the '
                           'coordinator mutators enumerated exhaustively.',
            'trusted_base': [], 'assumptions': ['interleavings covered only via every-write-under-one-lock']},
    'C18': {'explanation': 'Joins of all executors on every exit path in a topological order of the submits-to relation, tracked-before-'
                           'started, per-transfer state inventory.',
            'trusted_base': ['ThreadPoolExecutor.shutdown(wait=True) joins'], 'assumptions': ['outcome independence as behaviour is not decided']},
    'C19': {'explanation': 'Job count announced before jobs, every job accounted for on every loop path, last one finalises by the count, '
                           'finalise = publish or clean then done, submitter failure order, cancel/shutdown plumbing.',
            'trusted_base': ['multiprocessing.Queue FIFO'], 'assumptions': ['cross-process interleavings are not decided']},
    'C20': {'explanation': 'One acquire/one release list reaching on_done on both continuations, callback composition order, rename-or-'
                           'remove handler, shutdown waits for callbacks (crt.py analysed although it cannot be imported here).',
            'trusted_base': ['awscrt invokes on_done exactly once'], 'assumptions': ['CRT client behaviour']},
}
