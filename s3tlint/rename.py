"""De-renaming: map renamed private attributes and private methods back to the names of the
frozen inventory (known_attrs.txt / known_functions.txt), so that a pure rename refactoring
is transparent to the rules.

Attributes: per class, the private attributes stored through `self.X = ...` in its own
methods are compared with the inventory; attributes that disappeared are paired with the
ones that appeared - by identical first-initialiser text when that is unambiguous, by order
of first store when the counts agree - and the new name is rewritten to the old one in
every Attribute node of the package (a consistent alpha-renaming: program behaviour does not
depend on private attribute names; getattr/setattr with computed names is not used on them).
A new name that is already an inventory attribute name anywhere is never rewritten.

Methods: a private inventory method that disappeared from a class is paired with a new
method of the same class whose parameters and body (after attribute de-renaming, docstring
removed) are identical to the recorded digest; calls `.<new>` are rewritten.
"""
import ast
import hashlib
import os

_INV = None
PARAMS = {}  # qualname -> positional parameter names of the inventory


def body_digest(fn):
    body = fn.body
    if body and isinstance(body[0], ast.Expr) and isinstance(body[0].value, ast.Constant) and isinstance(body[0].value.value, str):
        body = body[1:]
    text = ast.dump(fn.args) + '|' + '|'.join(ast.dump(s) for s in body)
    return hashlib.sha256(text.encode()).hexdigest()[:16]


def class_attrs(cls):
    """ordered {private attr: first initialiser text} of `self.X = v` stores; __init__ first"""
    out = {}
    methods = [n for n in cls.body if isinstance(n, ast.FunctionDef)]
    methods.sort(key=lambda m: m.name != '__init__')
    for m in methods:
        for n in ast.walk(m):
            tgts = []
            if isinstance(n, ast.Assign):
                for t in n.targets:
                    tgts += list(t.elts) if isinstance(t, (ast.Tuple, ast.List)) else [t]
                val = n.value
            elif isinstance(n, (ast.AugAssign, ast.AnnAssign)):
                tgts, val = [n.target], n.value
            else:
                continue
            for t in tgts:
                if isinstance(t, ast.Attribute) and isinstance(t.value, ast.Name) and t.value.id == 'self' and t.attr.startswith('_') \
                        and not t.attr.startswith('__'):
                    out.setdefault(t.attr, ast.unparse(val) if val is not None and len(tgts) == 1 else '?')
    return out


def inventory():
    global _INV
    if _INV is None:
        d = os.path.dirname(__file__)
        attrs, funcs = {}, {}
        p = os.path.join(d, 'known_attrs.txt')
        if os.path.exists(p):
            for line in open(p):
                line = line.rstrip('\n')
                if line:
                    cq, a, init = line.split('\t')
                    attrs.setdefault(cq, {})[a] = init
        p = os.path.join(d, 'known_functions.txt')
        if os.path.exists(p):
            for line in open(p):
                parts = line.split()
                if parts:
                    funcs[parts[0]] = parts[1] if len(parts) > 1 else ''
                    if len(parts) > 2:
                        PARAMS[parts[0]] = parts[2].split(',')
        _INV = (attrs, funcs)
    return _INV


class _AttrRename(ast.NodeTransformer):
    def __init__(self, mapping):
        self.mapping = mapping

    def visit_Attribute(self, node):
        self.generic_visit(node)
        if node.attr in self.mapping:
            node.attr = self.mapping[node.attr]
        return node


_CONSTS = None


def known_consts():
    global _CONSTS
    if _CONSTS is None:
        p = os.path.join(os.path.dirname(__file__), 'known_consts.txt')
        _CONSTS = {l.strip() for l in open(p) if l.strip()} if os.path.exists(p) else None
    return _CONSTS


def _literal(v):
    """immutable literal: constant, or tuple/list/set/frozenset(...) display of such"""
    if isinstance(v, ast.Constant):
        return True
    if isinstance(v, (ast.Tuple, ast.List, ast.Set)):
        return all(_literal(e) for e in v.elts)
    if isinstance(v, ast.Call) and isinstance(v.func, ast.Name) and v.func.id in ('frozenset', 'tuple') and len(v.args) == 1 and not v.keywords:
        return _literal(v.args[0])
    return False


class _ConstInline(ast.NodeTransformer):
    def __init__(self, mod_consts, cls_consts):
        self.mod_consts, self.cls_consts = mod_consts, cls_consts
        self.shadow = [set()]
        self.cls = [None]

    def visit_ClassDef(self, node):
        self.cls.append(node.name)
        self.generic_visit(node)
        self.cls.pop()
        return node

    def visit_FunctionDef(self, node):
        local = {a.arg for a in ast.walk(node.args) if isinstance(a, ast.arg)}
        local |= {n.id for n in ast.walk(node) if isinstance(n, ast.Name) and isinstance(n.ctx, (ast.Store, ast.Del))}
        self.shadow.append(local)
        self.generic_visit(node)
        self.shadow.pop()
        return node

    def visit_Name(self, node):
        if isinstance(node.ctx, ast.Load) and node.id in self.mod_consts and not any(node.id in s for s in self.shadow[1:]):
            import copy
            return ast.copy_location(copy.deepcopy(self.mod_consts[node.id]), node)
        return node

    def visit_Attribute(self, node):
        self.generic_visit(node)
        if isinstance(node.ctx, ast.Load) and isinstance(node.value, ast.Name) and node.value.id in ('self', 'cls') and self.cls[-1] is not None \
                and (self.cls[-1], node.attr) in self.cls_consts:
            import copy
            return ast.copy_location(copy.deepcopy(self.cls_consts[(self.cls[-1], node.attr)]), node)
        return node


def deconstant(trees):
    """Module-level / class-level names that are not in the inventory (known_consts.txt), are bound once
    to an immutable literal and never rebound are replaced by the literal at their uses in the same
    module (class constants: at self.NAME / cls.NAME inside the class): a repeated literal that a
    refactoring gave a name reads as the literal again."""
    known = known_consts()
    notes = []
    if known is None:
        return notes
    for mod, tree in trees.items():
        stores = {}
        for n in ast.walk(tree):
            if isinstance(n, ast.Name) and isinstance(n.ctx, (ast.Store, ast.Del)):
                stores[n.id] = stores.get(n.id, 0) + 1
            elif isinstance(n, ast.Global):
                for g in n.names:
                    stores[g] = stores.get(g, 0) + 2
        mod_consts, cls_consts = {}, {}
        for st in tree.body:
            if isinstance(st, ast.Assign) and len(st.targets) == 1 and isinstance(st.targets[0], ast.Name) and _literal(st.value):
                nm = st.targets[0].id
                if f'{mod}.{nm}' not in known and stores.get(nm) == 1 and not nm.startswith('__'):
                    mod_consts[nm] = st.value
            elif isinstance(st, ast.ClassDef):
                for cs in st.body:
                    if isinstance(cs, ast.Assign) and len(cs.targets) == 1 and isinstance(cs.targets[0], ast.Name) and _literal(cs.value):
                        nm = cs.targets[0].id
                        if f'{mod}.{st.name}.{nm}' not in known and not nm.startswith('__'):
                            cls_consts[(st.name, nm)] = cs.value
        if mod_consts or cls_consts:
            _ConstInline(mod_consts, cls_consts).visit(tree)
            for nm in mod_consts:
                notes.append(f'{mod}: constant {nm} inlined')
            for (c, nm) in cls_consts:
                notes.append(f'{mod}.{c}: constant {nm} inlined')
    return notes


def dereorder(trees, notes):
    """A private function whose positional parameters (none of them defaulted) are a permutation of the inventory's is
    put back into the inventory's order, together with the all-positional calls of it (callee identified by its name,
    which must be unique in the package)."""
    defs = {}
    for mod, tree in trees.items():
        for owner in [tree] + [n for n in ast.walk(tree) if isinstance(n, ast.ClassDef)]:
            for fn in owner.body:
                if isinstance(fn, ast.FunctionDef):
                    defs.setdefault(fn.name, []).append((mod if owner is tree else f'{mod}.{owner.name}', fn, owner is not tree))
    owners = {}
    for mod, tree in trees.items():
        for cls in [n for n in ast.walk(tree) if isinstance(n, ast.ClassDef)]:
            owners[f'{mod}.{cls.name}'] = cls
    for name, lst in defs.items():
        if not name.startswith('_') or name.startswith('__'):
            continue
        for scope, fn, is_method in lst:
            inv = PARAMS.get(f'{scope}.{name}')
            a = fn.args
            if inv is None or a.defaults or a.vararg or a.kwarg or a.kwonlyargs or a.posonlyargs:
                continue
            cur = [x.arg for x in a.args]
            if cur == inv or sorted(cur) != sorted(inv) or len(set(cur)) != len(cur) or (is_method and cur[0] != inv[0]):
                continue
            if not is_method and len(lst) != 1:
                continue
            perm = [cur.index(p) for p in inv]          # new position i takes current parameter perm[i]
            a.args = [a.args[k] for k in perm]
            off = 1 if is_method else 0
            n_call = len(cur) - off
            # call sites: self.NAME(..) inside the owning class; any receiver / the bare name when the name is unique
            scopes = list(trees.values()) if len(lst) == 1 else [owners[scope]]
            for sc in scopes:
                for c in ast.walk(sc):
                    if not isinstance(c, ast.Call) or any(isinstance(x, ast.Starred) for x in c.args) or any(k.arg is None for k in c.keywords):
                        continue
                    f = c.func
                    mine = (is_method and isinstance(f, ast.Attribute) and f.attr == name and (len(lst) == 1 or (isinstance(f.value, ast.Name) and f.value.id == 'self'))) \
                        or (not is_method and isinstance(f, ast.Name) and f.id == name)
                    if not mine:
                        continue
                    # bind by the CURRENT signature (positionals in order, keywords by name), emit positionally in the inventory's order
                    cparams = cur[off:]
                    bound = {}
                    for i, x in enumerate(c.args):
                        if i < len(cparams):
                            bound[cparams[i]] = x
                    dup = False
                    for k in c.keywords:
                        if k.arg in bound or k.arg not in cparams:
                            dup = True
                        bound[k.arg] = k.value
                    if dup or len(c.args) > len(cparams) or set(bound) != set(cparams):
                        continue
                    c.args = [bound[p_] for p_ in inv[off:]]
                    c.keywords = []
            notes.append(f'{scope}.{name}: parameters put back into the inventory order {inv}')


def derename(trees):
    """Rewrite trees in place; returns notes."""
    inv_attrs, inv_funcs = inventory()
    notes = deconstant(trees)
    dereorder(trees, notes)
    if not inv_attrs and not inv_funcs:
        return notes
    all_known_attr_names = {a for d in inv_attrs.values() for a in d}
    all_known_method_names = {q.rsplit('.', 1)[-1] for q in inv_funcs}
    amap = {}
    conflict = set()
    for mod, tree in trees.items():
        for cls in [n for n in ast.walk(tree) if isinstance(n, ast.ClassDef)]:
            cq = f'{mod}.{cls.name}'
            if cq not in inv_attrs:
                continue
            cur = class_attrs(cls)
            inv = inv_attrs[cq]
            missing = [a for a in inv if a not in cur]
            new = [a for a in cur if a not in inv and a not in all_known_attr_names]
            if not missing or not new:
                continue
            pairs = {}
            # 1. identical initialiser, unambiguous on both sides
            for m in list(missing):
                c = [n for n in new if cur[n] == inv[m] and n not in pairs.values()]
                same_m = [x for x in missing if inv[x] == inv[m]]
                if len(c) == 1 and len(same_m) == 1:
                    pairs[m] = c[0]
            rest_m = [m for m in missing if m not in pairs]
            rest_n = [n for n in new if n not in pairs.values()]
            # 2. order of first store
            if rest_m and len(rest_m) == len(rest_n):
                for m, n in zip(rest_m, rest_n):
                    pairs[m] = n
            for old, n in pairs.items():
                if n in amap and amap[n] != old:
                    conflict.add(n)
                amap[n] = old
                notes.append(f'{cq}: attribute {n} is the inventory attribute {old}')
    for n in conflict:
        amap.pop(n, None)
        notes.append(f'attribute {n}: conflicting de-renamings, left alone')
    if amap:
        for tree in trees.values():
            _AttrRename(amap).visit(tree)
    # methods
    mmap = {}
    for mod, tree in trees.items():
        for cls in [n for n in ast.walk(tree) if isinstance(n, ast.ClassDef)]:
            cq = f'{mod}.{cls.name}'
            cur = {n.name: n for n in cls.body if isinstance(n, ast.FunctionDef)}
            missing = [q.rsplit('.', 1)[-1] for q in inv_funcs if q.rsplit('.', 1)[0] == cq and q.rsplit('.', 1)[-1] not in cur]
            missing = [m for m in missing if m.startswith('_') and not m.startswith('__')]
            new = [n for n in cur if f'{cq}.{n}' not in inv_funcs and n.startswith('_') and not n.startswith('__') and n not in all_known_method_names]
            for m in missing:
                want = inv_funcs.get(f'{cq}.{m}')
                c = [n for n in new if want and body_digest(cur[n]) == want]
                if len(c) == 1:
                    if c[0] in mmap and mmap[c[0]] != m:
                        continue
                    mmap[c[0]] = m
                    cur[c[0]].name = m
                    notes.append(f'{cq}: method {c[0]} is the inventory method {m}')
            # second chance, by signature: exactly one inventory method of the class is still missing, exactly one unknown private
            # method is left, and it takes the parameters the inventory recorded for the missing one (a method renamed AND edited -
            # a statement moved to / from its caller): it is read under the inventory name, the expanded view does the rest
            still = [m for m in missing if m not in mmap.values()]
            left = [n for n in new if n not in mmap]
            if len(still) == 1 and len(left) == 1:
                inv_params = PARAMS.get(f'{cq}.{still[0]}')
                if inv_params and [a.arg for a in cur[left[0]].args.args] == list(inv_params) and len(inv_params) >= 3:
                    mmap[left[0]] = still[0]
                    cur[left[0]].name = still[0]
                    notes.append(f'{cq}: method {left[0]} has the parameters of the missing inventory method {still[0]}: read under that name')
    if mmap:
        for tree in trees.values():
            _AttrRename(mmap).visit(tree)
    return notes
