"""IR for s3tlint: parsed modules, classes (with MRO), functions, imports.

Nothing in here imports or executes the analysed package; everything is read
off ``ast`` trees of ``<repo>/s3transfer/*.py``.
"""

import ast
import hashlib
import os


class AnalysisError(Exception):
    """The analysis cannot be carried out (vanished anchor, unknown construct).

    Never a verdict about the property: callers print ANALYSIS-ERROR, exit 2.
    """


PKG = 's3transfer'


def norm(node):
    """Normalised source text of a node (used for line-independent keys)."""
    if node is None:
        return ''
    if isinstance(node, str):
        return node
    try:
        return ast.unparse(node)
    except Exception:  # pragma: no cover
        return ast.dump(node)


def short(node, n=110):
    s = ' '.join(norm(node).split())
    return s if len(s) <= n else s[: n - 3] + '...'


def _lockish(expr):
    d = dotted(expr)
    if not d:
        return False
    tail = d.split('.')[-1].lower()
    return tail.endswith('lock') or tail.endswith('condition')


def _always_leaves(stmts):
    if not stmts:
        return False
    last = stmts[-1]
    if isinstance(last, (ast.Return, ast.Raise, ast.Continue, ast.Break)):
        return True
    if isinstance(last, ast.If) and last.orelse:
        return _always_leaves(last.body) and _always_leaves(last.orelse)
    return False


def _negate(e):
    """canonical negation of a test expression"""
    if isinstance(e, ast.UnaryOp) and isinstance(e.op, ast.Not):
        return e.operand
    if isinstance(e, ast.Compare) and len(e.ops) == 1:
        op, l, r = e.ops[0], e.left, e.comparators[0]
        flip = {ast.Eq: ast.NotEq, ast.NotEq: ast.Eq, ast.In: ast.NotIn, ast.NotIn: ast.In, ast.Is: ast.IsNot, ast.IsNot: ast.Is}
        if type(op) in flip:
            return ast.copy_location(ast.Compare(left=l, ops=[flip[type(op)]()], comparators=[r]), e)
        if isinstance(op, ast.Lt):
            return ast.copy_location(ast.Compare(left=r, ops=[ast.LtE()], comparators=[l]), e)
        if isinstance(op, ast.LtE):
            return ast.copy_location(ast.Compare(left=r, ops=[ast.Lt()], comparators=[l]), e)
        if isinstance(op, ast.Gt):
            return ast.copy_location(ast.Compare(left=l, ops=[ast.LtE()], comparators=[r]), e)
        if isinstance(op, ast.GtE):
            return ast.copy_location(ast.Compare(left=l, ops=[ast.Lt()], comparators=[r]), e)
    return ast.copy_location(ast.UnaryOp(op=ast.Not(), operand=e), e)


def _has_break(stmts):
    """a break belonging to this loop level"""
    for s in stmts:
        if isinstance(s, ast.Break):
            return True
        if isinstance(s, (ast.For, ast.While, ast.AsyncFor, ast.FunctionDef, ast.AsyncFunctionDef, ast.ClassDef)):
            if isinstance(s, (ast.For, ast.While, ast.AsyncFor)) and _has_break(s.orelse):
                return True
            continue
        for f in ('body', 'orelse', 'finalbody'):
            if _has_break(getattr(s, f, []) or []):
                return True
        if isinstance(s, ast.Try):
            for h in s.handlers:
                if _has_break(h.body):
                    return True
    return False


class _Canon(ast.NodeTransformer):
    """Canonical forms, so that rules see one shape for equivalent code:
    x = x <op> e        -> x <op>= e
    f(b=.., a=..)       -> keywords sorted by name (**kw last)
    pass                -> removed from non-empty blocks
    L.acquire(); try: B finally: L.release()   ->   with L: B   (L a lock/condition)
    dict(a=x, **m) -> {'a': x, **m};   f(**{'a': x, **m}) -> f(a=x, **m)
    if c: A(always leaves the block) else: B   ->   if c: A ; B
    while True: if X: break ; REST   ->   while not X: REST ;   while c: B else: E  ->  while c: B ; E  (B has no break)"""

    def visit_Assign(self, node):
        self.generic_visit(node)
        if len(node.targets) == 1 and isinstance(node.targets[0], (ast.Name, ast.Attribute, ast.Subscript)) and isinstance(node.value, ast.BinOp):
            t = node.targets[0]
            if isinstance(node.value.op, (ast.Add, ast.Sub, ast.Mult)) and type(t) is type(node.value.left) and ast.unparse(t) == ast.unparse(node.value.left):
                return ast.copy_location(ast.AugAssign(target=t, op=node.value.op, value=node.value.right), node)
        return node

    def visit_Attribute(self, node):
        self.generic_visit(node)
        # io.SEEK_SET / SEEK_CUR / SEEK_END (also os.*)  ->  0 / 1 / 2
        if isinstance(node.value, ast.Name) and node.value.id in ('io', 'os') and node.attr in ('SEEK_SET', 'SEEK_CUR', 'SEEK_END') and isinstance(node.ctx, ast.Load):
            return ast.copy_location(ast.Constant(value={'SEEK_SET': 0, 'SEEK_CUR': 1, 'SEEK_END': 2}[node.attr]), node)
        return node

    def visit_Name(self, node):
        # from io import SEEK_END ... the bare names of the seek constants
        if isinstance(node.ctx, ast.Load) and node.id in ('SEEK_SET', 'SEEK_CUR', 'SEEK_END'):
            return ast.copy_location(ast.Constant(value={'SEEK_SET': 0, 'SEEK_CUR': 1, 'SEEK_END': 2}[node.id]), node)
        return node

    def visit_Compare(self, node):
        self.generic_visit(node)
        # a < b < c  ->  a < b and b < c      (the middle operands are names / constants / attribute or subscript chains of names:
        # evaluating them twice is the same as once)
        if len(node.ops) > 1 and all(isinstance(x, (ast.Name, ast.Constant, ast.Attribute, ast.Subscript, ast.expr_context)) for m in node.comparators[:-1] for x in ast.walk(m)):
            import copy
            parts, left = [], node.left
            for op, right in zip(node.ops, node.comparators):
                parts.append(self.visit_Compare(ast.copy_location(ast.Compare(left=copy.deepcopy(left), ops=[op], comparators=[right]), node)))
                left = right
            return ast.copy_location(ast.BoolOp(op=ast.And(), values=parts), node)
        if len(node.ops) == 1:
            op, l, r = node.ops[0], node.left, node.comparators[0]
            # x in [a, b] -> x in (a, b)
            if isinstance(op, (ast.In, ast.NotIn)) and isinstance(r, ast.List):
                node.comparators = [ast.copy_location(ast.Tuple(elts=r.elts, ctx=ast.Load()), r)]
            if isinstance(op, ast.Gt):
                node.left, node.ops, node.comparators = r, [ast.Lt()], [l]
            elif isinstance(op, ast.GtE):
                node.left, node.ops, node.comparators = r, [ast.LtE()], [l]
            elif isinstance(op, (ast.Eq, ast.NotEq)):
                lc, rc = isinstance(l, ast.Constant), isinstance(r, ast.Constant)
                if (lc and not rc) or (lc == rc and ast.unparse(l) > ast.unparse(r)):
                    node.left, node.comparators = r, [l]
        return node

    def visit_UnaryOp(self, node):
        self.generic_visit(node)
        # not (a == b) -> a != b ; not (a < b) -> b <= a ; not not x is left alone
        if isinstance(node.op, ast.Not) and isinstance(node.operand, ast.Compare) and len(node.operand.ops) == 1:
            c = node.operand
            op, l, r = c.ops[0], c.left, c.comparators[0]
            flip = {ast.Eq: ast.NotEq, ast.NotEq: ast.Eq, ast.In: ast.NotIn, ast.NotIn: ast.In, ast.Is: ast.IsNot, ast.IsNot: ast.Is}
            if type(op) in flip:
                return ast.copy_location(ast.Compare(left=l, ops=[flip[type(op)]()], comparators=[r]), node)
            if isinstance(op, ast.Lt):
                return ast.copy_location(ast.Compare(left=r, ops=[ast.LtE()], comparators=[l]), node)
            if isinstance(op, ast.LtE):
                return ast.copy_location(ast.Compare(left=r, ops=[ast.Lt()], comparators=[l]), node)
        return node

    def visit_Call(self, node):
        self.generic_visit(node)
        # dict(a=x, **m)  ->  {'a': x, **m}
        if isinstance(node.func, ast.Name) and node.func.id == 'dict' and not node.args and node.keywords:
            return ast.copy_location(ast.Dict(keys=[ast.Constant(value=k.arg) if k.arg is not None else None for k in node.keywords],
                                              values=[k.value for k in node.keywords]), node)
        # f(**{'a': x, **m})  ->  f(a=x, **m)
        if any(k.arg is None and isinstance(k.value, ast.Dict) for k in node.keywords):
            kws = []
            for k in node.keywords:
                if k.arg is None and isinstance(k.value, ast.Dict) and all(
                        dk is None or (isinstance(dk, ast.Constant) and isinstance(dk.value, str) and dk.value.isidentifier()) for dk in k.value.keys):
                    for dk, dv in zip(k.value.keys, k.value.values):
                        kws.append(ast.keyword(arg=dk.value if dk is not None else None, value=dv))
                else:
                    kws.append(k)
            node.keywords = kws
        # functools.partial(f, *a, **k)  ->  FunctionContainer(f, *a, **k): both are "call f(*a, **k) later", arguments
        # evaluated now; the package's own spelling is the canonical one
        fn_ = node.func
        if ((isinstance(fn_, ast.Attribute) and fn_.attr == 'partial' and isinstance(fn_.value, ast.Name) and fn_.value.id == 'functools')
                or (isinstance(fn_, ast.Name) and fn_.id == 'partial')) and node.args:
            node.func = ast.copy_location(ast.Name(id='FunctionContainer', ctx=ast.Load()), fn_)
        # x.add_failure_cleanup(FunctionContainer(f, *a, **k))  ->  x.add_failure_cleanup(f, *a, **k)   (what the method builds itself)
        if isinstance(node.func, ast.Attribute) and node.func.attr in ('add_failure_cleanup', 'add_done_callback') and len(node.args) == 1 and not node.keywords \
                and isinstance(node.args[0], ast.Call) and isinstance(node.args[0].func, ast.Name) and node.args[0].func.id == 'FunctionContainer' \
                and node.args[0].args and node.func.attr == 'add_failure_cleanup':
            inner = node.args[0]
            node.args, node.keywords = list(inner.args), list(inner.keywords)
        if len(node.keywords) > 1:
            named = [k for k in node.keywords if k.arg is not None]
            star = [k for k in node.keywords if k.arg is None]
            node.keywords = sorted(named, key=lambda k: k.arg) + star
        return node

    def _block(self, stmts):
        out = []
        i = 0
        stmts = [s for s in stmts if not isinstance(s, ast.Pass)] or stmts[:1]
        while i < len(stmts):
            s = stmts[i]
            nxt = stmts[i + 1] if i + 1 < len(stmts) else None
            # t = e; return t   ->   return e
            if (isinstance(s, ast.Assign) and len(s.targets) == 1 and isinstance(s.targets[0], ast.Name) and isinstance(nxt, ast.Return)
                    and isinstance(nxt.value, ast.Name) and nxt.value.id == s.targets[0].id):
                out.append(ast.copy_location(ast.Return(value=s.value), s))
                i += 2
                continue
            if (isinstance(s, ast.Expr) and isinstance(s.value, ast.Call) and isinstance(s.value.func, ast.Attribute) and s.value.func.attr == 'acquire'
                    and not s.value.args and not s.value.keywords and _lockish(s.value.func.value) and isinstance(nxt, ast.Try)
                    and not nxt.handlers and not nxt.orelse and len(nxt.finalbody) == 1 and isinstance(nxt.finalbody[0], ast.Expr)
                    and isinstance(nxt.finalbody[0].value, ast.Call) and isinstance(nxt.finalbody[0].value.func, ast.Attribute)
                    and nxt.finalbody[0].value.func.attr == 'release' and ast.dump(nxt.finalbody[0].value.func.value) == ast.dump(s.value.func.value)):
                w = ast.With(items=[ast.withitem(context_expr=s.value.func.value, optional_vars=None)], body=nxt.body)
                out.append(ast.copy_location(w, s))
                i += 2
                continue
            # while True: if X: break ; REST   ->   while not X: REST      (leading exits become the loop condition)
            if isinstance(s, ast.While) and isinstance(s.test, ast.Constant) and s.test.value is True and not s.orelse:
                conds = []
                body = list(s.body)
                while body and isinstance(body[0], ast.If) and not body[0].orelse and len(body[0].body) == 1 and isinstance(body[0].body[0], ast.Break) and len(body) > 1:
                    conds.append(_negate(body[0].test))
                    body = body[1:]
                if conds:
                    s.test = conds[0] if len(conds) == 1 else ast.copy_location(ast.BoolOp(op=ast.And(), values=conds), s)
                    s.body = body
            # while c: B  else: E   ->   while c: B ; E        when B cannot break out of this loop
            if isinstance(s, (ast.While, ast.For)) and s.orelse and not _has_break(s.body) \
                    and not (isinstance(s, ast.While) and isinstance(s.test, ast.Constant) and s.test.value):
                rest = s.orelse
                s.orelse = []
                stmts = stmts[:i + 1] + rest + stmts[i + 1:]
                nxt = stmts[i + 1] if i + 1 < len(stmts) else None
            # try: A except..: (always leaves) else: B   ->   try: A except..: .. ; B     (no finally)
            if isinstance(s, ast.Try) and s.orelse and not s.finalbody and s.handlers and all(_always_leaves(h.body) for h in s.handlers):
                rest = s.orelse
                s.orelse = []
                stmts = stmts[:i + 1] + rest + stmts[i + 1:]
                nxt = stmts[i + 1] if i + 1 < len(stmts) else None
            # if X < 0: X = 0   ->   X = max(X, 0)          (explicit clamp; also  if X > c: X = c -> X = min(X, c))
            if isinstance(s, ast.If) and not s.orelse and len(s.body) == 1 and isinstance(s.body[0], ast.Assign) and len(s.body[0].targets) == 1 \
                    and isinstance(s.body[0].targets[0], ast.Name) and isinstance(s.test, ast.Compare) and len(s.test.ops) == 1 and isinstance(s.test.ops[0], ast.Lt):
                x, bound = s.body[0].targets[0].id, s.body[0].value
                l, r = s.test.left, s.test.comparators[0]
                if isinstance(bound, (ast.Constant, ast.Name, ast.Attribute)):
                    if isinstance(l, ast.Name) and l.id == x and ast.dump(r) == ast.dump(bound):      # if x < b: x = b
                        s = ast.copy_location(ast.Assign(targets=s.body[0].targets, value=ast.Call(func=ast.Name(id='max', ctx=ast.Load()), args=[l, bound], keywords=[])), s)
                    elif isinstance(r, ast.Name) and r.id == x and ast.dump(l) == ast.dump(bound):    # if b < x: x = b
                        s = ast.copy_location(ast.Assign(targets=s.body[0].targets, value=ast.Call(func=ast.Name(id='min', ctx=ast.Load()), args=[r, bound], keywords=[])), s)
            # if c: for t in L: A  else: for t in L: B   ->   for t in L: (if c: A else: B)     c loop-invariant: only names/constants
            # that neither body stores; same target and iterable; no for-else
            if isinstance(s, ast.If) and len(s.body) == 1 and len(s.orelse) == 1 and isinstance(s.body[0], ast.For) and isinstance(s.orelse[0], ast.For) \
                    and not s.body[0].orelse and not s.orelse[0].orelse and ast.dump(s.body[0].target) == ast.dump(s.orelse[0].target) \
                    and ast.dump(s.body[0].iter) == ast.dump(s.orelse[0].iter) and isinstance(s.body[0].iter, (ast.Name, ast.Attribute)) \
                    and all(isinstance(x, (ast.Name, ast.Constant, ast.Compare, ast.BoolOp, ast.UnaryOp, ast.cmpop, ast.boolop, ast.unaryop, ast.expr_context)) for x in ast.walk(s.test)):
                tn = {x.id for x in ast.walk(s.test) if isinstance(x, ast.Name)}
                stored = {x.id for lp in (s.body[0], s.orelse[0]) for x in ast.walk(lp) if isinstance(x, ast.Name) and not isinstance(x.ctx, ast.Load)}
                if not (tn & stored):
                    inner = ast.copy_location(ast.If(test=s.test, body=s.body[0].body, orelse=s.orelse[0].body), s)
                    s = ast.copy_location(ast.For(target=s.body[0].target, iter=s.body[0].iter, body=[inner], orelse=[], type_comment=None), s)
            # if c: A (always leaves the block) else: B   ->   if c: A ; B     (guard-clause form)
            if isinstance(s, ast.If) and s.orelse and _always_leaves(s.body):
                rest = s.orelse
                s.orelse = []
                stmts = stmts[:i + 1] + rest + stmts[i + 1:]
                nxt = stmts[i + 1] if i + 1 < len(stmts) else None
            # if c: return True ; return False   ->   return c        (and the negated form)
            if (isinstance(s, ast.If) and not s.orelse and len(s.body) == 1 and isinstance(s.body[0], ast.Return)
                    and isinstance(s.body[0].value, ast.Constant) and isinstance(s.body[0].value.value, bool)
                    and isinstance(nxt, ast.Return) and isinstance(nxt.value, ast.Constant) and isinstance(nxt.value.value, bool)
                    and nxt.value.value is not s.body[0].value.value):
                v = s.test if s.body[0].value.value else ast.UnaryOp(op=ast.Not(), operand=s.test)
                out.append(ast.copy_location(ast.Return(value=v), s))
                i += 2
                continue
            out.append(s)
            i += 1
        return out

    def generic_visit(self, node):
        super().generic_visit(node)
        for f in ('body', 'orelse', 'finalbody'):
            b = getattr(node, f, None)
            if isinstance(b, list) and b and isinstance(b[0], ast.stmt):
                setattr(node, f, self._block(b))
        return node


class _ForwardSubst:
    """t = e ; <next statement using t exactly once as an argument>  ->  <next statement with e in place of t>
    for constructor-like e only (dict/list/tuple display, dict(...), a class constructor call,
    a ....submit(...) call) and a local t stored once and loaded once in the whole function (not
    captured by a nested scope), when the use is an argument / keyword value / display element
    evaluated unconditionally in the immediately following simple statement and everything
    evaluated before it there is a plain name/attribute/constant load (evaluation order of effects
    unchanged).  Brings `kwargs = {...}; task = T(main_kwargs=kwargs); f = submit(ex, task);
    fs.append(f)` to the nested one-expression spelling the package uses."""

    def run(self, tree):
        for fn in [n for n in ast.walk(tree) if isinstance(n, (ast.FunctionDef, ast.AsyncFunctionDef))]:
            self._function(fn)
        return tree

    @staticmethod
    def _ctor_like(e):
        if isinstance(e, (ast.Dict, ast.List, ast.Tuple)):
            return True
        if isinstance(e, ast.Call):
            if isinstance(e.func, ast.Name) and (e.func.id == 'dict' or e.func.id[:1].isupper()):
                return True
            if isinstance(e.func, ast.Attribute) and e.func.attr == 'submit':
                return True
        return False

    def _function(self, fn):
        loads, stores, banned = {}, {}, set()
        a = fn.args
        for x in a.posonlyargs + a.args + a.kwonlyargs + ([a.vararg] if a.vararg else []) + ([a.kwarg] if a.kwarg else []):
            banned.add(x.arg)

        def scan(node):
            for ch in ast.iter_child_nodes(node):
                if isinstance(ch, (ast.FunctionDef, ast.AsyncFunctionDef, ast.Lambda, ast.ClassDef, ast.ListComp, ast.SetComp, ast.DictComp, ast.GeneratorExp)):
                    for n in ast.walk(ch):
                        if isinstance(n, ast.Name):
                            banned.add(n.id)
                    continue
                if isinstance(ch, (ast.Global, ast.Nonlocal)):
                    banned.update(ch.names)
                if isinstance(ch, ast.Name):
                    d = loads if isinstance(ch.ctx, ast.Load) else stores
                    d[ch.id] = d.get(ch.id, 0) + 1
                if isinstance(ch, ast.ExceptHandler) and ch.name:
                    banned.add(ch.name)
                scan(ch)
        scan(fn)
        self.ok = {n for n in stores if stores[n] == 1 and loads.get(n, 0) == 1 and n not in banned}
        if self.ok:
            self._blocks(fn)

    def _blocks(self, node):
        for f in ('body', 'orelse', 'finalbody'):
            b = getattr(node, f, None)
            if isinstance(b, list) and b and isinstance(b[0], ast.stmt):
                for st in b:
                    if not isinstance(st, (ast.FunctionDef, ast.AsyncFunctionDef, ast.ClassDef)):
                        self._blocks(st)
                setattr(node, f, self._block(b))
        if isinstance(node, ast.Try):
            for h in node.handlers:
                self._blocks(h)

    def _block(self, stmts):
        stmts = list(stmts)
        i = 0
        while i + 1 < len(stmts):
            s, nxt = stmts[i], stmts[i + 1]
            if isinstance(s, ast.Assign) and len(s.targets) == 1 and isinstance(s.targets[0], ast.Name) and s.targets[0].id in self.ok \
                    and self._ctor_like(s.value) and isinstance(nxt, (ast.Expr, ast.Assign, ast.Return)) and self._subst(nxt, s.targets[0].id, s.value):
                del stmts[i]
                i = max(i - 1, 0)
                continue
            i += 1
        return stmts

    def _subst(self, stmt, name, value):
        """replace the single unconditional argument-position use of name in stmt; False if not applicable"""
        state = {'done': False, 'blocked': False}

        def ev(node, parent, field, idx, argpos):
            if state['done'] or state['blocked']:
                return
            if isinstance(node, ast.Name):
                if node.id == name and isinstance(node.ctx, ast.Load):
                    if not argpos:
                        state['blocked'] = True
                        return
                    if idx is None:
                        setattr(parent, field, value)
                    else:
                        getattr(parent, field)[idx] = value
                    state['done'] = True
                return
            if isinstance(node, ast.Constant):
                return
            if isinstance(node, ast.Attribute):
                ev(node.value, node, 'value', None, False)
                return
            if isinstance(node, ast.Call):
                ev(node.func, node, 'func', None, False)
                for k, x in enumerate(node.args):
                    ev(x, node, 'args', k, True)
                for kw in node.keywords:
                    ev(kw.value, kw, 'value', None, True)
                if not state['done']:
                    state['blocked'] = True  # the call itself runs before anything later
                return
            if isinstance(node, (ast.List, ast.Tuple, ast.Set)):
                for k, x in enumerate(node.elts):
                    ev(x, node, 'elts', k, True)
                return
            if isinstance(node, ast.Dict):
                for k in range(len(node.keys)):
                    if node.keys[k] is not None:
                        ev(node.keys[k], node, 'keys', k, False)
                    ev(node.values[k], node, 'values', k, node.keys[k] is not None)
                return
            state['blocked'] = True

        if isinstance(stmt, ast.Expr):
            ev(stmt.value, stmt, 'value', None, False)
        elif isinstance(stmt, ast.Return):
            if stmt.value is None:
                return False
            ev(stmt.value, stmt, 'value', None, False)
        elif isinstance(stmt, ast.Assign):
            def pure_target(t):
                return isinstance(t, ast.Name) or (isinstance(t, ast.Attribute) and pure_target(t.value))
            if not all(pure_target(t) for t in stmt.targets) or any(isinstance(n, ast.Name) and n.id == name for t in stmt.targets for n in ast.walk(t)):
                return False
            ev(stmt.value, stmt, 'value', None, False)
        return state['done']


class _PureLocals:
    """A local that is stored exactly once in its function by `x = <pure expression>` - names,
    attribute chains, constants, arithmetic/comparison/boolean operators, no calls or subscripts -
    is replaced by that expression at its uses when the expression still denotes the same value
    there: every name in it is a parameter or another single-store local, no attribute it reads is
    stored in the function between the definition and the use, and definition and use are not
    separated by a loop back-edge.  Aliases (`coordinator = self._transfer_coordinator`), hoisted
    flags (`is_last = i == n - 1`) and hoisted sub-expressions read as the code without them."""
    PURE = (ast.Name, ast.Attribute, ast.Constant, ast.BinOp, ast.Compare, ast.BoolOp, ast.UnaryOp,
            ast.operator, ast.cmpop, ast.boolop, ast.unaryop, ast.expr_context)
    # package-wide facts, set by Program before the modules are canonicalised:
    #   REBOUND - attribute names assigned (or deleted / augmented) anywhere outside __init__/__new__
    #   PROPS   - property name -> name of the attribute it returns (`return self._x`), or None when it computes something
    REBOUND = set()
    PROPS = {}
    HARMLESS_CALLS = {'len', 'isinstance', 'issubclass', 'min', 'max', 'int', 'float', 'str', 'bool', 'abs', 'range', 'tuple', 'sorted',
                      'getattr', 'hasattr', 'id', 'repr', 'type', 'callable', 'frozenset'}

    @classmethod
    def collect(cls, trees):
        rebound, props = set(), {}
        for t in trees:
            for fn in [n for n in ast.walk(t) if isinstance(n, (ast.FunctionDef, ast.AsyncFunctionDef))]:
                if any((isinstance(d, ast.Name) and d.id in ('property', 'cached_property')) or (isinstance(d, ast.Attribute) and d.attr in ('cached_property',)) for d in fn.decorator_list):
                    body = [s for s in fn.body if not (isinstance(s, ast.Expr) and isinstance(s.value, ast.Constant))]
                    if len(body) == 1 and isinstance(body[0], ast.Raise) and 'NotImplementedError' in ast.unparse(body[0]):
                        continue  # abstract: says nothing about the concrete properties of that name
                    und = None
                    if len(body) == 1 and isinstance(body[0], ast.Return) and isinstance(body[0].value, ast.Attribute):
                        chain, e = [], body[0].value
                        while isinstance(e, ast.Attribute):
                            chain.append(e.attr)
                            e = e.value
                        if isinstance(e, ast.Name) and e.id == 'self':
                            und = frozenset(chain)
                    if fn.name in props and props[fn.name] is not None and und is not None:
                        props[fn.name] = props[fn.name] | und
                    else:
                        props[fn.name] = und if fn.name not in props else None
                if fn.name in ('__init__', '__new__'):
                    continue
                for x in ast.walk(fn):
                    if isinstance(x, ast.Attribute) and not isinstance(x.ctx, ast.Load):
                        rebound.add(x.attr)
                    elif isinstance(x, ast.AugAssign) and isinstance(x.target, ast.Attribute):
                        rebound.add(x.target.attr)
        cls.REBOUND, cls.PROPS = rebound, props
        # the same, per family of classes related by inheritance, for attributes reached through `self`:
        # self.X in class C may only be rebound by methods of C's own family (or through another receiver: OTHER)
        parent = {}

        def find(a):
            while parent.setdefault(a, a) != a:
                parent[a] = parent[parent[a]]
                a = parent[a]
            return a
        fam_rebound, other = {}, set()
        classes = [c for t in trees for c in ast.walk(t) if isinstance(c, ast.ClassDef)]
        for c in classes:
            for b in c.bases:
                bn = b.id if isinstance(b, ast.Name) else (b.attr if isinstance(b, ast.Attribute) else None)
                if bn:
                    parent[find(c.name)] = find(bn)
        in_class = set()
        for c in classes:
            for fn in [n for n in c.body if isinstance(n, (ast.FunctionDef, ast.AsyncFunctionDef))]:
                in_class.add(id(fn))
                for x in ast.walk(fn):
                    tgt = x if isinstance(x, ast.Attribute) and not isinstance(x.ctx, ast.Load) else (x.target if isinstance(x, ast.AugAssign) and isinstance(x.target, ast.Attribute) else None)
                    if tgt is None:
                        continue
                    if isinstance(tgt.value, ast.Name) and tgt.value.id == 'self':
                        if fn.name not in ('__init__', '__new__'):
                            fam_rebound.setdefault(c.name, set()).add(tgt.attr)
                    else:
                        other.add(tgt.attr)
        for t in trees:
            for fn in [n for n in ast.walk(t) if isinstance(n, (ast.FunctionDef, ast.AsyncFunctionDef)) and id(n) not in in_class]:
                for x in ast.walk(fn):
                    tgt = x if isinstance(x, ast.Attribute) and not isinstance(x.ctx, ast.Load) else (x.target if isinstance(x, ast.AugAssign) and isinstance(x.target, ast.Attribute) else None)
                    if tgt is not None and not (isinstance(tgt.value, ast.Name) and tgt.value.id == 'self' and any(fn is m for c in classes for m in ast.walk(c))):
                        other.add(tgt.attr)
        fams = {}
        for cn, attrs in fam_rebound.items():
            fams.setdefault(find(cn), set()).update(attrs)
        cls.FAMILY = {c.name: fams.get(find(c.name), set()) for c in classes}
        cls.OTHER = other

    FAMILY = {}
    OTHER = set()
    cur_class = None

    def _attr_stable(self, a, seen=(), on_self=False):
        if on_self and self.cur_class in self.FAMILY:
            if a in self.FAMILY[self.cur_class] or a in self.OTHER:
                return False
        elif a in self.REBOUND:
            return False
        if a in self.PROPS:
            und = self.PROPS[a]
            if und is None:
                return False
            return all(u == a or u in seen or self._attr_stable(u, seen + (a,)) for u in und)
        return True

    def _binding_stable(self, v):
        """The expression denotes the same value whenever it is evaluated during one call: it reads only attributes
        that are bound once (in __init__) - directly or through a property that just returns such an attribute chain -
        and does not look inside a container (in / not in)."""
        for x in ast.walk(v):
            if isinstance(x, ast.Attribute):
                if not self._attr_stable(x.attr, on_self=isinstance(x.value, ast.Name) and x.value.id == 'self'):
                    return False
            elif isinstance(x, (ast.In, ast.NotIn)):
                return False
        return True

    def run(self, tree):
        owner = {}
        for c in [n for n in ast.walk(tree) if isinstance(n, ast.ClassDef)]:
            for fn in ast.walk(c):
                if isinstance(fn, (ast.FunctionDef, ast.AsyncFunctionDef)):
                    owner.setdefault(id(fn), c.name)
        for fn in [n for n in ast.walk(tree) if isinstance(n, (ast.FunctionDef, ast.AsyncFunctionDef))]:
            self.cur_class = owner.get(id(fn))
            for _ in range(60):
                if not self._function(fn):
                    break
        return tree

    def _function(self, fn):
        import copy
        params = {a.arg for a in ast.walk(fn.args) if isinstance(a, ast.arg)}
        order = {}
        stack, i = [fn], 0
        while stack:
            n = stack.pop()
            order[id(n)] = i
            i += 1
            stack.extend(reversed(list(ast.iter_child_nodes(n))))
        stores, loads, nested = {}, {}, set()
        not_lambda_only = set()   # names captured by a nested scope other than as a plain read inside a lambda
        attr_stores = {}
        parent = {}
        for p in ast.walk(fn):
            for ch in ast.iter_child_nodes(p):
                parent[id(ch)] = p

        def scan(node, in_nested, in_lambda=False):
            for ch in ast.iter_child_nodes(node):
                nest = in_nested or isinstance(ch, (ast.FunctionDef, ast.AsyncFunctionDef, ast.Lambda, ast.ClassDef, ast.ListComp, ast.SetComp, ast.DictComp, ast.GeneratorExp))
                lam = (in_lambda or isinstance(ch, ast.Lambda)) and not isinstance(ch, (ast.FunctionDef, ast.AsyncFunctionDef, ast.ClassDef, ast.ListComp, ast.SetComp, ast.DictComp, ast.GeneratorExp)) \
                    and (in_lambda or not in_nested)
                if isinstance(ch, ast.Name):
                    if nest:
                        nested.add(ch.id)
                        if not (lam and isinstance(ch.ctx, ast.Load)):
                            not_lambda_only.add(ch.id)
                    (loads if isinstance(ch.ctx, ast.Load) else stores).setdefault(ch.id, []).append(ch)
                elif isinstance(ch, ast.Attribute) and not isinstance(ch.ctx, ast.Load):
                    attr_stores.setdefault(ch.attr, []).append(ch)
                elif isinstance(ch, (ast.Global, ast.Nonlocal)):
                    nested.update(ch.names)
                elif isinstance(ch, ast.ExceptHandler) and ch.name:
                    stores.setdefault(ch.name, []).append(ch)
                elif isinstance(ch, ast.arg) and in_nested:
                    not_lambda_only.add(ch.arg)
                scan(ch, nest, lam)
        scan(fn, False)
        lambda_only = nested - not_lambda_only

        def loops_of(n):
            out = []
            while id(n) in parent:
                n = parent[id(n)]
                if isinstance(n, (ast.For, ast.While, ast.AsyncFor)):
                    out.append(id(n))
            return out
        single = {n for n, ss in stores.items() if len(ss) == 1 and n not in params and (n not in nested or n in lambda_only)}
        barriers = []
        for x in ast.walk(fn):
            if isinstance(x, ast.Call):
                fname = x.func.id if isinstance(x.func, ast.Name) else None
                if fname in self.HARMLESS_CALLS:
                    continue
                if isinstance(x.func, ast.Attribute) and isinstance(x.func.value, ast.Name) and x.func.value.id in ('logger', 'logging', 'math', 'os.path'):
                    continue
                barriers.append(x)
            elif isinstance(x, (ast.Yield, ast.YieldFrom, ast.Await)):
                barriers.append(x)
            elif isinstance(x, (ast.Attribute, ast.Subscript)) and not isinstance(x.ctx, ast.Load):
                barriers.append(x)
        changed = False
        for name in sorted(single):
            st = parent.get(id(stores[name][0]))
            if not (isinstance(st, ast.Assign) and len(st.targets) == 1 and st.targets[0] is stores[name][0]):
                continue
            v = st.value
            if isinstance(v, (ast.Constant, ast.Name)) and not isinstance(v, ast.Name):
                continue  # plain constants keep their name (counters, sentinels)
            kwdict = None
            if isinstance(v, ast.Dict) and v.keys and all(isinstance(k, ast.Constant) and isinstance(k.value, str) for k in v.keys):
                kwdict = list(v.values)
            elif isinstance(v, ast.Call) and isinstance(v.func, ast.Name) and v.func.id == 'dict' and not v.args and v.keywords and all(k.arg for k in v.keywords):
                kwdict = [k.value for k in v.keywords]
            if kwdict is not None:
                # a keyword dictionary that is only ever unpacked (f(**name)): read-only, propagate like a pure value
                if not all(isinstance(parent.get(id(u)), ast.keyword) and parent[id(u)].arg is None for u in loads.get(name, [])):
                    continue
                if not all(isinstance(x, self.PURE) for e in kwdict for x in ast.walk(e)):
                    continue
                probe = kwdict
            else:
                if not all(isinstance(x, self.PURE) for x in ast.walk(v)):
                    continue
                probe = [v]
            dpos0 = order[id(st)]
            span = sum(1 for _ in ast.walk(st)) 
            uses0 = loads.get(name, [])
            last_use = max([order[id(u)] for u in uses0], default=dpos0)

            def stable(x):
                # the name denotes the same value at the definition and at every use: never stored, stored once, or
                # every store lies before the definition and shares no loop with a use
                if (x.id in params and x.id not in stores) or x.id in single:
                    return True
                if x.id in nested or (x.id not in params and x.id not in stores):
                    return x.id not in stores and x.id not in nested  # a global / builtin name
                for s_ in stores.get(x.id, []):
                    if order[id(s_)] > dpos0 or any(set(loops_of(s_)) & set(loops_of(u)) for u in uses0):
                        return False
                return True
            if any(isinstance(x, ast.Name) and x.id != 'dict' and not stable(x) for e in probe for x in ast.walk(e)):
                continue
            if any(isinstance(x, ast.Name) and x.id == name for x in ast.walk(v)):
                continue
            uses = loads.get(name, [])
            if not uses:
                continue
            dpos = order[id(st)]
            read_attrs = {x.attr for x in ast.walk(v) if isinstance(x, ast.Attribute)}
            ok = True
            volatile = not all(self._binding_stable(e) for e in probe) and any(isinstance(x, ast.Attribute) or isinstance(x, (ast.In, ast.NotIn)) for e in probe for x in ast.walk(e))
            if name in lambda_only and (volatile or kwdict is not None):
                continue   # read later, when the lambda runs: only a value that cannot change may be moved into it
            for u in uses:
                upos = order[id(u)]
                if upos < dpos or loops_of(u) != loops_of(st) and not set(loops_of(st)) <= set(loops_of(u)):
                    ok = False
                    break
                if volatile:
                    # the value read at the definition may have changed by the time of the use if anything ran in between:
                    # a call completed before the use (not one the use is an argument of), a yield, or any store through an
                    # attribute / subscript.  Moving the read to the use would then hide a value captured too early.
                    anc = set()
                    a_ = u
                    while id(a_) in parent:
                        a_ = parent[id(a_)]
                        anc.add(id(a_))
                    for b_ in barriers:
                        bp = order[id(b_)]
                        if dpos < bp < upos and id(b_) not in anc and not (order[id(st)] <= bp <= order[id(st)] + span):
                            ok = False
                            break
                    if not ok:
                        break
                for a in read_attrs:
                    for s_ in attr_stores.get(a, []):
                        sp = order[id(s_)]
                        if dpos < sp < upos or (set(loops_of(s_)) & set(loops_of(u))):
                            ok = False
                if isinstance(parent.get(id(u)), (ast.Attribute, ast.Subscript)) and not isinstance(parent[id(u)].ctx, ast.Load) and not isinstance(v, (ast.Name, ast.Attribute)):
                    ok = False
            if not ok:
                continue
            for u in uses:
                p = parent[id(u)]
                for f_, val in ast.iter_fields(p):
                    if val is u:
                        setattr(p, f_, copy.deepcopy(v))
                    elif isinstance(val, list):
                        for k, e in enumerate(val):
                            if e is u:
                                val[k] = copy.deepcopy(v)
            blk_owner = parent[id(st)]
            for f_ in ('body', 'orelse', 'finalbody'):
                b = getattr(blk_owner, f_, None)
                if isinstance(b, list) and st in b:
                    b.remove(st)
                    if not b:
                        b.append(ast.Pass())
            changed = True
            break  # positions / parents are stale: rescan
        return changed


class _StmtIfExp:
    """x = A if c else B   ->   if c: x = A  else: x = B          (statement level only)
    return A if c else B   ->   if c: return A  else: return B"""

    def run(self, tree):
        self._blocks(tree)
        return tree

    def _blocks(self, node):
        for f in ('body', 'orelse', 'finalbody'):
            b = getattr(node, f, None)
            if isinstance(b, list) and b and isinstance(b[0], ast.stmt):
                out = []
                for st in b:
                    self._blocks(st)
                    out.append(self._stmt(st))
                setattr(node, f, out)
        if isinstance(node, ast.Try):
            for h in node.handlers:
                self._blocks(h)

    def _stmt(self, st):
        if isinstance(st, ast.Assign) and isinstance(st.value, ast.IfExp) and len(st.targets) == 1:
            import copy
            e = st.value
            a = ast.copy_location(ast.Assign(targets=st.targets, value=e.body), st)
            b = ast.copy_location(ast.Assign(targets=[copy.deepcopy(t) for t in st.targets], value=e.orelse), st)
            return ast.copy_location(ast.If(test=e.test, body=[self._stmt(a)], orelse=[self._stmt(b)]), st)
        if isinstance(st, ast.Return) and isinstance(st.value, ast.IfExp):
            e = st.value
            a = ast.copy_location(ast.Return(value=e.body), st)
            b = ast.copy_location(ast.Return(value=e.orelse), st)
            return ast.copy_location(ast.If(test=e.test, body=[self._stmt(a)], orelse=[self._stmt(b)]), st)
        return st


class _CompToLoop:
    """x = [e for t in it if c]        ->  x = [] ; for t in it: if c: x.append(e)
    x = {k: v for t in it if c}     ->  x = {} ; for t in it: if c: x[k] = v
    return <comprehension>          ->  through a fresh local
    (statement-level list/dict comprehensions only; comprehension variables that clash with
    another name of the function are renamed)."""

    def run(self, tree):
        for fn in [n for n in ast.walk(tree) if isinstance(n, (ast.FunctionDef, ast.AsyncFunctionDef))]:
            self.names = {n.id for n in ast.walk(fn) if isinstance(n, ast.Name)} | {a.arg for a in ast.walk(fn) if isinstance(a, ast.arg)}
            self.fn = fn
            self._blocks(fn)
        return tree

    def _blocks(self, node):
        for f in ('body', 'orelse', 'finalbody'):
            b = getattr(node, f, None)
            if isinstance(b, list) and b and isinstance(b[0], ast.stmt):
                out = []
                for st in b:
                    if not isinstance(st, (ast.FunctionDef, ast.AsyncFunctionDef, ast.ClassDef)):
                        self._blocks(st)
                    out.extend(self._stmt(st))
                setattr(node, f, out)
        if isinstance(node, ast.Try):
            for h in node.handlers:
                self._blocks(h)

    def _fresh(self, base):
        n = base
        while n in self.names:
            n += '_c'
        self.names.add(n)
        return n

    def _stmt(self, st):
        comp, target = None, None
        if isinstance(st, ast.Assign) and len(st.targets) == 1 and isinstance(st.targets[0], ast.Name) and isinstance(st.value, (ast.ListComp, ast.DictComp)):
            comp, target = st.value, st.targets[0].id
        elif isinstance(st, ast.Return) and isinstance(st.value, (ast.ListComp, ast.DictComp)):
            comp, target = st.value, self._fresh('result')
        if comp is None or any(g.is_async for g in comp.generators):
            return [st]
        # the target must not be read inside the comprehension (x = [f(x) for ...])
        if any(isinstance(n, ast.Name) and n.id == target for n in ast.walk(comp)):
            return [st]
        # comprehension variables: rename when they clash with any other use in the function
        cvars = {n.id for g in comp.generators for n in ast.walk(g.target) if isinstance(n, ast.Name)}
        outside = set()
        inside = {id(n) for n in ast.walk(comp)}
        for n in ast.walk(self.fn):
            if id(n) not in inside:
                if isinstance(n, ast.Name):
                    outside.add(n.id)
                elif isinstance(n, ast.arg):
                    outside.add(n.arg)
        ren = {v: self._fresh(v + '_c') for v in cvars if v in outside}
        if ren:
            for n in ast.walk(comp):
                if isinstance(n, ast.Name) and n.id in ren:
                    n.id = ren[n.id]
        tgt_load = lambda: ast.Name(id=target, ctx=ast.Load())
        if isinstance(comp, ast.ListComp):
            init = ast.List(elts=[], ctx=ast.Load())
            inner = ast.Expr(value=ast.Call(func=ast.Attribute(value=tgt_load(), attr='append', ctx=ast.Load()), args=[comp.elt], keywords=[]))
        else:
            init = ast.Dict(keys=[], values=[])
            inner = ast.Assign(targets=[ast.Subscript(value=tgt_load(), slice=comp.key, ctx=ast.Store())], value=comp.value)
        body = inner
        for g in reversed(comp.generators):
            for c in reversed(g.ifs):
                body = ast.If(test=c, body=[body], orelse=[])
            # flatten if a and b chains are left as nested ifs
            for n in ast.walk(g.target):
                if hasattr(n, 'ctx'):
                    n.ctx = ast.Store()
            body = ast.For(target=g.target, iter=g.iter, body=[body], orelse=[])
        out = [ast.Assign(targets=[ast.Name(id=target, ctx=ast.Store())], value=init), body]
        if isinstance(st, ast.Return):
            out.append(ast.Return(value=tgt_load()))
        for o in out:
            ast.copy_location(o, st)
            for n in ast.walk(o):
                if not hasattr(n, 'lineno') and isinstance(n, (ast.stmt, ast.expr)):
                    ast.copy_location(n, st)
        return out


def _as_load(t):
    import copy
    t2 = copy.deepcopy(t)
    for n in ast.walk(t2):
        if hasattr(n, 'ctx'):
            n.ctx = ast.Load()
    return t2


class _ListOps:
    """L.extend(X) as a statement  ->  L += X     for a local L that is only ever bound to list displays / list(...) in its
    function (for a list the two are the same operation); the package's own spelling is the augmented assignment."""

    def run(self, tree):
        for fn in [n for n in ast.walk(tree) if isinstance(n, (ast.FunctionDef, ast.AsyncFunctionDef))]:
            lists, other = set(), set()
            for n in ast.walk(fn):
                if isinstance(n, ast.Assign):
                    for t in n.targets:
                        if isinstance(t, ast.Name):
                            is_list = isinstance(n.value, (ast.List, ast.ListComp)) or (isinstance(n.value, ast.Call) and isinstance(n.value.func, ast.Name) and n.value.func.id == 'list')
                            (lists if is_list else other).add(t.id)
                        else:
                            for x in ast.walk(t):
                                if isinstance(x, ast.Name):
                                    other.add(x.id)
                elif isinstance(n, (ast.For, ast.AsyncFor, ast.comprehension)):
                    for x in ast.walk(n.target):
                        if isinstance(x, ast.Name):
                            other.add(x.id)
                elif isinstance(n, ast.arg):
                    other.add(n.arg)
            ok = lists - other
            if not ok:
                continue
            for n in ast.walk(fn):
                for f in ('body', 'orelse', 'finalbody'):
                    b = getattr(n, f, None)
                    if not (isinstance(b, list) and b and isinstance(b[0], ast.stmt)):
                        continue
                    for i, st in enumerate(b):
                        if isinstance(st, ast.Expr) and isinstance(st.value, ast.Call) and isinstance(st.value.func, ast.Attribute) and st.value.func.attr == 'extend' \
                                and isinstance(st.value.func.value, ast.Name) and st.value.func.value.id in ok and len(st.value.args) == 1 and not st.value.keywords:
                            b[i] = ast.copy_location(ast.AugAssign(target=ast.Name(id=st.value.func.value.id, ctx=ast.Store()), op=ast.Add(), value=st.value.args[0]), st)
        return tree


class _ClosureToContainer:
    """def h(): return f(a, b, k=c)      ->   h = FunctionContainer(f, a, b, k=c)
    for a nested parameterless function whose body is that one call, where f is a name or self.<method> and every argument
    is a constant or a name of the enclosing function that is not assigned again after the definition (so binding the
    values now or when h() runs is the same).  The package's spelling of "call this later" is the canonical one."""

    def run(self, tree):
        for fn in [n for n in ast.walk(tree) if isinstance(n, (ast.FunctionDef, ast.AsyncFunctionDef))]:
            for n in ast.walk(fn):
                for f in ('body', 'orelse', 'finalbody'):
                    b = getattr(n, f, None)
                    if not (isinstance(b, list) and b and isinstance(b[0], ast.stmt)):
                        continue
                    for i, st in enumerate(b):
                        if not (isinstance(st, ast.FunctionDef) and st is not fn and not st.decorator_list):
                            continue
                        a = st.args
                        if a.args or a.posonlyargs or a.kwonlyargs or a.vararg or a.kwarg:
                            continue
                        body = [x for x in st.body if not (isinstance(x, ast.Expr) and isinstance(x.value, ast.Constant))]
                        if len(body) != 1 or not isinstance(body[0], (ast.Return, ast.Expr)) or not isinstance(body[0].value, ast.Call):
                            continue
                        c = body[0].value
                        fx = c.func
                        if not (isinstance(fx, ast.Name) or (isinstance(fx, ast.Attribute) and isinstance(fx.value, ast.Name) and fx.value.id == 'self')):
                            continue
                        vals = list(c.args) + [k.value for k in c.keywords]
                        if any(k.arg is None for k in c.keywords) or not all(isinstance(v, (ast.Name, ast.Constant)) for v in vals):
                            continue
                        free = {v.id for v in vals if isinstance(v, ast.Name)} | ({fx.id} if isinstance(fx, ast.Name) else set())
                        pos = (st.lineno, st.col_offset)
                        later_store = any(isinstance(x, ast.Name) and not isinstance(x.ctx, ast.Load) and x.id in free and hasattr(x, 'lineno')
                                          and (x.lineno, x.col_offset) > pos and not any(x is y for y in ast.walk(st)) for x in ast.walk(fn))
                        in_loop = any(isinstance(l, (ast.For, ast.While)) and any(st is y for y in ast.walk(l)) for l in ast.walk(fn))
                        if later_store or in_loop:
                            continue
                        call = ast.Call(func=ast.Name(id='FunctionContainer', ctx=ast.Load()), args=[fx] + list(c.args), keywords=list(c.keywords))
                        b[i] = ast.copy_location(ast.Assign(targets=[ast.Name(id=st.name, ctx=ast.Store())], value=call), st)
                        ast.fix_missing_locations(b[i])
        return tree


class _UnrollLiteralLoops:
    """for x in (a, b, c): BODY   ->   BODY[x:=a] ; BODY[x:=b] ; BODY[x:=c]
    for a display (or a local bound once to a display and used only as this loop's iterable) of at most six elements that
    are constants, names or attribute chains bound once (so reading them when the tuple is built or when the body runs is
    the same); the body has no break / continue, the loop no else, and the target is a plain name not read after the loop."""

    def run(self, tree):
        import copy
        pl = _PureLocals()
        owner = {}
        for c in [n for n in ast.walk(tree) if isinstance(n, ast.ClassDef)]:
            for fn in ast.walk(c):
                if isinstance(fn, (ast.FunctionDef, ast.AsyncFunctionDef)):
                    owner.setdefault(id(fn), c.name)
        for fn in [n for n in ast.walk(tree) if isinstance(n, (ast.FunctionDef, ast.AsyncFunctionDef))]:
            pl.cur_class = owner.get(id(fn))
            stores, loads = {}, {}
            for n in ast.walk(fn):
                if isinstance(n, ast.Name):
                    d = loads if isinstance(n.ctx, ast.Load) else stores
                    d[n.id] = d.get(n.id, 0) + 1
            for n in ast.walk(fn):
                for f in ('body', 'orelse', 'finalbody'):
                    b = getattr(n, f, None)
                    if not (isinstance(b, list) and b and isinstance(b[0], ast.stmt)):
                        continue
                    i = 0
                    while i < len(b):
                        st = b[i]
                        disp, drop = None, None
                        if isinstance(st, ast.For) and isinstance(st.target, ast.Name) and not st.orelse:
                            if isinstance(st.iter, (ast.Tuple, ast.List)):
                                disp = st.iter
                            elif isinstance(st.iter, ast.Name) and i > 0 and stores.get(st.iter.id) == 1 and loads.get(st.iter.id) == 1:
                                prev = b[i - 1]
                                if isinstance(prev, ast.Assign) and len(prev.targets) == 1 and isinstance(prev.targets[0], ast.Name) and prev.targets[0].id == st.iter.id \
                                        and isinstance(prev.value, (ast.Tuple, ast.List)):
                                    disp, drop = prev.value, i - 1
                        if disp is None or not (1 <= len(disp.elts) <= 6):
                            i += 1
                            continue
                        simple = all(isinstance(e, (ast.Constant, ast.Name)) or (isinstance(e, ast.Attribute) and pl._binding_stable(e)
                                                                                 and all(isinstance(x, (ast.Attribute, ast.Name, ast.expr_context)) for x in ast.walk(e)))
                                     for e in disp.elts)
                        t = st.target.id
                        bad = any(isinstance(x, (ast.Break, ast.Continue, ast.FunctionDef, ast.Lambda)) for s_ in st.body for x in ast.walk(s_)) \
                            or any(isinstance(x, ast.Name) and x.id == t and not isinstance(x.ctx, ast.Load) for s_ in st.body for x in ast.walk(s_))
                        used_after = any(isinstance(x, ast.Name) and x.id == t and hasattr(x, 'lineno') and (x.lineno, x.col_offset) > (st.end_lineno or st.lineno, st.end_col_offset or 0)
                                         for x in ast.walk(fn)) or stores.get(t, 0) != 1
                        if not simple or bad or used_after:
                            i += 1
                            continue
                        out = []
                        for e in disp.elts:
                            class S(ast.NodeTransformer):
                                def visit_Name(self, node, e=e):
                                    return copy.deepcopy(e) if node.id == t and isinstance(node.ctx, ast.Load) else node
                            out += [S().visit(copy.deepcopy(s_)) for s_ in st.body]
                        for o in out:
                            ast.fix_missing_locations(ast.copy_location(o, st))
                        if drop is not None:
                            b[drop:i + 1] = out
                            i = drop + len(out)
                        else:
                            b[i:i + 1] = out
                            i += len(out)
        return tree


class _SplitTupleAssign:
    """a, b = X, Y   ->   a = X ; b = Y      when all targets are plain names, none of them occurs in X or Y, and X, Y are free of
    calls except in the last position (evaluation order of effects is kept: X is evaluated before Y either way, stores happen after)."""

    def run(self, tree):
        for n in ast.walk(tree):
            for f in ('body', 'orelse', 'finalbody'):
                b = getattr(n, f, None)
                if not (isinstance(b, list) and b and isinstance(b[0], ast.stmt)):
                    continue
                i = 0
                while i < len(b):
                    st = b[i]
                    if isinstance(st, ast.Assign) and len(st.targets) == 1 and isinstance(st.targets[0], ast.Tuple) and isinstance(st.value, ast.Tuple) \
                            and len(st.targets[0].elts) == len(st.value.elts) and all(isinstance(t, ast.Name) for t in st.targets[0].elts):
                        names = {t.id for t in st.targets[0].elts}
                        used = {x.id for v in st.value.elts for x in ast.walk(v) if isinstance(x, ast.Name)}
                        if not (names & used):
                            new = [ast.copy_location(ast.Assign(targets=[t], value=v), st) for t, v in zip(st.targets[0].elts, st.value.elts)]
                            b[i:i + 1] = new
                            i += len(new)
                            continue
                    i += 1
        return tree


class _StoreThroughTemp:
    """t = E(self.a) ; self.a = t   ->   self.a = E(self.a) ; t = self.a       (t a local stored once in its function)
    The attribute is updated through a temporary that is then used in its place; afterwards the pure-local propagation
    reads `t` as `self.a` wherever nothing can have changed the attribute in between, and `self.a = self.a + 1` is the
    augmented assignment again."""

    def run(self, tree):
        for fn in [n for n in ast.walk(tree) if isinstance(n, (ast.FunctionDef, ast.AsyncFunctionDef))]:
            stores = {}
            for n in ast.walk(fn):
                if isinstance(n, ast.Name) and not isinstance(n.ctx, ast.Load):
                    stores[n.id] = stores.get(n.id, 0) + 1
            for n in ast.walk(fn):
                for f in ('body', 'orelse', 'finalbody'):
                    b = getattr(n, f, None)
                    if not (isinstance(b, list) and b and isinstance(b[0], ast.stmt)):
                        continue
                    for i in range(len(b) - 1):
                        s1, s2 = b[i], b[i + 1]
                        if isinstance(s1, ast.Assign) and len(s1.targets) == 1 and isinstance(s1.targets[0], ast.Name) and stores.get(s1.targets[0].id) == 1 \
                                and isinstance(s2, ast.Assign) and len(s2.targets) == 1 and isinstance(s2.targets[0], ast.Attribute) \
                                and isinstance(s2.targets[0].value, ast.Name) and s2.targets[0].value.id == 'self' \
                                and isinstance(s2.value, ast.Name) and s2.value.id == s1.targets[0].id \
                                and not any(isinstance(x, ast.Name) and x.id == s1.targets[0].id for x in ast.walk(s1.value)) \
                                and any(isinstance(x, ast.Attribute) and x.attr == s2.targets[0].attr and isinstance(x.value, ast.Name) and x.value.id == 'self'
                                        for x in ast.walk(s1.value)):
                            # (a read-modify-write of the attribute through a temporary: E itself reads self.a)
                            attr_load = ast.Attribute(value=ast.Name(id='self', ctx=ast.Load()), attr=s2.targets[0].attr, ctx=ast.Load())
                            b[i] = ast.copy_location(ast.Assign(targets=[s2.targets[0]], value=s1.value), s1)
                            b[i + 1] = ast.copy_location(ast.Assign(targets=[s1.targets[0]], value=attr_load), s2)
                            ast.fix_missing_locations(b[i])
                            ast.fix_missing_locations(b[i + 1])
        return tree


def canonicalise(tree):
    if isinstance(tree, ast.Module):
        tree = _ListOps().run(tree)
        tree = _ClosureToContainer().run(tree)
        tree = _UnrollLiteralLoops().run(tree)
        tree = _StoreThroughTemp().run(tree)
        tree = _PureLocals().run(tree)
        tree = _SplitTupleAssign().run(tree)
        tree = _StmtIfExp().run(tree)
        tree = _CompToLoop().run(tree)
        tree = _ForwardSubst().run(tree)
    tree = _Canon().visit(tree)
    ast.fix_missing_locations(tree)
    return tree


def canon_text(text):
    """Canonical normalised text of an expression given as source text (for comparing
    against norm() of analysed code, which is canonicalised on load)."""
    return ast.unparse(canonicalise(ast.parse(text, mode='eval')).body)


class Module:
    def __init__(self, name, path, source, tree=None):
        self.name = name  # short name: 'futures', '__init__'
        self.path = path  # path relative to repo: s3transfer/futures.py
        self.source = source
        self.tree = canonicalise(tree if tree is not None else ast.parse(source, filename=path))
        self.imports = {}  # local name -> (module short name or external dotted, attr or None)
        self.classes = {}
        self.functions = {}
        self.consts = {}  # module-level NAME -> expr node
        # Load()/Store()/operator nodes are process-wide singletons in CPython: never annotate them
        singletons = (ast.expr_context, ast.operator, ast.boolop, ast.unaryop, ast.cmpop)
        for parent in ast.walk(self.tree):
            for child in ast.iter_child_nodes(parent):
                if not isinstance(child, singletons):
                    child._parent = parent
        self.tree._parent = None
        for n in ast.walk(self.tree):
            if not isinstance(n, singletons):
                n._module = self
        # source-order position (pre-order index): line numbers are not an order after de-extraction
        stack, i = [self.tree], 0
        while stack:
            n = stack.pop()
            if isinstance(n, singletons):
                continue
            n._pos = i
            i += 1
            stack.extend(reversed(list(ast.iter_child_nodes(n))))


class ClassInfo:
    def __init__(self, module, node, outer=None):
        self.module = module
        self.node = node
        self.name = node.name
        self.qualname = f'{module.name}.{node.name}'
        self.methods = {}
        self.attrs = {}  # class-level NAME -> expr
        self.base_exprs = list(node.bases)
        self.bases = []  # resolved ClassInfo (package) only
        self.external_bases = []  # dotted names of non-package bases
        self.subclasses = []
        self.init_attrs = {}  # self.X -> [expr,...] assigned anywhere in methods

    def mro(self):
        # C3 is not needed for this package (single inheritance + object);
        # fall back to depth-first left-to-right without duplicates.
        out = [self]
        for b in self.bases:
            for c in b.mro():
                if c not in out:
                    out.append(c)
        return out

    def lookup(self, name):
        """Method lookup through the MRO -> FuncInfo or None."""
        for c in self.mro():
            if name in c.methods:
                return c.methods[name]
        return None

    def lookup_attr(self, name):
        for c in self.mro():
            if name in c.attrs:
                return c, c.attrs[name]
        return None, None

    def all_subclasses(self):
        out = []
        for s in self.subclasses:
            if s not in out:
                out.append(s)
            for t in s.all_subclasses():
                if t not in out:
                    out.append(t)
        return out

    def is_subclass_of(self, other):
        return other in self.mro()

    def __repr__(self):
        return f'<class {self.qualname}>'


class FuncInfo:
    def __init__(self, module, node, cls=None, outer=None):
        self.module = module
        self.node = node
        self.cls = cls
        self.outer = outer
        self.name = node.name
        if outer is not None:
            self.qualname = f'{outer.qualname}.<locals>.{node.name}'
        elif cls is not None:
            self.qualname = f'{cls.qualname}.{node.name}'
        else:
            self.qualname = f'{module.name}.{node.name}'
        a = node.args
        self.params = [x.arg for x in a.posonlyargs + a.args]
        self.kwonly = [x.arg for x in a.kwonlyargs]
        self.vararg = a.vararg.arg if a.vararg else None
        self.kwarg = a.kwarg.arg if a.kwarg else None
        self.decorators = [norm(d) for d in node.decorator_list]
        node._func = self

    @property
    def is_method(self):
        return self.cls is not None and self.outer is None

    @property
    def is_static(self):
        return 'staticmethod' in self.decorators

    def bound_params(self):
        """Positional parameters as seen by a caller of a bound method."""
        if self.is_method and not self.is_static and self.params:
            return self.params[1:]
        return list(self.params)

    def defaults_map(self):
        a = self.node.args
        pos = a.posonlyargs + a.args
        out = {}
        for p, d in zip(pos[len(pos) - len(a.defaults):], a.defaults):
            out[p.arg] = d
        for p, d in zip(a.kwonlyargs, a.kw_defaults):
            if d is not None:
                out[p.arg] = d
        return out

    def loc(self, node=None):
        node = node if node is not None else self.node
        return f'{self.module.path}:{getattr(node, "lineno", 0)}'

    def __repr__(self):
        return f'<func {self.qualname}>'


def own_nodes(fnode):
    """Walk a function body without descending into nested defs/lambdas/classes."""
    # pre-order, in source order
    stack = list(reversed(list(ast.iter_child_nodes(fnode))))
    while stack:
        n = stack.pop()
        yield n
        if isinstance(n, (ast.FunctionDef, ast.AsyncFunctionDef, ast.Lambda, ast.ClassDef)):
            continue
        stack.extend(reversed(list(ast.iter_child_nodes(n))))


def own_calls(fnode):
    out = [n for n in own_nodes(fnode) if isinstance(n, ast.Call)]
    out.sort(key=lambda c: getattr(c, '_pos', 0))
    return out


def enclosing_func(node):
    p = getattr(node, '_parent', None)
    while p is not None:
        if isinstance(p, (ast.FunctionDef, ast.AsyncFunctionDef)):
            return p._func
        p = getattr(p, '_parent', None)
    return None


def enclosing_stmt(node):
    p = node
    while p is not None and not isinstance(p, ast.stmt):
        p = getattr(p, '_parent', None)
    return p


def ancestors(node):
    p = getattr(node, '_parent', None)
    while p is not None:
        yield p
        p = getattr(p, '_parent', None)


def dotted(expr):
    """'a.b.c' for Name/Attribute chains, else None."""
    parts = []
    while isinstance(expr, ast.Attribute):
        parts.append(expr.attr)
        expr = expr.value
    if isinstance(expr, ast.Name):
        parts.append(expr.id)
        return '.'.join(reversed(parts))
    if isinstance(expr, ast.Call) and isinstance(expr.func, ast.Name) and expr.func.id == 'super' and parts:
        parts.append('super()')
        return '.'.join(reversed(parts))
    return None


def kwarg(call, name):
    for k in call.keywords:
        if k.arg == name:
            return k.value
    return None


class Program:
    def __init__(self, sources, repo='/repo', inline='unknown'):
        """sources: dict relpath -> source text (relpath like s3transfer/futures.py)."""
        self.repo = repo
        self.sources = sources
        self.inline_mode = inline
        self.modules = {}
        self.classes = {}  # qualname -> ClassInfo
        self.classes_by_name = {}  # bare -> [ClassInfo]
        self.functions = {}  # qualname -> FuncInfo
        self.digest = hashlib.sha256()
        trees, rels = {}, {}
        for rel in sorted(sources):
            src = sources[rel]
            self.digest.update(rel.encode() + b'\0' + src.encode() + b'\0')
            name = os.path.splitext(os.path.basename(rel))[0]
            try:
                trees[name] = ast.parse(src, filename=rel)
            except SyntaxError as e:
                raise AnalysisError(f'cannot parse {rel}: {e}')
            rels[name] = rel
        # de-renaming of private attributes/methods, then de-extraction of helpers that are
        # not in the frozen function inventory
        from .inline import Inliner
        from .rename import derename
        self.rename_notes = derename(trees)
        self.inliner = Inliner(trees, inline)
        self.inliner.run()
        _PureLocals.collect(trees.values())
        for name, rel in rels.items():
            self.modules[name] = Module(name, rel, sources[rel], trees[name])
        for m in self.modules.values():
            self._index_module(m)
        self._link_classes()
        self._collect_self_attrs()
        self._normalise_calls()

    def _normalise_calls(self):
        """Argument normal form for calls that resolve to exactly one package function: parameters
        without a default are passed positionally, parameters with a default by keyword (the
        package's own convention) - so `f(a, b)`, `f(a=a, b=b)` and `g(x, True)` / `g(x, flag=True)`
        read the same.  Calls with * / ** arguments, calls to functions taking *args, and calls
        that bind a parameter twice or not at all are left alone."""
        from .resolve import Resolver
        sh = self.__dict__.setdefault('_shared', {})
        r = sh.setdefault('resolver', Resolver(self))
        self.call_notes = 0
        for f in list(self.functions.values()):
            for c in [n for n in own_nodes(f.node) if isinstance(n, ast.Call)]:
                if any(isinstance(a, ast.Starred) for a in c.args) or any(k.arg is None for k in c.keywords):
                    continue
                try:
                    res = r.resolve(c, f, _count=False)
                except Exception:
                    continue
                if res.kind != 'package' or len(res.targets) != 1:
                    continue
                t = res.targets[0]
                if t.vararg or t.node.args.posonlyargs or t.node.args.kwarg is not None and any(k.arg not in t.params + t.kwonly for k in c.keywords):
                    continue
                params = list(t.params)
                if t.cls is not None and t.outer is None and not t.is_static and params:
                    # bound call (self.m(..), obj.m(..), Class(..)) drops the first parameter; Class.m(obj, ..) does not
                    unbound = isinstance(c.func, ast.Attribute) and isinstance(c.func.value, ast.Name) and c.func.value.id in self.classes_by_name \
                        and t.name != '__init__' and 'classmethod' not in t.decorators
                    if not unbound:
                        params = params[1:]
                dm = t.defaults_map()
                if len(c.args) > len(params):
                    continue
                bound = {}
                ok = True
                for p_, a in zip(params, c.args):
                    bound[p_] = a
                for k in c.keywords:
                    if k.arg in bound or k.arg not in params + t.kwonly:
                        ok = False
                        break
                    bound[k.arg] = k.value
                if not ok:
                    continue
                new_args, new_kw = [], []
                gap = False
                for p_ in params:
                    if p_ not in bound:
                        gap = True
                        continue
                    if p_ in dm or gap:
                        new_kw.append((p_, bound[p_]))
                    else:
                        new_args.append(bound[p_])
                for p_ in t.kwonly:
                    if p_ in bound:
                        new_kw.append((p_, bound[p_]))
                old_kw = {k.arg: k for k in c.keywords}
                kws = []
                for name, v in sorted(new_kw):
                    k = old_kw.get(name)
                    if k is None:
                        k = ast.keyword(arg=name, value=v)
                        ast.copy_location(k, v)
                        k._parent, k._module, k._pos = c, getattr(c, '_module', None), getattr(v, '_pos', 0)
                    kws.append(k)
                if [id(a) for a in new_args] != [id(a) for a in c.args] or [k.arg for k in kws] != [k.arg for k in c.keywords]:
                    self.call_notes += 1
                    c.args, c.keywords = new_args, kws
                    for a in new_args:
                        a._parent = c
                    for k in kws:
                        k.value._parent = k

    def expanded(self):
        """The fully expanded view: same sources, every private non-overridden same-class
        helper inlined into its callers (definitions kept)."""
        sh = self.__dict__.setdefault('_shared', {})
        if 'expanded' not in sh:
            sh['expanded'] = Program(self.sources, self.repo, inline='all')
        return sh['expanded']

    # -- loading ---------------------------------------------------------
    @classmethod
    def load(cls, repo='/repo'):
        return cls(read_sources(repo), repo)

    def _index_module(self, m):
        for st in m.tree.body:
            self._index_stmt(m, st)
        # imports anywhere at module level incl. try/except fallbacks
        for st in ast.walk(m.tree):
            if isinstance(st, ast.ImportFrom):
                mod = st.module or ''
                for a in st.names:
                    local = a.asname or a.name
                    if mod == PKG:
                        m.imports.setdefault(local, (a.name, None))
                    elif mod.startswith(PKG + '.'):
                        m.imports.setdefault(local, (mod[len(PKG) + 1:], a.name))
                    else:
                        m.imports.setdefault(local, ('ext:' + mod, a.name))
            elif isinstance(st, ast.Import):
                for a in st.names:
                    local = a.asname or a.name.split('.')[0]
                    if a.name == PKG or a.name.startswith(PKG + '.'):
                        m.imports.setdefault(local, ('pkg:' + a.name, None))
                    else:
                        m.imports.setdefault(local, ('ext:' + a.name, None))

    def _index_stmt(self, m, st):
        if isinstance(st, ast.ClassDef):
            self._index_class(m, st)
        elif isinstance(st, (ast.FunctionDef, ast.AsyncFunctionDef)):
            f = FuncInfo(m, st)
            m.functions[st.name] = f
            self.functions[f.qualname] = f
            self._index_nested(m, f)
        elif isinstance(st, ast.Assign):
            for t in st.targets:
                if isinstance(t, ast.Name):
                    m.consts[t.id] = st.value
        elif isinstance(st, ast.AnnAssign) and isinstance(st.target, ast.Name) and st.value is not None:
            m.consts[st.target.id] = st.value
        elif isinstance(st, (ast.If, ast.Try)):
            for sub in ast.iter_child_nodes(st):
                if isinstance(sub, ast.stmt):
                    self._index_stmt(m, sub)
                elif isinstance(sub, ast.ExceptHandler):
                    for s2 in sub.body:
                        self._index_stmt(m, s2)

    def _index_class(self, m, node):
        c = ClassInfo(m, node)
        m.classes[c.name] = c
        self.classes[c.qualname] = c
        self.classes_by_name.setdefault(c.name, []).append(c)
        node._class = c
        for st in node.body:
            if isinstance(st, (ast.FunctionDef, ast.AsyncFunctionDef)):
                f = FuncInfo(m, st, cls=c)
                # property setter redefinitions: keep the first (getter) under
                # the name, index setters under name.setter
                key = st.name
                if key in c.methods:
                    key = st.name + '.setter'
                    f.qualname = f.qualname + '.setter'
                c.methods[key] = f
                self.functions[f.qualname] = f
                self._index_nested(m, f)
            elif isinstance(st, ast.Assign):
                for t in st.targets:
                    if isinstance(t, ast.Name):
                        c.attrs[t.id] = st.value
            elif isinstance(st, ast.ClassDef):
                self._index_class(m, st)

    def _index_nested(self, m, outer):
        for n in own_nodes(outer.node):
            if isinstance(n, (ast.FunctionDef, ast.AsyncFunctionDef)):
                f = FuncInfo(m, n, cls=outer.cls, outer=outer)
                self.functions[f.qualname] = f
                self._index_nested(m, f)

    def _link_classes(self):
        for c in self.classes.values():
            for b in c.base_exprs:
                target = self.resolve_name_expr(c.module, b)
                if isinstance(target, ClassInfo):
                    c.bases.append(target)
                    target.subclasses.append(c)
                else:
                    c.external_bases.append(dotted(b) or norm(b))

    def _collect_self_attrs(self):
        for c in self.classes.values():
            for f in c.methods.values():
                for n in own_nodes(f.node):
                    tgts = []
                    if isinstance(n, ast.Assign):
                        tgts = [(t, n.value) for t in n.targets]
                    elif isinstance(n, ast.AnnAssign) and n.value is not None:
                        tgts = [(n.target, n.value)]
                    for t, v in tgts:
                        if isinstance(t, ast.Attribute) and isinstance(t.value, ast.Name) and t.value.id == 'self':
                            c.init_attrs.setdefault(t.attr, []).append((f, v))

    # -- name resolution -----------------------------------------------------
    def resolve_name_expr(self, module, expr):
        """Resolve Name / pkgmodule.Attr to ClassInfo / FuncInfo / ('const', mod, expr) / None."""
        if isinstance(expr, ast.Name):
            return self.resolve_global(module, expr.id)
        if isinstance(expr, ast.Attribute):
            d = dotted(expr)
            if d and d.startswith(PKG + '.'):
                parts = d.split('.')
                if len(parts) == 3 and parts[1] in self.modules:
                    return self.resolve_global(self.modules[parts[1]], parts[2])
            base = self.resolve_name_expr(module, expr.value) if isinstance(expr.value, (ast.Name, ast.Attribute)) else None
            if isinstance(base, ClassInfo):
                f = base.lookup(expr.attr)
                if f is not None:
                    return f
                owner, v = base.lookup_attr(expr.attr)
                if v is not None:
                    return ('const', owner.module, v)
        return None

    def resolve_global(self, module, name, _depth=0):
        if name in module.classes:
            return module.classes[name]
        if name in module.functions:
            return module.functions[name]
        if name in module.consts:
            return ('const', module, module.consts[name])
        if name in module.imports and _depth < 6:
            mod, attr = module.imports[name]
            if mod in self.modules and attr is not None:
                return self.resolve_global(self.modules[mod], attr, _depth + 1)
            if mod in self.modules and attr is None:
                return ('module', self.modules[mod])
            if mod == '__init__' and attr is None:
                return ('module', self.modules['__init__'])
            return ('external', mod[4:] if mod.startswith('ext:') else mod, attr)
        return None

    # -- lookups used by rules -----------------------------------------------
    def func(self, qualname):
        f = self.functions.get(qualname)
        if f is None:
            raise AnalysisError(f'anchor function vanished: {qualname}')
        return f

    def cls(self, qualname):
        c = self.classes.get(qualname)
        if c is None:
            raise AnalysisError(f'anchor class vanished: {qualname}')
        return c

    def has_func(self, qualname):
        return qualname in self.functions

    def all_functions(self):
        return list(self.functions.values())


def read_sources(repo='/repo'):
    d = os.path.join(repo, PKG)
    if not os.path.isdir(d):
        raise AnalysisError(f'{d} is not a directory')
    out = {}
    for fn in sorted(os.listdir(d)):
        if fn.endswith('.py'):
            with open(os.path.join(d, fn), encoding='utf-8') as fh:
                out[f'{PKG}/{fn}'] = fh.read()
    if len(out) < 10:
        raise AnalysisError(f'only {len(out)} modules found under {d}')
    return out
