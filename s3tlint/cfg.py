"""Statement-level control-flow graph for one function, with exception edges.

Nodes evaluate one AST piece each (a simple statement, an ``if``/``while`` test,
a ``for`` iterator, a ``with`` enter / exit, an ``except`` clause).  ``finally``
bodies and ``with`` exits are *copied* per way of reaching them (normal,
exception, return, break, continue) so that a path that enters a finally
normally cannot leave it exceptionally.

Edge labels: 'n' normal, 't'/'f' branch outcome, 'exc' exception,
'ret'/'brk'/'cnt' jumps routed through finally copies.
"""

import ast

from .ir import AnalysisError, own_nodes

SIMPLE = (ast.Assign, ast.AugAssign, ast.AnnAssign, ast.Expr, ast.Pass, ast.Delete,
          ast.Global, ast.Nonlocal, ast.Import, ast.ImportFrom, ast.Assert)


class Node:
    __slots__ = ('id', 'kind', 'ast', 'stmt', 'copy')

    def __init__(self, id, kind, astnode=None, stmt=None, copy='n'):
        self.id = id
        self.kind = kind  # entry exit raise stmt if while for with with_exit handler join
        self.ast = astnode  # the piece evaluated at this node
        self.stmt = stmt  # owning statement
        self.copy = copy  # which copy of a finally/with_exit region

    @property
    def line(self):
        return getattr(self.ast, 'lineno', getattr(self.stmt, 'lineno', 0))

    def __repr__(self):
        from .ir import short
        return f'<{self.id}:{self.kind}:{self.line}:{short(self.ast, 40) if self.ast is not None else ""}>'


def _contains_call(node):
    for n in ast.walk(node):
        if isinstance(n, (ast.Call, ast.Await, ast.Yield, ast.YieldFrom)):
            return True
    return False


def default_may_raise(node):
    if isinstance(node.ast, (ast.Raise, ast.Assert)):
        return True
    if node.kind in ('with',):
        return True
    if node.ast is None:
        return False
    if node.kind == 'handler':
        return False
    return _contains_call(node.ast)


CATCH_ALL = {'Exception', 'BaseException'}


def handler_names(h):
    if h.type is None:
        return ['<bare>']
    t = h.type
    elts = t.elts if isinstance(t, ast.Tuple) else [t]
    out = []
    for e in elts:
        try:
            out.append(ast.unparse(e))
        except Exception:
            out.append('?')
    return out


def handler_is_catch_all(h, base_only=False):
    names = handler_names(h)
    if '<bare>' in names or 'BaseException' in names:
        return True
    return (not base_only) and 'Exception' in names


class CFG:
    def __init__(self, fnode, may_raise=default_may_raise):
        self.fnode = fnode
        self.nodes = []
        self.succ = {}
        self.pred = {}
        self._may_raise = may_raise
        self.entry = self._new('entry')
        self.exit = self._new('exit')
        self.rexit = self._new('raise')
        self._fin_cache = {}
        frames = []
        ends = self._block(fnode.body, [(self.entry, 'n')], frames)
        self._connect(ends, self.exit)
        self._by_ast = {}
        for n in self.nodes:
            if n.ast is not None:
                self._by_ast.setdefault(id(n.ast), []).append(n)

    # -- construction ------------------------------------------------------
    def _new(self, kind, astnode=None, stmt=None, copy='n'):
        n = Node(len(self.nodes), kind, astnode, stmt, copy)
        self.nodes.append(n)
        self.succ[n] = []
        self.pred[n] = []
        return n

    def _edge(self, a, b, label):
        if (b, label) not in self.succ[a]:
            self.succ[a].append((b, label))
            self.pred[b].append((a, label))

    def _connect(self, ends, node):
        for a, label in ends:
            self._edge(a, node, label)

    def _block(self, stmts, ends, frames, copy='n'):
        for st in stmts:
            ends = self._stmt(st, ends, frames, copy)
        return ends

    def _raise_from(self, node, frames, copy):
        self._route([(node, 'exc')], 'exc', None, frames, copy)

    def _route(self, ends, kind, target, frames, copy):
        """Route a jump (exc / ret / brk / cnt) outward through the frames."""
        i = len(frames) - 1
        while i >= 0:
            fr = frames[i]
            t = fr[0]
            if t == 'try' and kind == 'exc':
                _, handlers, catch_all = fr
                for hn in handlers:
                    self._connect(ends, hn)
                if catch_all:
                    return
            elif t == 'finally':
                _, body, owner, is_with = fr
                key = (id(owner), kind, id(target) if target is not None else 0)
                if key in self._fin_cache:
                    fentry, _ = self._fin_cache[key]
                    self._connect(ends, fentry)
                    return  # continuation already routed
                fcopy = {'exc': 'x', 'ret': 'r', 'brk': 'b', 'cnt': 'c'}[kind]
                fentry = self._new('join', None, owner, fcopy)
                self._fin_cache[key] = (fentry, None)
                self._connect(ends, fentry)
                outer = frames[:i]
                if is_with:
                    wx = self._new('with_exit', owner, owner, fcopy)
                    self._edge(fentry, wx, 'n')
                    ends = [(wx, kind)]
                else:
                    e2 = self._block(body, [(fentry, 'n')], outer, fcopy)
                    ends = [(a, kind) for a, _ in e2]
                # continue outward from the finally copy
                frames = outer
                i = len(frames) - 1
                continue
            elif t == 'loop' and kind in ('brk', 'cnt'):
                _, loopnode, brk_ends = fr
                if target is loopnode or target is None:
                    if kind == 'cnt':
                        self._connect(ends, loopnode)
                    else:
                        brk_ends.extend(ends)
                    return
            i -= 1
        if kind == 'exc':
            self._connect(ends, self.rexit)
        elif kind == 'ret':
            self._connect(ends, self.exit)
        else:
            raise AnalysisError(f'{kind} outside loop at line {getattr(target, "lineno", "?")}')

    def _stmt(self, st, ends, frames, copy):
        if isinstance(st, (ast.FunctionDef, ast.AsyncFunctionDef, ast.ClassDef)):
            n = self._new('stmt', st, st, copy)
            self._connect(ends, n)
            return [(n, 'n')]
        if isinstance(st, SIMPLE):
            n = self._new('stmt', st, st, copy)
            self._connect(ends, n)
            if self._may_raise(n):
                self._raise_from(n, frames, copy)
            return [(n, 'n')]
        if isinstance(st, ast.Return):
            n = self._new('stmt', st, st, copy)
            self._connect(ends, n)
            if st.value is not None and self._may_raise(n):
                self._raise_from(n, frames, copy)
            self._route([(n, 'ret')], 'ret', None, frames, copy)
            return []
        if isinstance(st, ast.Raise):
            n = self._new('stmt', st, st, copy)
            self._connect(ends, n)
            self._raise_from(n, frames, copy)
            return []
        if isinstance(st, ast.Break):
            n = self._new('stmt', st, st, copy)
            self._connect(ends, n)
            self._route([(n, 'brk')], 'brk', None, frames, copy)
            return []
        if isinstance(st, ast.Continue):
            n = self._new('stmt', st, st, copy)
            self._connect(ends, n)
            self._route([(n, 'cnt')], 'cnt', None, frames, copy)
            return []
        if isinstance(st, ast.If):
            n = self._new('if', st.test, st, copy)
            self._connect(ends, n)
            if self._may_raise(n):
                self._raise_from(n, frames, copy)
            t_ends = self._block(st.body, [(n, 't')], frames, copy)
            f_ends = self._block(st.orelse, [(n, 'f')], frames, copy) if st.orelse else [(n, 'f')]
            return t_ends + f_ends
        if isinstance(st, (ast.While, ast.For, ast.AsyncFor)):
            is_for = not isinstance(st, ast.While)
            n = self._new('for' if is_for else 'while', st.iter if is_for else st.test, st, copy)
            self._connect(ends, n)
            if self._may_raise(n):
                self._raise_from(n, frames, copy)
            brk_ends = []
            fr = ('loop', n, brk_ends)
            body_ends = self._block(st.body, [(n, 't')], frames + [fr], copy)
            self._connect(body_ends, n)
            infinite = (not is_for) and isinstance(st.test, ast.Constant) and bool(st.test.value)
            out = []
            if not infinite:
                out = self._block(st.orelse, [(n, 'f')], frames, copy) if st.orelse else [(n, 'f')]
            return out + brk_ends
        if isinstance(st, (ast.With, ast.AsyncWith)):
            n = self._new('with', st, st, copy)
            self._connect(ends, n)
            self._raise_from(n, frames, copy)
            fr = ('finally', None, st, True)
            body_ends = self._block(st.body, [(n, 'n')], frames + [fr], copy)
            if body_ends:
                wx = self._new('with_exit', st, st, copy)
                self._connect(body_ends, wx)
                return [(wx, 'n')]
            return []
        if isinstance(st, ast.Try) or st.__class__.__name__ == 'TryStar':
            handler_nodes = [self._new('handler', h, st, copy) for h in st.handlers]
            catch_all = any(handler_is_catch_all(h, base_only=True) for h in st.handlers)
            inner = list(frames)
            has_fin = bool(st.finalbody)
            if has_fin:
                inner = inner + [('finally', st.finalbody, st, False)]
            try_frames = inner + ([('try', handler_nodes, catch_all)] if handler_nodes else [])
            body_ends = self._block(st.body, ends, try_frames, copy)
            if st.orelse:
                body_ends = self._block(st.orelse, body_ends, inner, copy)
            all_ends = list(body_ends)
            for h, hn in zip(st.handlers, handler_nodes):
                all_ends += self._block(h.body, [(hn, 'n')], inner, copy)
            if has_fin:
                if not all_ends:
                    return []
                j = self._new('join', None, st, copy)
                self._connect(all_ends, j)
                return self._block(st.finalbody, [(j, 'n')], frames, copy)
            return all_ends
        if isinstance(st, ast.Match):
            raise AnalysisError(f'match statement not modelled (line {st.lineno})')
        raise AnalysisError(f'statement kind {type(st).__name__} not modelled (line {st.lineno})')

    # -- queries -------------------------------------------------------------
    def nodes_of(self, astnode):
        """CFG nodes that evaluate ``astnode`` (an expression or statement)."""
        n = astnode
        while n is not None:
            hit = self._by_ast.get(id(n))
            if hit:
                if isinstance(n, (ast.With, ast.AsyncWith)) and n is not astnode:
                    return [h for h in hit if h.kind == 'with']
                return list(hit)
            n = getattr(n, '_parent', None)
        return []

    def reach(self, srcs, avoid=(), labels=None, include_src=False, no_exc_from=()):
        """Nodes reachable from srcs along edges with label in labels, never
        entering a node in ``avoid``."""
        avoid = set(avoid)
        no_exc_from = set(no_exc_from)
        seen = set()
        stack = []
        for s in srcs:
            if include_src:
                if s not in avoid:
                    stack.append(s)
                    seen.add(s)
            else:
                for b, l in self.succ[s]:
                    if (labels is None or l in labels) and b not in avoid and b not in seen and not (l == 'exc' and s in no_exc_from):
                        seen.add(b)
                        stack.append(b)
        while stack:
            a = stack.pop()
            for b, l in self.succ[a]:
                if l == 'exc' and a in no_exc_from:
                    continue
                if (labels is None or l in labels) and b not in avoid and b not in seen:
                    seen.add(b)
                    stack.append(b)
        return seen

    def path_conditions(self, srcs, targets, avoid=(), labels=None, limit=4000, with_nodes=False):
        """Branch conditions [(test expr, polarity)] of every acyclic path from srcs to any
        of targets that does not pass through ``avoid``.  None if there are too many paths.
        with_nodes: return (conditions, [nodes on the path in order]) pairs."""
        targets, avoid = set(targets), set(avoid)
        out = []
        count = [0]
        trail = []

        def dfs(n, conds, on_path):
            if count[0] > limit:
                return
            trail.append(n)
            try:
                _dfs(n, conds, on_path)
            finally:
                trail.pop()

        def _dfs(n, conds, on_path):
            if n in targets:
                out.append((list(conds), list(trail)) if with_nodes else list(conds))
                count[0] += 1
                return
            for b, l in self.succ[n]:
                if labels is not None and l not in labels:
                    continue
                if b in on_path or b in avoid:
                    continue
                extra = None
                if n.kind in ('if', 'while') and l in ('t', 'f'):
                    extra = (n.ast, l == 't')
                if extra:
                    conds.append(extra)
                on_path.add(b)
                dfs(b, conds, on_path)
                on_path.discard(b)
                if extra:
                    conds.pop()
        for s0 in srcs:
            if s0 in avoid:
                continue
            dfs(s0, [], {s0})
        return None if count[0] > limit else out

    def must_pass(self, srcs, through, exits, labels=None):
        """Every path from srcs to any node in exits passes a node in through."""
        r = self.reach(srcs, avoid=through, labels=labels)
        return not (r & set(exits))

    def witness(self, srcs, avoid, exits, labels=None):
        """A path from a src to an exit avoiding ``avoid`` (list of nodes) or None."""
        avoid = set(avoid)
        exits = set(exits)
        prev = {}
        stack = []
        for s in srcs:
            prev[s] = None
            stack.append(s)
        first = True
        while stack:
            a = stack.pop(0)
            if a in exits and prev[a] is not None:
                path = [a]
                while prev[path[-1]] is not None:
                    path.append(prev[path[-1]])
                return list(reversed(path))
            for b, l in self.succ[a]:
                if (labels is None or l in labels) and b not in avoid and b not in prev:
                    prev[b] = a
                    stack.append(b)
        return None

    NORMAL = ('n', 't', 'f', 'ret', 'brk', 'cnt')

    def dominators(self, labels=None, entry=None):
        entry = entry or self.entry
        nodes = [n for n in self.reach([entry], labels=labels, include_src=True)]
        allset = set(nodes)
        dom = {n: set(allset) for n in nodes}
        dom[entry] = {entry}
        changed = True
        while changed:
            changed = False
            for n in nodes:
                if n is entry:
                    continue
                ps = [a for a, l in self.pred[n] if a in allset and (labels is None or l in labels)]
                new = set(allset)
                for a in ps:
                    new &= dom[a]
                new = new | {n} if ps else {n}
                if new != dom[n]:
                    dom[n] = new
                    changed = True
        return dom

    def dominates(self, a, b, labels=None):
        """Every path entry->b passes a (along the given labels)."""
        if a is b:
            return True
        r = self.reach([self.entry], avoid=[a], labels=labels, include_src=True)
        return b not in r

    def all_dominate(self, As, Bs, labels=None, entry=None):
        """Every b in Bs is reachable from entry only via some node of As."""
        r = self.reach([entry or self.entry], avoid=As, labels=labels, include_src=True)
        return not (set(Bs) & r)


_cache = {}


def cfg_of(func, may_raise=None):
    key = (id(func.node), may_raise)
    if key not in _cache:
        _cache[key] = CFG(func.node, may_raise or default_may_raise)
    return _cache[key]


def clear_cache():
    _cache.clear()
