"""Robustness sweep: apply behaviour-preserving AST transformations to the whole package
(in memory) and check that no rule of any property raises a VIOLATION.

  T1 alpha   rename every local variable (not parameters) of every function
  T2 ifswap  `if c: A else: B`  ->  `if not c: B else: A`
  T3 pass    insert `pass` after every simple statement
  T4 kwrev   reverse the keyword-argument order of every call
  T5 augexp  `x += e` -> `x = x + e`   (names only)
  T6 lockexp `with lock: body` -> `lock.acquire(); try: body finally: lock.release()`
  T7 cmpflip `a < b` -> `b > a` (also == and !=)
  T8 rettemp `return e` -> `t = e; return t`

usage: tools/equiv_sweep.py [T1 T2 ...] [--by-module] [--prop CNN]
A VIOLATION under an equivalence transformation is a false alarm of the checker; an
ANALYSIS-ERROR (exit 2) is the documented fail-closed behaviour and is only reported."""
import ast
import copy
import os
import sys

from . import engine, rules  # noqa: E402
from .ir import Program, read_sources  # noqa: E402
from .props import PROPS  # noqa: E402
from .q import is_lock_expr  # noqa: E402


def _locals_of(fn):
    params = {a.arg for a in fn.args.posonlyargs + fn.args.args + fn.args.kwonlyargs}
    if fn.args.vararg:
        params.add(fn.args.vararg.arg)
    if fn.args.kwarg:
        params.add(fn.args.kwarg.arg)
    stores, banned = set(), set(params)
    for n in ast.walk(fn):
        if isinstance(n, (ast.Global, ast.Nonlocal)):
            banned |= set(n.names)
        if isinstance(n, ast.Name) and isinstance(n.ctx, (ast.Store, ast.Del)):
            stores.add(n.id)
        if isinstance(n, ast.ExceptHandler) and n.name:
            stores.add(n.name)
        if isinstance(n, (ast.FunctionDef, ast.AsyncFunctionDef)) and n is not fn:
            banned.add(n.name)
            banned |= {a.arg for a in n.args.posonlyargs + n.args.args + n.args.kwonlyargs}
        if isinstance(n, ast.Lambda):
            banned |= {a.arg for a in n.args.posonlyargs + n.args.args + n.args.kwonlyargs}
    return {s for s in stores if s not in banned and not s.startswith('__')}


class Alpha(ast.NodeTransformer):
    def visit_FunctionDef(self, node):
        # only outermost functions / methods; nested defs are renamed together with their parent
        names = _locals_of(node)
        mapping = {n: n + '_r' for n in names}
        for n in ast.walk(node):
            if isinstance(n, ast.Name) and n.id in mapping:
                n.id = mapping[n.id]
            elif isinstance(n, ast.ExceptHandler) and n.name in mapping:
                n.name = mapping[n.name]
        return node

    def visit_ClassDef(self, node):
        self.generic_visit(node)
        return node


class IfSwap(ast.NodeTransformer):
    def visit_If(self, node):
        self.generic_visit(node)
        if node.orelse:
            node.test, node.body, node.orelse = ast.UnaryOp(op=ast.Not(), operand=node.test), node.orelse, node.body
        return node


class PassIns(ast.NodeTransformer):
    def _blk(self, stmts):
        out = []
        for s in stmts:
            out.append(s)
            if isinstance(s, (ast.Assign, ast.AugAssign, ast.Expr)) and not (isinstance(s, ast.Expr) and isinstance(s.value, ast.Constant)):
                out.append(ast.Pass())
        return out

    def generic_visit(self, node):
        super().generic_visit(node)
        for f in ('body', 'orelse', 'finalbody'):
            b = getattr(node, f, None)
            if isinstance(b, list) and b and isinstance(b[0], ast.stmt):
                setattr(node, f, self._blk(b))
        return node


class KwRev(ast.NodeTransformer):
    def visit_Call(self, node):
        self.generic_visit(node)
        if len(node.keywords) > 1 and all(k.arg is not None for k in node.keywords):
            node.keywords = list(reversed(node.keywords))
        return node


class AugExp(ast.NodeTransformer):
    def visit_AugAssign(self, node):
        if isinstance(node.target, (ast.Name, ast.Attribute)):
            load = copy.deepcopy(node.target)
            load.ctx = ast.Load()
            return ast.Assign(targets=[node.target], value=ast.BinOp(left=load, op=node.op, right=node.value))
        return node


class LockExp(ast.NodeTransformer):
    def visit_With(self, node):
        self.generic_visit(node)
        if len(node.items) == 1 and node.items[0].optional_vars is None and is_lock_expr(node.items[0].context_expr):
            lock = node.items[0].context_expr
            acq = ast.Expr(ast.Call(func=ast.Attribute(value=copy.deepcopy(lock), attr='acquire', ctx=ast.Load()), args=[], keywords=[]))
            rel = ast.Expr(ast.Call(func=ast.Attribute(value=copy.deepcopy(lock), attr='release', ctx=ast.Load()), args=[], keywords=[]))
            return [acq, ast.Try(body=node.body, handlers=[], orelse=[], finalbody=[rel])]
        return node


class CmpFlip(ast.NodeTransformer):
    FLIP = {ast.Lt: ast.Gt, ast.Gt: ast.Lt, ast.LtE: ast.GtE, ast.GtE: ast.LtE, ast.Eq: ast.Eq, ast.NotEq: ast.NotEq}

    def visit_Compare(self, node):
        self.generic_visit(node)
        if len(node.ops) == 1 and type(node.ops[0]) in self.FLIP:
            return ast.Compare(left=node.comparators[0], ops=[self.FLIP[type(node.ops[0])]()], comparators=[node.left])
        return node


class RetTemp(ast.NodeTransformer):
    def _blk(self, stmts):
        out = []
        for s in stmts:
            if isinstance(s, ast.Return) and s.value is not None and not isinstance(s.value, (ast.Name, ast.Constant)):
                out.append(ast.Assign(targets=[ast.Name(id='ret_value_t', ctx=ast.Store())], value=s.value))
                out.append(ast.Return(value=ast.Name(id='ret_value_t', ctx=ast.Load())))
            else:
                out.append(s)
        return out

    def generic_visit(self, node):
        super().generic_visit(node)
        for f in ('body', 'orelse', 'finalbody'):
            b = getattr(node, f, None)
            if isinstance(b, list) and b and isinstance(b[0], ast.stmt):
                setattr(node, f, self._blk(b))
        return node


def _leaves(stmts):
    if not stmts:
        return False
    l = stmts[-1]
    if isinstance(l, (ast.Return, ast.Raise, ast.Continue, ast.Break)):
        return True
    if isinstance(l, ast.If) and l.orelse:
        return _leaves(l.body) and _leaves(l.orelse)
    return False


class GuardToElse(ast.NodeTransformer):
    """if c: A(leaves) ; rest   ->   if c: A else: rest"""
    def generic_visit(self, node):
        super().generic_visit(node)
        for f in ('body', 'orelse', 'finalbody'):
            b = getattr(node, f, None)
            if isinstance(b, list) and b and isinstance(b[0], ast.stmt):
                for i, st in enumerate(b):
                    if isinstance(st, ast.If) and not st.orelse and _leaves(st.body) and i + 1 < len(b):
                        st.orelse = b[i + 1:]
                        setattr(node, f, b[:i + 1])
                        break
        return node


class HoistArgs(ast.NodeTransformer):
    """f(.., K(..), ..) / f(k={..}) as a whole statement -> t = K(..); f(.., t, ..)  for the first
    constructor-like argument when everything evaluated before it is a plain load."""
    n = 0

    def _pure(self, e):
        return isinstance(e, (ast.Name, ast.Constant)) or (isinstance(e, ast.Attribute) and self._pure(e.value))

    def _ctor(self, e):
        return isinstance(e, ast.Dict) or (isinstance(e, ast.Call) and isinstance(e.func, ast.Name) and e.func.id[:1].isupper()) or \
            (isinstance(e, ast.Call) and isinstance(e.func, ast.Attribute) and e.func.attr == 'submit')

    def _hoist(self, call):
        if not isinstance(call, ast.Call) or not self._pure(call.func):
            return None
        for i, a in enumerate(call.args):
            if self._ctor(a):
                HoistArgs.n += 1
                nm = f'hoisted_{HoistArgs.n}'
                call.args[i] = ast.Name(id=nm, ctx=ast.Load())
                return nm, a
            if not self._pure(a):
                return None
        for k in call.keywords:
            if k.arg is not None and self._ctor(k.value):
                HoistArgs.n += 1
                nm = f'hoisted_{HoistArgs.n}'
                v = k.value
                k.value = ast.Name(id=nm, ctx=ast.Load())
                return nm, v
            if not self._pure(k.value):
                return None
        return None

    def _blk(self, stmts):
        out = []
        for s in stmts:
            pre = []
            call = s.value if isinstance(s, (ast.Expr, ast.Assign, ast.Return)) and isinstance(getattr(s, 'value', None), ast.Call) else None
            for _ in range(4):
                if call is None:
                    break
                h = self._hoist(call)
                if not h:
                    break
                pre.insert(0, ast.Assign(targets=[ast.Name(id=h[0], ctx=ast.Store())], value=h[1]))
                call = h[1] if isinstance(h[1], ast.Call) else None
            out.extend(pre)
            out.append(s)
        return out

    def generic_visit(self, node):
        super().generic_visit(node)
        for f in ('body', 'orelse', 'finalbody'):
            b = getattr(node, f, None)
            if isinstance(b, list) and b and isinstance(b[0], ast.stmt):
                setattr(node, f, self._blk(b))
        return node


class AttrRename(ast.NodeTransformer):
    """self._x -> self._x_rn for every private (single underscore) attribute stored through self in the package"""
    names = set()

    def visit_Attribute(self, node):
        self.generic_visit(node)
        if node.attr in AttrRename.names:
            node.attr = node.attr + '_rn'
        return node


class DictCall(ast.NodeTransformer):
    """{'a': x, ...} with identifier keys -> dict(a=x, ...)"""
    def visit_Dict(self, node):
        self.generic_visit(node)
        if node.keys and all(isinstance(k, ast.Constant) and isinstance(k.value, str) and k.value.isidentifier() and k.value not in ('self',) for k in node.keys):
            import keyword
            if not any(keyword.iskeyword(k.value) for k in node.keys):
                return ast.Call(func=ast.Name(id='dict', ctx=ast.Load()), args=[], keywords=[ast.keyword(arg=k.value, value=v) for k, v in zip(node.keys, node.values)])
        return node


class LoopToComp(ast.NodeTransformer):
    """x = [] ; for t in it: x.append(e)   ->   x = [e for t in it]      (x not otherwise mentioned in the loop)"""
    def generic_visit(self, node):
        super().generic_visit(node)
        for f in ('body', 'orelse', 'finalbody'):
            b = getattr(node, f, None)
            if isinstance(b, list) and b and isinstance(b[0], ast.stmt):
                out, i = [], 0
                while i < len(b):
                    s, nxt = b[i], b[i + 1] if i + 1 < len(b) else None
                    if isinstance(s, ast.Assign) and len(s.targets) == 1 and isinstance(s.targets[0], ast.Name) and isinstance(s.value, ast.List) and not s.value.elts \
                            and isinstance(nxt, ast.For) and not nxt.orelse and len(nxt.body) == 1 and isinstance(nxt.body[0], ast.Expr) \
                            and isinstance(nxt.body[0].value, ast.Call) and ast.unparse(nxt.body[0].value.func) == f'{s.targets[0].id}.append' \
                            and len(nxt.body[0].value.args) == 1 and s.targets[0].id not in {n.id for n in ast.walk(nxt.body[0].value.args[0]) if isinstance(n, ast.Name)} \
                            and s.targets[0].id not in {n.id for n in ast.walk(nxt.iter) if isinstance(n, ast.Name)}:
                        tgt = copy.deepcopy(nxt.target)
                        for n in ast.walk(tgt):
                            if hasattr(n, 'ctx'):
                                n.ctx = ast.Store()
                        out.append(ast.Assign(targets=s.targets, value=ast.ListComp(elt=nxt.body[0].value.args[0],
                                   generators=[ast.comprehension(target=tgt, iter=nxt.iter, ifs=[], is_async=0)])))
                        i += 2
                        continue
                    out.append(s)
                    i += 1
                setattr(node, f, out)
        return node


class ExtractTail(ast.NodeTransformer):
    """method(self, ..): S1..Sk..Sn  ->  S1..Sk ; return self._extracted_<m>(v..)  with the tail Sk+1..Sn moved
    to a new private method taking the locals it reads (methods with >= 4 top-level statements; tail = last two
    statements; not for generators / tails using nonlocal flow)."""
    def visit_ClassDef(self, node):
        self.generic_visit(node)
        new = []
        for m in list(node.body):
            if not isinstance(m, ast.FunctionDef) or m.decorator_list or m.name.startswith('__') or len(m.body) < 4:
                continue
            if not m.args.args or m.args.args[0].arg != 'self' or m.args.vararg or m.args.kwarg:
                continue
            if any(isinstance(n, (ast.Yield, ast.YieldFrom, ast.Await, ast.Nonlocal, ast.Global)) for n in ast.walk(m)):
                continue
            if any(isinstance(n, (ast.FunctionDef, ast.Lambda, ast.ClassDef)) and n is not m for n in ast.walk(m)):
                continue
            tail = m.body[-2:]
            head = m.body[:-2]
            if any(isinstance(n, (ast.Break, ast.Continue)) for s in tail for n in ast.walk(s)):
                continue
            if isinstance(head[0], ast.Expr) and isinstance(head[0].value, ast.Constant) and len(head) < 2:
                continue
            assigned = {n.id for s in head for n in ast.walk(s) if isinstance(n, ast.Name) and isinstance(n.ctx, ast.Store)}
            assigned |= {n.name for s in head for n in ast.walk(s) if isinstance(n, ast.ExceptHandler) and n.name}
            params = {a.arg for a in m.args.args[1:] + m.args.kwonlyargs}
            reads = []
            for s in tail:
                for n in ast.walk(s):
                    if isinstance(n, ast.Name) and isinstance(n.ctx, ast.Load) and (n.id in assigned or n.id in params) and n.id not in reads:
                        reads.append(n.id)
            # names the tail stores and the head also defined would be fine (tail is last); augmented stores need the value
            for s in tail:
                for n in ast.walk(s):
                    if isinstance(n, ast.AugAssign) and isinstance(n.target, ast.Name) and n.target.id not in reads and (n.target.id in assigned or n.target.id in params):
                        reads.append(n.target.id)
            hname = f'_extracted_{node.name.lower()}_{m.name.strip("_")}'
            helper = ast.FunctionDef(name=hname, args=ast.arguments(posonlyargs=[], args=[ast.arg(arg='self')] + [ast.arg(arg=r) for r in reads],
                                     kwonlyargs=[], kw_defaults=[], defaults=[]), body=tail, decorator_list=[], type_params=[])
            call = ast.Call(func=ast.Attribute(value=ast.Name(id='self', ctx=ast.Load()), attr=hname, ctx=ast.Load()),
                            args=[ast.Name(id=r, ctx=ast.Load()) for r in reads], keywords=[])
            m.body = head + [ast.Return(value=call)]
            new.append(helper)
        node.body = node.body + new
        return node


class ExtractHead(ast.NodeTransformer):
    """method(self, ..): S1 S2 S3..Sn  ->  a, b = self._extracted_head_<m>(p..) ; S3..Sn  with S1 S2 moved to a new
    private method returning the locals they define that are used later (methods with >= 4 statements whose first two
    statements (after the docstring) are plain assignments / expression statements)."""
    def visit_ClassDef(self, node):
        self.generic_visit(node)
        new = []
        for m in list(node.body):
            if not isinstance(m, ast.FunctionDef) or m.decorator_list or m.name.startswith('__'):
                continue
            if not m.args.args or m.args.args[0].arg != 'self' or m.args.vararg or m.args.kwarg:
                continue
            if any(isinstance(n, (ast.Yield, ast.YieldFrom, ast.Await, ast.Nonlocal, ast.Global, ast.Lambda)) for n in ast.walk(m)):
                continue
            body = list(m.body)
            doc = []
            if body and isinstance(body[0], ast.Expr) and isinstance(body[0].value, ast.Constant) and isinstance(body[0].value.value, str):
                doc, body = body[:1], body[1:]
            if len(body) < 4 or not all(isinstance(s, (ast.Assign, ast.Expr, ast.AugAssign)) for s in body[:2]):
                continue
            head, rest = body[:2], body[2:]
            if any(not isinstance(t, ast.Name) for s in head if isinstance(s, ast.Assign) for t in s.targets):
                continue
            defined = []
            for s in head:
                for n in ast.walk(s):
                    if isinstance(n, ast.Name) and isinstance(n.ctx, ast.Store) and n.id not in defined:
                        defined.append(n.id)
            params = [a.arg for a in m.args.args[1:] + m.args.kwonlyargs]
            if any(d in params for d in defined):
                continue
            reads = []
            for s in head:
                for n in ast.walk(s):
                    if isinstance(n, ast.Name) and isinstance(n.ctx, ast.Load) and n.id in params and n.id not in reads:
                        reads.append(n.id)
            later = {n.id for s in rest for n in ast.walk(s) if isinstance(n, ast.Name)}
            outs = [d for d in defined if d in later]
            hname = f'_extracted_head_{node.name.lower()}_{m.name.strip("_")}'
            hbody = list(head)
            if outs:
                hbody.append(ast.Return(value=ast.Name(id=outs[0], ctx=ast.Load()) if len(outs) == 1 else ast.Tuple(elts=[ast.Name(id=o, ctx=ast.Load()) for o in outs], ctx=ast.Load())))
            helper = ast.FunctionDef(name=hname, args=ast.arguments(posonlyargs=[], args=[ast.arg(arg='self')] + [ast.arg(arg=r) for r in reads],
                                     kwonlyargs=[], kw_defaults=[], defaults=[]), body=hbody, decorator_list=[], type_params=[])
            call = ast.Call(func=ast.Attribute(value=ast.Name(id='self', ctx=ast.Load()), attr=hname, ctx=ast.Load()),
                            args=[ast.Name(id=r, ctx=ast.Load()) for r in reads], keywords=[])
            if not outs:
                st = ast.Expr(value=call)
            elif len(outs) == 1:
                st = ast.Assign(targets=[ast.Name(id=outs[0], ctx=ast.Store())], value=call)
            else:
                st = ast.Assign(targets=[ast.Tuple(elts=[ast.Name(id=o, ctx=ast.Store()) for o in outs], ctx=ast.Store())], value=call)
            m.body = doc + [st] + rest
            new.append(helper)
        node.body = node.body + new
        return node


class ToIfExp(ast.NodeTransformer):
    """if c: x = A else: x = B  ->  x = A if c else B ;  if c: return A else: return B  ->  return A if c else B"""
    def visit_If(self, node):
        self.generic_visit(node)
        if len(node.body) == 1 and len(node.orelse) == 1:
            a, b = node.body[0], node.orelse[0]
            if isinstance(a, ast.Assign) and isinstance(b, ast.Assign) and len(a.targets) == 1 and len(b.targets) == 1 \
                    and ast.dump(a.targets[0]) == ast.dump(b.targets[0]) and isinstance(a.targets[0], (ast.Name, ast.Attribute)):
                return ast.Assign(targets=a.targets, value=ast.IfExp(test=node.test, body=a.value, orelse=b.value))
            if isinstance(a, ast.Return) and isinstance(b, ast.Return) and a.value is not None and b.value is not None:
                return ast.Return(value=ast.IfExp(test=node.test, body=a.value, orelse=b.value))
        return node


class WhileTrue(ast.NodeTransformer):
    """while c: B   ->   while True: if not c: break ; B      (no else clause)"""
    def visit_While(self, node):
        self.generic_visit(node)
        if not node.orelse and not (isinstance(node.test, ast.Constant)):
            brk = ast.If(test=ast.UnaryOp(op=ast.Not(), operand=node.test), body=[ast.Break()], orelse=[])
            return ast.While(test=ast.Constant(value=True), body=[brk] + node.body, orelse=[])
        return node


class KwArgs(ast.NodeTransformer):
    """positional -> keyword arguments at every call whose callee name is defined exactly once in the package
    (self.m(..) / obj.m(..) / f(..)), using that definition's parameter names"""
    defs = {}

    def visit_Call(self, node):
        self.generic_visit(node)
        nm = node.func.attr if isinstance(node.func, ast.Attribute) else (node.func.id if isinstance(node.func, ast.Name) else None)
        d = KwArgs.defs.get(nm)
        if d is None or not node.args or any(isinstance(a, ast.Starred) for a in node.args) or any(k.arg is None for k in node.keywords):
            return node
        params, is_method = d
        if is_method != isinstance(node.func, ast.Attribute):
            return node
        if isinstance(node.func, ast.Attribute) and not (isinstance(node.func.value, ast.Name) and node.func.value.id == 'self'):
            return node  # only self.m(..): other receivers may be modules / foreign objects
        if isinstance(node.func, ast.Attribute) and isinstance(node.func.value, ast.Name) and node.func.value.id[:1].isupper():
            return node  # Class.method(obj, ..) keeps its shape
        if len(node.args) > len(params):
            return node
        names = params[:len(node.args)]
        if any(k.arg in names for k in node.keywords):
            return node
        node.keywords = [ast.keyword(arg=n, value=a) for n, a in zip(names, node.args)] + node.keywords
        node.args = []
        return node


TRANSFORMS = {'T1': ('alpha-rename locals', Alpha), 'T2': ('if/else swap', IfSwap), 'T3': ('insert pass', PassIns),
              'T4': ('reverse keywords', KwRev), 'T5': ('expand augmented assignment', AugExp), 'T6': ('expand with-lock', LockExp),
              'T7': ('flip comparison operands', CmpFlip), 'T8': ('return through a temporary', RetTemp),
              'T9': ('guard clause -> if/else', GuardToElse), 'T10': ('hoist constructor-like arguments into temporaries', HoistArgs),
              'T11': ('rename private attributes', AttrRename), 'T12': ('dict display -> dict() call', DictCall),
              'T13': ('append loop -> list comprehension', LoopToComp), 'T14': ('extract the tail of every method into a new helper', ExtractTail),
              'T15': ('extract the first two statements of every method into a new helper', ExtractHead),
              'T16': ('if/else assignments and returns -> conditional expressions', ToIfExp), 'T17': ('while c -> while True / break', WhileTrue),
              'T18': ('positional -> keyword arguments (uniquely named package callees)', KwArgs)}


def transform(src, cls):
    tree = ast.parse(src)
    tree = cls().visit(tree)
    ast.fix_missing_locations(tree)
    out = ast.unparse(tree)
    compile(out, '<sweep>', 'exec')
    return out


def run(sources, props):
    prog = Program(sources)
    res = {}
    for p in props:
        code, ctx, viol = engine.run_property(p, 'quick', program=prog, write=False, quiet=True)
        res[p] = (sorted({f'{o.rule} {o.func}: {o.construct[:70]}' for o in viol}), [f'{r}: {m[:100]}' for r, m in (ctx.errors if ctx else [])])
    return res


def main():
    args = [a for a in sys.argv[1:] if not a.startswith('--')]
    by_module = '--by-module' in sys.argv
    props = sorted(PROPS)
    if '--prop' in sys.argv:
        props = [sys.argv[sys.argv.index('--prop') + 1]]
        args = [a for a in args if a not in props]
    rules.load_all()
    base = read_sources('/repo')
    prepare(base)
    ts = args or sorted(TRANSFORMS, key=lambda t: int(t[1:]))
    return sweep(base, ts, props, by_module)


def prepare(base):
    """per-package tables some transformations need (names of private attributes, uniquely named callees)"""
    from .rename import class_attrs
    for src in base.values():
        for cls in [n for n in ast.walk(ast.parse(src)) if isinstance(n, ast.ClassDef)]:
            AttrRename.names |= {a for a in class_attrs(cls)}
    count = {}
    for src in base.values():
        t_ = ast.parse(src)
        for cls in [t_] + [n for n in ast.walk(t_) if isinstance(n, ast.ClassDef)]:
            for fn in [n for n in cls.body if isinstance(n, ast.FunctionDef)]:
                if fn.args.vararg or fn.args.kwarg or fn.args.posonlyargs or fn.decorator_list or fn.name.startswith('__'):
                    count[fn.name] = count.get(fn.name, 0) + 2
                    continue
                count[fn.name] = count.get(fn.name, 0) + 1
                ps = [a.arg for a in fn.args.args]
                KwArgs.defs[fn.name] = (ps[1:] if cls is not t_ else ps, cls is not t_)
    for n, c in count.items():
        if c != 1:
            KwArgs.defs.pop(n, None)
    import builtins
    for n in list(KwArgs.defs):
        if hasattr(builtins, n) or n in ('read', 'write', 'seek', 'close', 'submit', 'result', 'done', 'cancel', 'get', 'put', 'wait', 'acquire', 'release', 'add_done_callback', 'shutdown', 'set_exception', 'set_result', 'tell', 'flush'):
            KwArgs.defs.pop(n)


def _one(job):
    t, sources, prop = job
    rules.load_all()
    name, cls = TRANSFORMS[t]
    try:
        srcs = {k: transform(v, cls) for k, v in sources.items()}
    except Exception as e:  # a transformation that cannot be applied is not a verdict
        return t, [], [f'transformation failed: {type(e).__name__}: {e}']
    res = run(srcs, [prop])
    return t, res[prop][0], res[prop][1]


def run_for(prop, program, jobs=None):
    """Thorough-tier hook: every whole-package equivalence transformation applied to the current tree must leave
    the rules of ``prop`` silent.  A violation is reported as a self-test miss (ANALYSIS-ERROR, exit 2): it means the
    check is brittle here, not that the tree is wrong."""
    import multiprocessing as mp
    sources = {m.path: m.source for m in program.modules.values()}
    prepare(sources)
    ts = sorted(TRANSFORMS, key=lambda t: int(t[1:]))
    jobs = jobs or min(16, os.cpu_count() or 1)
    with mp.get_context('fork').Pool(jobs) as pool:
        out = pool.map(_one, [(t, sources, prop) for t in ts], chunksize=1)
    misses = [f'equivalence {t} ({TRANSFORMS[t][0]}): {x}' for t, v, e in out for x in v]
    return {'equivalence_transformations': len(ts), 'equivalence_silent': sum(1 for t, v, e in out if not v),
            'equivalence_fail_closed': [f'{t}: {x}' for t, v, e in out for x in e][:10], 'misses': misses}


def sweep(base, ts, props, by_module):
    bad = 0
    for t in ts:
        name, cls = TRANSFORMS[t]
        units = [[k] for k in sorted(base)] if by_module else [sorted(base)]
        for unit in units:
            srcs = dict(base)
            for k in unit:
                srcs[k] = transform(base[k], cls)
            res = run(srcs, props)
            label = f'{t} {name}' + (f' [{unit[0]}]' if by_module else ' [whole package]')
            nv = sum(len(v) for v, e in res.values())
            ne = sum(len(e) for v, e in res.values())
            print(f'{label}: violations={nv} analysis_errors={ne}')
            for p, (v, e) in sorted(res.items()):
                for x in v:
                    print(f'   FALSE-ALARM {p}: {x}')
                    bad += 1
                for x in e:
                    print(f'   fail-closed {p}: {x}')
    return 1 if bad else 0


if __name__ == '__main__':
    from s3tlint import equiv as _e
    sys.exit(_e.main())
