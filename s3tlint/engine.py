"""Rule registry, obligation bookkeeping, evidence / known-findings / exit codes."""

import ast
import json
import os
import sys
import time
import traceback

from . import cfg as cfgmod
from .ir import AnalysisError, Program, norm, short
from .resolve import Resolver

VERIF = os.path.dirname(os.path.dirname(os.path.abspath(__file__)))

RULES = []  # (rule_id, props, tier, fn, doc)


def rule(rule_id, props, tier='quick', floor=1):
    """Register a rule.  props: properties it serves; floor: minimum number of
    obligations it must generate on any tree (instance floor)."""
    def deco(fn):
        RULES.append({'id': rule_id, 'props': list(props), 'tier': tier, 'fn': fn,
                      'doc': (fn.__doc__ or '').strip(), 'floor': floor})
        return fn
    return deco


class Obligation:
    __slots__ = ('rule', 'func', 'construct', 'ok', 'detail', 'loc', 'trivial')

    def __init__(self, rule, func, construct, ok, detail, loc, trivial=False):
        self.rule = rule
        self.func = func
        self.construct = construct
        self.ok = ok
        self.detail = detail
        self.loc = loc
        self.trivial = trivial

    def key(self):
        return (self.rule, self.func, self.construct)

    def as_dict(self):
        return {'rule': self.rule, 'function': self.func, 'construct': self.construct,
                'ok': self.ok, 'detail': self.detail, 'loc': self.loc}


class Ctx:
    def __init__(self, program, prop, tier):
        self.p = program
        shared = program.__dict__.setdefault('_shared', {})
        if 'resolver' not in shared:
            shared['resolver'] = Resolver(program)
        self.r = shared['resolver']
        self._shared = shared
        self.prop = prop
        self.tier = tier
        self.obs = []
        self.cur_rule = None
        self.errors = []  # analysis errors (rule id, message)
        self.info = []
        self.extra = {}

    def expanded(self):
        """A context over the fully expanded view of the program (private same-class helpers
        inlined into their callers); obligations are recorded into this context."""
        x = Ctx(self.p.expanded(), self.prop, self.tier)
        x.obs, x.errors, x.info, x.extra = self.obs, self.errors, self.info, self.extra
        x.cur_rule = self.cur_rule
        return x

    # -- recording -----------------------------------------------------------
    def ob(self, func, construct, ok, detail='', node=None, trivial=False, rule=None):
        """Record one obligation.  func: FuncInfo or qualname; construct: AST node
        or text identifying the offending construct (normalised, no line numbers)."""
        fq = func if isinstance(func, str) else (func.qualname if func is not None else '<package>')
        if node is None and isinstance(construct, ast.AST):
            node = construct
        ctext = construct if isinstance(construct, str) else short(construct, 160)
        loc = ''
        if node is not None and hasattr(node, 'lineno'):
            mod = getattr(node, '_module', None)
            path = mod.path if mod is not None else (func.module.path if hasattr(func, 'module') else '?')
            loc = f'{path}:{node.lineno}'
        elif hasattr(func, 'loc'):
            loc = func.loc()
        o = Obligation(rule or self.cur_rule, fq, ctext, bool(ok), detail, loc, trivial)
        self.obs.append(o)
        return bool(ok)

    def note(self, msg):
        self.info.append(f'{self.cur_rule}: {msg}')

    def cfg(self, func):
        return cfgmod.cfg_of(func)

    def func(self, q):
        return self.p.func(q)

    def cls(self, q):
        return self.p.cls(q)

    def need(self, cond, msg):
        """Analysis precondition: failing it is an ANALYSIS-ERROR, not a verdict."""
        if not cond:
            raise AnalysisError(msg)


def load_known():
    path = os.path.join(VERIF, 'known_findings.json')
    if not os.path.exists(path):
        return []
    with open(path) as fh:
        return json.load(fh).get('findings', [])


def match_known(known, prop, o):
    for k in known:
        if k.get('status') != 'known':
            continue
        if k.get('rule') == o.rule and k.get('function') == o.func and k.get('construct') == o.construct \
                and prop in k.get('properties', [k.get('property')]):
            return k
    return None


def run_property(prop, tier='quick', repo='/repo', program=None, write=True, quiet=False, selftest=None):
    """Run every rule registered for ``prop``.  Returns (exit_code, ctx, violations)."""
    t0 = time.time()
    out = sys.stdout
    known = load_known()
    try:
        program = program or Program.load(repo)
    except AnalysisError as e:
        if not quiet:
            print(f'ANALYSIS-ERROR property={prop} {e}')
        if write:
            write_evidence(prop, tier, None, [], [], [('load', str(e))], time.time() - t0, {})
        return 2, None, []
    cfgmod.clear_cache()
    ctx = Ctx(program, prop, tier)
    rules = [r for r in RULES if prop in r['props'] and (tier == 'thorough' or r['tier'] == 'quick')]
    per_rule = {}
    for r in rules:
        ctx.cur_rule = r['id']
        n0 = len(ctx.obs)
        try:
            r['fn'](ctx)
            n = len(ctx.obs) - n0
            fl = r['floor'].get(prop, r['floor'].get('*', 1)) if isinstance(r['floor'], dict) else r['floor']
            if n < fl:
                raise AnalysisError(f'instance floor not met: {n} obligations < {fl}')
        except AnalysisError as e:
            ctx.errors.append((r['id'], str(e)))
        except Exception as e:  # internal error: never a verdict
            tb = traceback.format_exc().strip().splitlines()
            ctx.errors.append((r['id'], f'internal {type(e).__name__}: {e} @ {tb[-3].strip() if len(tb) > 2 else ""}'))
        per_rule[r['id']] = len(ctx.obs) - n0
    ctx.cur_rule = None
    violations, knowns = [], []
    seen = set()
    for o in ctx.obs:
        if o.ok:
            continue
        if o.key() in seen:
            continue
        seen.add(o.key())
        k = match_known(known, prop, o)
        if k:
            knowns.append((o, k))
        else:
            violations.append(o)
    st = None
    if selftest is not None and tier == 'thorough':
        st = selftest(prop, program, clean=not violations)
    wall = time.time() - t0
    if not quiet:
        for o, k in knowns:
            print(f'KNOWN-FINDING: property={prop} {o.rule} {o.func}: {o.construct} -- {k.get("what", o.detail)}')
        for rid, msg in ctx.errors:
            print(f'ANALYSIS-ERROR property={prop} rule={rid} {msg}')
        if st:
            for line in st.get('misses', []):
                print(f'ANALYSIS-ERROR selftest property={prop} {line}')
    replay_paths = []
    for i, o in enumerate(violations):
        path = os.path.join(VERIF, 'replay', f'{prop}-{o.rule}-{i}.json')
        replay_paths.append(path)
        if write:
            os.makedirs(os.path.dirname(path), exist_ok=True)
            with open(path, 'w') as fh:
                json.dump({'property': prop, 'tier': tier, 'finding': o.as_dict(),
                           'how_to_reproduce': f'cd /verif && ./check {prop} --tier {tier}  '
                                               f'(static: the construct at {o.loc} in {o.func} breaks rule {o.rule})',
                           'rule_doc': next((r['doc'] for r in RULES if r['id'] == o.rule), '')}, fh, indent=1)
        if not quiet:
            print(f'{o.loc}  {o.rule}  {o.func}: {o.construct}\n    -> {o.detail}')
            print(f'VIOLATION property={prop} replay={path}')
    if write:
        write_evidence(prop, tier, ctx, violations, knowns, ctx.errors, wall, per_rule, st)
    if violations:
        code = 1
    elif ctx.errors or (st and st.get('misses')):
        code = 2
    else:
        code = 0
    if not quiet:
        nt = sum(1 for o in ctx.obs if not o.trivial)
        print(f'{prop} [{tier}] rules={len(rules)} obligations={len(ctx.obs)} discharged={sum(o.ok for o in ctx.obs)} '
              f'nontrivial_distinct={len({o.key() for o in ctx.obs if not o.trivial})} violations={len(violations)} '
              f'known={len(knowns)} errors={len(ctx.errors)} wall={wall:.2f}s -> exit {code}')
    return code, ctx, violations


LEVEL_EXPLANATION = {}


def write_evidence(prop, tier, ctx, violations, knowns, errors, wall, per_rule, st=None):
    from .props import PROPS
    meta = PROPS.get(prop, {})
    obs = ctx.obs if ctx else []
    distinct = {o.key() for o in obs if not o.trivial}
    samples = []
    seen_rules = set()
    for o in obs:
        if o.rule not in seen_rules and not o.trivial:
            seen_rules.add(o.rule)
            samples.append(o.as_dict())
    for o in violations[:5]:
        samples.append(o.as_dict())
    cov = {
        'explanation': meta.get('explanation', '') + ' Decided clauses hold on every path of the current source; '
                       'the behaviour as a whole is not proved (see DESIGN.md section 5/6).',
        'obligations': len(obs),
        'discharged': sum(1 for o in obs if o.ok),
        'evaluations': len(obs),
        'distinct_nontrivial': len(distinct),
        'rule': 'one obligation per (rule, function, construct) the rule constrains; an obligation is trivial when its '
                'scope contained no construct the rule speaks about; distinct = distinct (rule, function, construct) keys',
        'samples': samples[:40],
        'rules_run': per_rule,
        'rule_docs': {r['id']: r['doc'] for r in RULES if r['id'] in per_rule},
        'checker_cmd': f'./check {prop} --tier {tier}',
        'trusted_base': meta.get('trusted_base', []) + ['CPython ast parser', 'frozen receiver table (s3tlint/resolve.py)'],
        'known_findings_matched': [{'rule': o.rule, 'function': o.func, 'construct': o.construct} for o, _ in knowns],
        'analysis_errors': [{'rule': r, 'message': m} for r, m in errors],
        'exhaustive': bool(meta.get('exhaustive', False)),
    }
    if ctx is not None:
        cov['functions_analysed'] = len(ctx.p.functions)
        cov['modules_analysed'] = sorted(m.path for m in ctx.p.modules.values())
        cov['calls'] = dict(ctx.r.stats)
        cov['source_digest'] = ctx.p.digest.hexdigest()[:16]
        cov['info'] = ctx.info[:60]
        cov.update(ctx.extra)
    if st:
        cov['selftest'] = st
    ev = {
        'property_id': prop,
        'tier': tier,
        'seed': int(os.environ.get('VERIF_SEED', '0') or 0),
        'level': 'other',
        'coverage': cov,
        'assumptions': meta.get('assumptions', []),
        'wall_s': round(wall, 3),
        'violations': len(violations),
    }
    d = os.path.join(VERIF, 'evidence')
    os.makedirs(d, exist_ok=True)
    tmp = os.path.join(d, f'.{prop}.json.tmp')
    with open(tmp, 'w') as fh:
        json.dump(ev, fh, indent=1, default=str)
    os.replace(tmp, os.path.join(d, f'{prop}.json'))
