"""Built-in self-test: in-memory source variants (placeholder; filled in below)."""


def run_selftest(prop, program):
    from . import variants
    return variants.run_for(prop, program)
