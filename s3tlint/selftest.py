"""Built-in self-test of the thorough tier: (1) in-memory source variants - every seeded edit of the property must fire
the named rule, every twin must stay silent; (2) whole-package equivalence transformations - the rules of the property
must stay silent under each (only meaningful, and only run, when the tree itself raises no violation)."""


def run_selftest(prop, program, clean=True):
    from . import variants, equiv
    a = variants.run_for(prop, program)
    out = dict(a)
    out['misses'] = list(a.get('misses', []))
    if clean:
        b = equiv.run_for(prop, program)
        out.update({k: v for k, v in b.items() if k != 'misses'})
        out['misses'] += list(b.get('misses', []))
    return out
