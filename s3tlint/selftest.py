"""Built-in self-test of the thorough tier: (1) in-memory source variants - every seeded edit of the property must fire
the named rule, every twin must stay silent; (2) whole-package equivalence transformations - the rules of the property
must stay silent under each; (3) the committed corpora - every seeded change of the property is caught, every
refactoring touching the property's anchor files is silent.  (2) and (3) are only meaningful, and only run, when the
tree itself raises no violation."""


def run_selftest(prop, program, clean=True):
    from . import variants, equiv, corpus
    a = variants.run_for(prop, program)
    out = dict(a)
    out['misses'] = list(a.get('misses', []))
    if clean:
        for mod in (equiv, corpus):
            b = mod.run_for(prop, program)
            out.update({k: v for k, v in b.items() if k != 'misses'})
            out['misses'] += list(b.get('misses', []))
    return out
