import argparse
import json
import os
import sys


def main(argv=None):
    ap = argparse.ArgumentParser(prog='check')
    ap.add_argument('prop', help='property id (C01..C20) or "all"')
    ap.add_argument('--tier', default=os.environ.get('VERIF_TIER') or 'quick', choices=['quick', 'thorough'])
    ap.add_argument('--repo', default=os.environ.get('S3TLINT_REPO', '/repo'))
    ap.add_argument('--replay', default=None)
    ap.add_argument('--no-write', action='store_true')
    ap.add_argument('--list', action='store_true', help='print every obligation')
    args = ap.parse_args(argv)
    try:
        from . import engine
        from . import rules  # noqa: F401  (registers the rules)
        rules.load_all()
        from .selftest import run_selftest
    except Exception as e:  # pragma: no cover
        print(f'ANALYSIS-ERROR cannot load s3tlint: {type(e).__name__}: {e}')
        return 2
    if args.replay:
        with open(args.replay) as fh:
            rep = json.load(fh)
        print('replaying finding:', json.dumps(rep.get('finding'), indent=1))
        args.prop = rep.get('property', args.prop)
        args.tier = rep.get('tier', args.tier)
    props = sorted(engine_props()) if args.prop == 'all' else [args.prop]
    worst = 0
    for p in props:
        try:
            code, cx, _ = engine.run_property(p, args.tier, repo=args.repo, write=not args.no_write,
                                              selftest=run_selftest)
            if args.list and cx is not None:
                for o in cx.obs:
                    if not o.trivial:
                        print(f"  [{'ok' if o.ok else 'FAIL'}] {o.rule:7s} {o.func}: {o.construct}  -- {o.detail[:150]}")
        except Exception as e:
            import traceback
            tb = traceback.format_exc().strip().splitlines()
            print(f'ANALYSIS-ERROR property={p} internal {type(e).__name__}: {e} @ {tb[-3:] }')
            code = 2
        worst = max(worst, code) if code != 1 and worst != 1 else 1
    return worst


def engine_props():
    from .props import PROPS
    return PROPS.keys()


if __name__ == '__main__':
    sys.exit(main())
