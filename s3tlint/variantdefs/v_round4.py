"""Variants for the rules and obligations added after the fourth seeded round."""
from ..variants import V

# ---- C16.e / C16.f / C16.c skip test -------------------------------------
V('c16-pending-duplicate-direction-flipped', ['C16', 'C02'], 'download.py',
  'if queued is not None and len(data) <= len(queued):', 'if queued is not None and len(data) >= len(queued):', ['C16.e'])
V('c16-pending-duplicate-no-length-test', ['C16', 'C02'], 'download.py',
  'if queued is not None and len(data) <= len(queued):', 'if queued is not None:', ['C16.e', 'C16.b'])
V('c16-twin-pending-duplicate-mirrored', ['C16', 'C02'], 'download.py',
  'if queued is not None and len(data) <= len(queued):', 'if queued is not None and len(queued) >= len(data):', kind='twin',
  why='the mirrored comparison states the same thing')
V('c16-twin-pending-duplicate-nested', ['C16', 'C02'], 'download.py',
  """        if queued is not None and len(data) <= len(queued):
            # We've already queued this offset with at least as much
            # data so this request is a duplicate.  In this case we
            # should ignore this request and prefer what's already queued.
            return []""",
  """        if queued is not None:
            if not len(data) > len(queued):
                return []""", kind='twin', why='nested test with a negated strict comparison')
V('c16-pending-removal-wrong-key', ['C16', 'C11', 'C02'], 'download.py',
  'if self._pending_offsets.get(next_offset) is next_data:', 'if self._pending_offsets.get(offset) is next_data:', ['C16.f'])
V('c16-skip-test-against-incoming', ['C16', 'C02', 'C11'], 'download.py',
  'if seen >= len(next_data):', 'if seen >= len(data):', ['C16.c'])
V('c16-twin-skip-test-spelled-out', ['C16', 'C02', 'C11'], 'download.py',
  'if seen >= len(next_data):', 'if next_offset + len(next_data) <= self._next_offset:', kind='twin',
  why='the same inequality with the overlap spelled out')
V('c16-cursor-advances-by-chunksize', ['C16', 'C02'], 'download.py',
  'current_index += len(chunk)', 'current_index += io_chunksize', ['C02.b'])

# ---- C05.f / C04.j ---------------------------------------------------------
V('c05-abort-gets-sse-args', ['C05'], 'tasks.py',
  "ABORT_MULTIPART_ARGS = ['RequestPayer', 'ExpectedBucketOwner']",
  "ABORT_MULTIPART_ARGS = ['SSECustomerKey', 'RequestPayer', 'ExpectedBucketOwner']", ['C05.f'])
V('c05-create-task-submitted-untracked', ['C05', 'C04', 'C08'], 'upload.py',
  """        create_multipart_future = self._transfer_coordinator.submit(
            request_executor,
            CreateMultipartUploadTask(""",
  """        create_multipart_future = request_executor.submit(
            CreateMultipartUploadTask(""", ['C04.j'])
V('c04-submission-task-on-request-executor', ['C04', 'C10'], 'manager.py',
  """        self._submission_executor.submit(
            submission_task_cls(""",
  """        self._request_executor.submit(
            submission_task_cls(""", ['C04.j', 'C10.b'])
V('c04-release-arguments-swapped', ['C04', 'C11', 'C12', 'C18'], 'futures.py',
  'semaphore.release, task.transfer_id, acquire_token', 'semaphore.release, acquire_token, task.transfer_id', ['C04.f'])
V('c11-window-tag-is-the-task', ['C11', 'C04'], 'futures.py',
  """        acquire_token = semaphore.acquire(task.transfer_id, block)
        # Create a callback to invoke when task is done in order to call
        # release on the semaphore.
        release_callback = FunctionContainer(
            semaphore.release, task.transfer_id, acquire_token
        )""",
  """        acquire_token = semaphore.acquire(task, block)
        release_callback = FunctionContainer(
            semaphore.release, task, acquire_token
        )""", ['C04.f'])
V('c04-twin-transfer-id-in-a-local', ['C04', 'C11', 'C12'], 'futures.py',
  """        acquire_token = semaphore.acquire(task.transfer_id, block)
        # Create a callback to invoke when task is done in order to call
        # release on the semaphore.
        release_callback = FunctionContainer(
            semaphore.release, task.transfer_id, acquire_token
        )""",
  """        transfer_id = task.transfer_id
        acquire_token = semaphore.acquire(transfer_id, block)
        release_callback = FunctionContainer(
            semaphore.release, transfer_id, acquire_token
        )""", kind='twin', why='the tag through a local')

# ---- C01.h -------------------------------------------------------------------
V('c01-get-file-size-memoised', ['C01', 'C14'], 'utils.py',
  """    def get_file_size(self, filename):
        return os.path.getsize(filename)""",
  """    @functools.lru_cache(maxsize=1024)
    def get_file_size(self, filename):
        return os.path.getsize(filename)""", ['C01.h'])

# ---- C12.h ---------------------------------------------------------------------
V('c12-first-seen-decided-before-wait', ['C12', 'C04', 'C11'], 'utils.py',
  """        try:
            if self._count == 0:
                if not blocking:
                    raise NoResourcesAvailable(f"Cannot acquire tag '{tag}'")
                else:
                    while self._count == 0:
                        self._condition.wait()
            # self._count is no longer zero.
            # First, check if this is the first time we're seeing this tag.
            sequence_number = self._tag_sequences[tag]
            if sequence_number == 0:""",
  """        try:
            first_acquire = tag not in self._lowest_sequence
            if self._count == 0:
                if not blocking:
                    raise NoResourcesAvailable(f"Cannot acquire tag '{tag}'")
                else:
                    while self._count == 0:
                        self._condition.wait()
            # self._count is no longer zero.
            sequence_number = self._tag_sequences[tag]
            if first_acquire:""", ['C12.h'])
V('c12-twin-first-seen-decided-after-wait', ['C12', 'C04', 'C11'], 'utils.py',
  """            sequence_number = self._tag_sequences[tag]
            if sequence_number == 0:""",
  """            sequence_number = self._tag_sequences[tag]
            first_acquire = sequence_number == 0
            if first_acquire:""", kind='twin', why='the flag is computed after the wait')

# ---- C13.g / C13.h -------------------------------------------------------------
V('c13-alpha-default-lowered', ['C13'], 'bandwidth.py', 'def __init__(self, alpha=0.8):', 'def __init__(self, alpha=0.2):', ['C13.g'])
V('c13-twin-alpha-default-raised', ['C13'], 'bandwidth.py', 'def __init__(self, alpha=0.8):', 'def __init__(self, alpha=0.9):', kind='twin',
  why='a larger alpha only shrinks the allowance (1/0.9 < 1.25)')
V('c13-moving-average-weights-swapped', ['C13'], 'bandwidth.py',
  'return self._alpha * new_rate + (1 - self._alpha) * self._current_rate',
  'return (1 - self._alpha) * new_rate + self._alpha * self._current_rate', ['C13.g'])
V('c13-upload-body-starts-enabled', ['C13', 'C09'], 'upload.py',
  'fileobj, self._transfer_coordinator, enabled=False', 'fileobj, self._transfer_coordinator', ['C13.h'])
V('c13-signal-transferring-disables', ['C13'], 'bandwidth.py',
  '''        """Signal that data being read is being transferred to S3"""
        self.enable_bandwidth_limiting()''',
  '''        """Signal that data being read is being transferred to S3"""
        self.disable_bandwidth_limiting()''', ['C13.h'])

# ---- C09.a chain, C10.a tags, C06.d map, C15.c guard ---------------------------
V('c09-limiter-wraps-the-raw-body', ['C09'], 'download.py',
  """                        bandwidth_limiter.get_bandwith_limited_stream(
                            streaming_body, self._transfer_coordinator""",
  """                        bandwidth_limiter.get_bandwith_limited_stream(
                            response['Body'], self._transfer_coordinator""", ['C09.a'])
V('c10-tags-compare-equal', ['C10', 'C11'], 'futures.py',
  "IN_MEMORY_DOWNLOAD_TAG = TaskTag('in_memory_download')", "IN_MEMORY_DOWNLOAD_TAG = TaskTag('in_memory_upload')", ['C10.a'])
V('c06-legacy-map-not-consumed', ['C06', 'C02', 'C03'], '__init__.py',
  'list(executor.map(download_partial, range(num_parts)))', 'executor.map(download_partial, range(num_parts))', ['C06.d'])
V('c06-twin-legacy-map-consumed-by-loop', ['C06', 'C02', 'C03'], '__init__.py',
  'list(executor.map(download_partial, range(num_parts)))',
  """for _ in executor.map(download_partial, range(num_parts)):
                    pass""", kind='twin', why='iterating the map retrieves every result')
V('c15-default-checksum-suppressed-by-type', ['C15'], 'utils.py',
  'if any(checksum in extra_args for checksum in FULL_OBJECT_CHECKSUM_ARGS):',
  'if "ChecksumType" in extra_args or any(checksum in extra_args for checksum in FULL_OBJECT_CHECKSUM_ARGS):', ['C15.c'])
V('c15-twin-default-checksum-loop-form', ['C15'], 'utils.py',
  """    if any(checksum in extra_args for checksum in FULL_OBJECT_CHECKSUM_ARGS):
        return""",
  """    for checksum in FULL_OBJECT_CHECKSUM_ARGS:
        if checksum in extra_args:
            return""", kind='twin', why='the same test as a loop')
V('c02-io-executor-two-threads', ['C02', 'C06', 'C16'], 'manager.py',
  """            max_size=self._config.max_io_queue_size,
            max_num_threads=1,""",
  """            max_size=self._config.max_io_queue_size,
            max_num_threads=2,""", ['C10.a'])

# ---- counting / deferred open ---------------------------------------------------
V('c04-invoker-decrement-by-zero', ['C04', 'C08'], 'utils.py', """            self._count -= 1
            if self._is_finalized and self._count == 0:""", """            self._count -= 0
            if self._is_finalized and self._count == 0:""", ['C04.h'])
V('c04-invoker-zero-test-before-decrement', ['C04', 'C08'], 'utils.py', """            self._count -= 1
            if self._is_finalized and self._count == 0:
                self._callback()""", """            if self._is_finalized and self._count == 0:
                self._callback()
            self._count -= 1""", ['C04.h'])
V('c04-invoker-increment-after-finalize-allowed', ['C04', 'C08'], 'utils.py', """            if self._is_finalized:
                raise RuntimeError(
                    'Counter has been finalized it can no longer be '
                    'incremented.'
                )
            self._count += 1""", """            self._count += 1""", ['C04.h'])
V('c01-deferred-open-seeks-only-for-zero', ['C01', 'C14'], 'utils.py', """            if self._start_byte != 0:
                self._fileobj.seek(self._start_byte)""", """            if self._start_byte == 0:
                self._fileobj.seek(self._start_byte)""", ['C14.b'])
V('c01-twin-deferred-open-always-seeks', ['C01', 'C14'], 'utils.py', """            if self._start_byte != 0:
                self._fileobj.seek(self._start_byte)""", """            self._fileobj.seek(self._start_byte)""", kind='twin', why='seeking to 0 on a fresh handle is a no-op')
V('c01-twin-deferred-open-positive-test', ['C01', 'C14'], 'utils.py', """            if self._start_byte != 0:""", """            if self._start_byte > 0:""", kind='twin', why='start bytes are non-negative')

# ---- D10 -------------------------------------------------------------------------
V('c13-revert-D10', ['C13'], 'bandwidth.py', """        if time_at_consumption <= self._last_time:
            # No time has passed since the last recorded consumption, so
            # there is no finite rate to learn from this one. Recording the
            # infinite rate would stick in the moving average forever and
            # throttle every later request, no matter how small.
            return
        self._current_rate""", """        self._current_rate""", ['C13.i'])
V('c13-twin-D10-guard-on-the-delta', ['C13'], 'bandwidth.py', """        if time_at_consumption <= self._last_time:
            # No time has passed since the last recorded consumption, so
            # there is no finite rate to learn from this one. Recording the
            # infinite rate would stick in the moving average forever and
            # throttle every later request, no matter how small.
            return
        self._current_rate""", """        elapsed = time_at_consumption - self._last_time
        if not elapsed > 0:
            return
        self._current_rate""", kind='twin', why='the same guard written on the difference')
