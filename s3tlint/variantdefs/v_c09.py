from ..variants import V

V('c09-no-rewind-on-retry', ['C09'], 'download.py', """                invoke_progress_callbacks(
                    callbacks, start_index - current_index
                )
                continue""", """                continue""", ['C09.a'])
V('c09-rewind-sign-flipped', ['C09'], 'download.py', 'callbacks, start_index - current_index', 'callbacks, current_index - start_index', ['C09.a'])
V('c09-rewind-from-zero', ['C09'], 'download.py', 'callbacks, start_index - current_index', 'callbacks, 0 - current_index', ['C09.a'])
V('c09-read-reports-requested', ['C09'], 'utils.py', 'invoke_progress_callbacks(self._callbacks, len(data))', 'invoke_progress_callbacks(self._callbacks, amount_to_read)', ['C09.b'])
V('c09-read-reports-while-disabled', ['C09'], 'utils.py', """        self._amount_read += len(data)
        if self._callbacks is not None and self._callbacks_enabled:""", """        self._amount_read += len(data)
        if self._callbacks is not None:""", ['C09.b'])
V('c09-seek-unbounded-delta', ['C09'], 'utils.py', 'bounded_where = max(min(where - self._start_byte, self._size), 0)', 'bounded_where = where - self._start_byte', ['C09.b'])
V('c09-seek-updates-before-report', ['C09'], 'utils.py', """        self._fileobj.seek(max(where, self._start_byte))
        if self._callbacks is not None and self._callbacks_enabled:""", """        self._fileobj.seek(max(where, self._start_byte))
        self._amount_read = max(where - self._start_byte, 0)
        if self._callbacks is not None and self._callbacks_enabled:""", ['C09.b'])
V('c09-stream-progress-reports-requested', ['C09'], 'utils.py', """        value = self._stream.read(*args, **kwargs)
        invoke_progress_callbacks(self._callbacks, len(value))""", """        value = self._stream.read(*args, **kwargs)
        invoke_progress_callbacks(self._callbacks, args[0] if args else len(value))""", ['C09.b'])
V('c09-negative-progress-dropped', ['C09'], 'utils.py', """    if bytes_transferred:
        for callback in callbacks:
            callback(bytes_transferred=bytes_transferred)""", """    if bytes_transferred > 0:
        for callback in callbacks:
            callback(bytes_transferred=bytes_transferred)""", ['C09.b'])
V('c09-handlers-order-swapped', ['C09'], 'manager.py', """        self._client.meta.events.register_first(
            event_name,
            signal_not_transferring,
            unique_id='s3upload-not-transferring',
        )
        self._client.meta.events.register_last(
            event_name, signal_transferring, unique_id='s3upload-transferring'
        )""", """        self._client.meta.events.register_last(
            event_name,
            signal_not_transferring,
            unique_id='s3upload-not-transferring',
        )
        self._client.meta.events.register_first(
            event_name, signal_transferring, unique_id='s3upload-transferring'
        )""", ['C09.c'])
V('c09-bodies-start-enabled', ['C09'], 'utils.py', """            callbacks=callbacks,
            enable_callbacks=False,
            close_callbacks=close_callbacks,""", """            callbacks=callbacks,
            enable_callbacks=True,
            close_callbacks=close_callbacks,""", ['C09.c'])
V('c09-signal-only-put-object', ['C09'], 'utils.py', """def signal_transferring(request, operation_name, **kwargs):
    if operation_name in ['PutObject', 'UploadPart']:""", """def signal_transferring(request, operation_name, **kwargs):
    if operation_name in ['PutObject']:""", ['C09.c'])
V('c09-copy-progress-before-request', ['C09'], 'copies.py', """        client.copy_object(
            CopySource=copy_source, Bucket=bucket, Key=key, **extra_args
        )
        for callback in callbacks:
            callback(bytes_transferred=size)""", """        for callback in callbacks:
            callback(bytes_transferred=size)
        client.copy_object(
            CopySource=copy_source, Bucket=bucket, Key=key, **extra_args
        )""", ['C09.d'])
V('c09-copy-part-reports-part-size-always', ['C09'], 'copies.py', """                            'callbacks': progress_callbacks,
                            'size': size,
                            'checksum_algorithm': checksum_algorithm,""", """                            'callbacks': progress_callbacks,
                            'size': part_size,
                            'checksum_algorithm': checksum_algorithm,""", ['C09.d'])
V('c09-no-flush-on-close', ['C09'], 'upload.py', """        callbacks = self._get_progress_callbacks(transfer_future)
        close_callbacks = self._get_close_callbacks(callbacks)
        size = transfer_future.meta.size""", """        callbacks = self._get_progress_callbacks(transfer_future)
        close_callbacks = []
        size = transfer_future.meta.size""", ['C09.e'])
V('c09-aggregate-not-reset', ['C09'], 'upload.py', """            callback(bytes_transferred=self._bytes_seen)
        self._bytes_seen = 0""", """            callback(bytes_transferred=self._bytes_seen)""", ['C09.e'])
V('c09-flush-only-above-threshold', ['C09'], 'upload.py', """        if self._bytes_seen > 0:
            self._trigger_callbacks()""", """        if self._bytes_seen >= self._threshold:
            self._trigger_callbacks()""", ['C09.e'])
V('c09-close-skips-callbacks', ['C09'], 'utils.py', """            for callback in self._close_callbacks:
                callback()
        self._fileobj.close()""", """            pass
        self._fileobj.close()""", ['C09.e'])
V('c09-twin-len-local', ['C09'], 'utils.py', """        data = self._fileobj.read(amount_to_read)
        self._amount_read += len(data)
        if self._callbacks is not None and self._callbacks_enabled:
            invoke_progress_callbacks(self._callbacks, len(data))
        return data""", """        data = self._fileobj.read(amount_to_read)
        self._amount_read += len(data)
        if self._callbacks_enabled and self._callbacks is not None:
            invoke_progress_callbacks(self._callbacks, len(data))
        return data""", kind='twin')
