from ..variants import V

# ---- C05 ---------------------------------------------------------------
V('c05-no-abort-registration', ['C05'], 'tasks.py', """        self._transfer_coordinator.add_failure_cleanup(
            client.abort_multipart_upload,
            Bucket=bucket,
            Key=key,
            UploadId=upload_id,
            **abort_extra_args,
        )
        return upload_id""", """        return upload_id""", ['C05.a'])
V('c05-abort-after-extra-call', ['C05'], 'tasks.py', """        upload_id = response['UploadId']

        # Add a cleanup""", """        upload_id = response['UploadId']
        client.put_object_tagging(Bucket=bucket, Key=key, Tagging={})

        # Add a cleanup""", ['C05.a'])
V('c05-abort-conditional', ['C05'], 'tasks.py', """        self._transfer_coordinator.add_failure_cleanup(
            client.abort_multipart_upload,
            Bucket=bucket,
            Key=key,
            UploadId=upload_id,
            **abort_extra_args,
        )""", """        if abort_extra_args:
            self._transfer_coordinator.add_failure_cleanup(
                client.abort_multipart_upload,
                Bucket=bucket,
                Key=key,
                UploadId=upload_id,
                **abort_extra_args,
            )""", ['C05.a'])
V('c05-abort-wrong-id', ['C05'], 'tasks.py', """            Key=key,
            UploadId=upload_id,
            **abort_extra_args,
        )
        return upload_id""", """            Key=key,
            UploadId=key,
            **abort_extra_args,
        )
        return upload_id""", ['C05.a'])
V('c05-cleanups-on-success-too', ['C05'], 'futures.py', """        if self.status != 'success':
            self._run_failure_cleanups()""", """        self._run_failure_cleanups()""", ['C04.b'])
V('c05-cleanups-after-event', ['C05', 'C06', 'C08'], 'futures.py', """        if self.status != 'success':
            self._run_failure_cleanups()
        self._done_event.set()""", """        self._done_event.set()
        if self.status != 'success':
            self._run_failure_cleanups()""", ['C04.b'])
V('c05-cleanups-not-cleared', ['C05', 'C08'], 'futures.py', """            self._run_callbacks(self.failure_cleanups)
            self._failure_cleanups = []""", """            self._run_callbacks(self.failure_cleanups)""", ['C08.c'])
V('c05-complete-does-not-await-parts', ['C05', 'C01', 'C04'], 'upload.py', """                    'upload_id': create_multipart_future,
                    'parts': part_futures,
                },
                is_final=True,""", """                    'upload_id': create_multipart_future,
                },
                is_final=True,""", ['C05.c'])
V('c05-part-future-dropped', ['C05', 'C01'], 'copies.py', """            part_futures.append(
                self._transfer_coordinator.submit(
                    request_executor,
                    CopyPartTask(""", """            part_futures.append(None) if False else (
                self._transfer_coordinator.submit(
                    request_executor,
                    CopyPartTask(""", ['C05.c'])
V('c05-abort-direct-in-part-task', ['C05'], 'upload.py', """        etag = response['ETag']
        part_metadata = {'ETag': etag, 'PartNumber': part_number}
        if 'ChecksumAlgorithm' in extra_args:""", """        etag = response['ETag']
        if not etag:
            client.abort_multipart_upload(Bucket=bucket, Key=key, UploadId=upload_id)
        part_metadata = {'ETag': etag, 'PartNumber': part_number}
        if 'ChecksumAlgorithm' in extra_args:""", ['C05.d'])
V('c05-abort-as-done-callback', ['C05'], 'tasks.py', """        self._transfer_coordinator.add_failure_cleanup(
            client.abort_multipart_upload,""", """        self._transfer_coordinator.add_done_callback(
            client.abort_multipart_upload,""", ['C05.a', 'C05.d'])
V('c05-complete-in-part-loop', ['C05', 'C01'], 'copies.py', """        complete_multipart_extra_args = self._extra_complete_multipart_args(
            call_args.extra_args
        )
        # Submit the request to complete the multipart upload.
        self._transfer_coordinator.submit(""", """        complete_multipart_extra_args = self._extra_complete_multipart_args(
            call_args.extra_args
        )
        # Submit the request to complete the multipart upload.
        for _ in range(1): self._transfer_coordinator.submit(""", ['C05.d', 'C04.c'])
V('c05-legacy-parts-outside-try', ['C05'], '__init__.py', """        try:
            parts = self._upload_parts(
                upload_id, filename, bucket, key, callback, extra_args
            )
        except Exception as e:""", """        parts = self._upload_parts(
            upload_id, filename, bucket, key, callback, extra_args
        )
        try:
            pass
        except Exception as e:""", ['C05.e'])
V('c05-legacy-repaired-D8', ['C05'], '__init__.py', """            parts = self._upload_parts(
                upload_id, filename, bucket, key, callback, extra_args
            )
        except Exception as e:""", """            parts = self._upload_parts(
                upload_id, filename, bucket, key, callback, extra_args
            )
            self._client.complete_multipart_upload(
                Bucket=bucket, Key=key, UploadId=upload_id, MultipartUpload={'Parts': parts},
            )
        except Exception as e:""", kind='twin', why='repaired twin for D8: the complete inside the try is silent (the old call stays a known finding)')

# ---- C08 ---------------------------------------------------------------
V('c08-on-queued-after-submit', ['C08'], 'tasks.py', """            # Before submitting any tasks, run all of the on_queued callbacks
            on_queued_callbacks = get_callbacks(transfer_future, 'queued')
            for on_queued_callback in on_queued_callbacks:
                on_queued_callback()

            # Once callbacks have been ran set the status to running.
            self._transfer_coordinator.set_status_to_running()

            # Call the submit method to start submitting tasks to execute the
            # transfer.
            self._submit(transfer_future=transfer_future, **kwargs)""", """            self._transfer_coordinator.set_status_to_running()
            self._submit(transfer_future=transfer_future, **kwargs)
            on_queued_callbacks = get_callbacks(transfer_future, 'queued')
            for on_queued_callback in on_queued_callbacks:
                on_queued_callback()""", ['C08.a'])
V('c08-on-queued-before-status', ['C08'], 'tasks.py', """            self._transfer_coordinator.set_status_to_queued()

            # Before submitting any tasks, run all of the on_queued callbacks
            on_queued_callbacks = get_callbacks(transfer_future, 'queued')
            for on_queued_callback in on_queued_callbacks:
                on_queued_callback()
""", """            on_queued_callbacks = get_callbacks(transfer_future, 'queued')
            for on_queued_callback in on_queued_callbacks:
                on_queued_callback()
            self._transfer_coordinator.set_status_to_queued()
""", ['C08.a'])
V('c08-on-queued-in-manager', ['C08'], 'manager.py', """        for callback in get_callbacks(transfer_future, 'done'):
            components['coordinator'].add_done_callback(callback)""", """        for callback in get_callbacks(transfer_future, 'done'):
            components['coordinator'].add_done_callback(callback)
        for callback in get_callbacks(transfer_future, 'queued'):
            callback()""", ['C08.a'])
V('c08-done-registered-after-submit', ['C08'], 'manager.py', """        for callback in get_callbacks(transfer_future, 'done'):
            components['coordinator'].add_done_callback(callback)

        # Get the main kwargs needed to instantiate the submission task
        main_kwargs = self._get_submission_task_main_kwargs(
            transfer_future, extra_main_kwargs
        )

        # Submit a SubmissionTask that will submit all of the necessary
        # tasks needed to complete the S3 transfer.
        self._submission_executor.submit(
            submission_task_cls(
                transfer_coordinator=components['coordinator'],
                main_kwargs=main_kwargs,
            )
        )
""", """        main_kwargs = self._get_submission_task_main_kwargs(
            transfer_future, extra_main_kwargs
        )
        self._submission_executor.submit(
            submission_task_cls(
                transfer_coordinator=components['coordinator'],
                main_kwargs=main_kwargs,
            )
        )
        for callback in get_callbacks(transfer_future, 'done'):
            components['coordinator'].add_done_callback(callback)
""", ['C08.b'])
V('c08-untracked-never', ['C08', 'C18'], 'manager.py', """        transfer_coordinator.add_done_callback(
            self._coordinator_controller.remove_transfer_coordinator,
            transfer_coordinator,
        )
""", "", ['C08.b'])
V('c08-done-callbacks-not-cleared', ['C08'], 'futures.py', """            self._run_callbacks(self._done_callbacks)
            self._done_callbacks = []""", """            self._run_callbacks(self._done_callbacks)""", ['C08.c'])
V('c08-done-callbacks-no-lock', ['C08'], 'futures.py', """        with self._done_callbacks_lock:
            self._run_callbacks(self._done_callbacks)
            self._done_callbacks = []""", """        callbacks = self._done_callbacks
        self._done_callbacks = []
        self._run_callbacks(callbacks)""", ['C08.c'])
V('c08-callback-error-propagates', ['C08'], 'futures.py', """        except Exception:
            logger.debug(f"Exception raised in {callback}.", exc_info=True)""", """        except Exception:
            logger.debug(f"Exception raised in {callback}.", exc_info=True)
            raise""", ['C08.c'])
V('c08-nonfinal-task-announces', ['C08', 'C04', 'C05'], 'tasks.py', """                if self._is_final:
                    # If this is the final task announce""", """                if self._is_final or self._done_callbacks:
                    # If this is the final task announce""", ['C03.a'])
V('c08-cancel-always-announces', ['C08', 'C04', 'C05'], 'futures.py', """                if self._status == 'not-started':
                    should_announce_done = True""", """                should_announce_done = True""", ['C08.d', 'C17.d'])
V('c08-get-object-task-announces', ['C08', 'C05'], 'download.py', """                last_exception = e
                # Also invoke the progress callbacks""", """                last_exception = e
                self._transfer_coordinator.announce_done()
                # Also invoke the progress callbacks""", ['C08.d'])
V('c08-head-unconditional-download', ['C08'], 'download.py', """        if transfer_future.meta.size is None:
            # If a size was not provided figure out the size for the
            # user.
            response = client.head_object(""", """        if True:
            # If a size was not provided figure out the size for the
            # user.
            response = client.head_object(""", ['C08.e'])
V('c08-upload-size-unconditional', ['C08'], 'upload.py', """        if transfer_future.meta.size is None:
            upload_input_manager.provide_transfer_size(transfer_future)""", """        upload_input_manager.provide_transfer_size(transfer_future)""", ['C08.e'])
V('c08-twin-done-loop-var', ['C08'], 'manager.py', """        for callback in get_callbacks(transfer_future, 'done'):
            components['coordinator'].add_done_callback(callback)""", """        done_callbacks = get_callbacks(transfer_future, 'done')
        for cb in done_callbacks:
            components['coordinator'].add_done_callback(cb)""", kind='twin')
