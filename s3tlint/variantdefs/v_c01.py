from ..variants import V

V('c01-read-unbounded', ['C01'], 'utils.py', """            amount_to_read = min(amount_left, amount)
        data = self._fileobj.read(amount_to_read)""", """            amount_to_read = amount
        data = self._fileobj.read(amount_to_read)""", ['C01.a'])
V('c01-read-max-instead-of-min', ['C01'], 'utils.py', 'amount_to_read = min(amount_left, amount)', 'amount_to_read = max(amount_left, amount)', ['C01.a'])
V('c01-legacy-read-unbounded', ['C01'], '__init__.py', 'amount_to_read = min(self._size - self._amount_read, amount)', 'amount_to_read = amount', ['C01.a'])
V('c01-amount-read-not-advanced', ['C01', 'C09'], 'utils.py', """        data = self._fileobj.read(amount_to_read)
        self._amount_read += len(data)
        if self._callbacks is not None and self._callbacks_enabled:
            invoke_progress_callbacks(self._callbacks, len(data))
        return data""", """        data = self._fileobj.read(amount_to_read)
        if self._callbacks is not None and self._callbacks_enabled:
            invoke_progress_callbacks(self._callbacks, len(data))
        return data""", ['C01.a'])
V('c01-size-ignores-requested', ['C01'], 'utils.py', """        max_chunk_size = actual_file_size - start_byte
        return min(max_chunk_size, requested_size)

    def read(self, amount=None):
        amount_left""", """        max_chunk_size = actual_file_size - start_byte
        return max_chunk_size

    def read(self, amount=None):
        amount_left""", ['C01.a'])
V('c01-record-next-part-number', ['C01'], 'upload.py', "part_metadata = {'ETag': etag, 'PartNumber': part_number}", "part_metadata = {'ETag': etag, 'PartNumber': part_number + 1}", ['C01.b'])
V('c01-copy-record-etag-from-args', ['C01'], 'copies.py', "etag = response['CopyPartResult']['ETag']", "etag = extra_args.get('CopySourceIfMatch')", ['C01.b'])
V('c01-checksum-under-other-member', ['C01'], 'upload.py', 'part_metadata[checksum_member] = response[checksum_member]', "part_metadata[checksum_member] = response['ETag']", ['C01.b'])
V('c01-parts-inserted-front', ['C01'], 'upload.py', """            part_futures.append(
                self._transfer_coordinator.submit(
                    request_executor,
                    UploadPartTask(""", """            part_futures.insert(
                0,
                self._transfer_coordinator.submit(
                    request_executor,
                    UploadPartTask(""", ['C01.c'])
V('c01-parts-reversed-before-complete', ['C01'], 'copies.py', """        complete_multipart_extra_args = self._extra_complete_multipart_args(
            call_args.extra_args
        )
        # Submit the request to complete the multipart upload.""", """        complete_multipart_extra_args = self._extra_complete_multipart_args(
            call_args.extra_args
        )
        part_futures.reverse()
        # Submit the request to complete the multipart upload.""", ['C01.c'])
V('c01-results-collected-as-set', ['C01'], 'tasks.py', """                result = []
                for future in pending_value:
                    result.append(future.result())""", """                result = []
                for future in set(pending_value):
                    result.append(future.result())""", ['C01.c'])
V('c01-part-number-constant', ['C01', 'C14'], 'upload.py', """                            'part_number': part_number,
                            'extra_args': extra_part_args,""", """                            'part_number': 1,
                            'extra_args': extra_part_args,""", ['C01.c'])
V('c01-counter-after-yield', ['C01', 'C14'], 'upload.py', """            part_number += 1
            part_content = self._read(file_object, chunksize)""", """            part_content = self._read(file_object, chunksize)""", ['C01.c'])
V('c01-counter-starts-at-one', ['C01', 'C14'], 'upload.py', """        file_object = transfer_future.meta.call_args.fileobj
        part_number = 0
""", """        file_object = transfer_future.meta.call_args.fileobj
        part_number = 1
""", ['C01.c'])
V('c01-complete-drops-last-part', ['C01'], 'tasks.py', "MultipartUpload={'Parts': parts},\n            **extra_args,", "MultipartUpload={'Parts': parts[:-1]},\n            **extra_args,", ['C01.c'])
V('c01-file-size-args-crossed', ['C01'], 'utils.py', """            requested_size=chunk_size,
            start_byte=self._start_byte,
            actual_file_size=full_file_size,""", """            requested_size=full_file_size,
            start_byte=self._start_byte,
            actual_file_size=chunk_size,""", ['C01.a'])
V('c01-twin-part-dict-call', ['C01'], 'copies.py', "part_metadata = {'ETag': etag, 'PartNumber': part_number}", "part_metadata = {'PartNumber': part_number, 'ETag': etag}", kind='twin')
V('c01-twin-amount-left-inline', ['C01'], 'utils.py', """        amount_left = max(self._size - self._amount_read, 0)
        if amount is None:
            amount_to_read = amount_left
        else:
            amount_to_read = min(amount_left, amount)""", """        if amount is None:
            amount_to_read = max(self._size - self._amount_read, 0)
        else:
            amount_to_read = min(max(self._size - self._amount_read, 0), amount)""", kind='twin')
