from ..variants import V

V('c03-call-swallows', ['C03'], 'tasks.py', """            except Exception as e:
                self._log_and_set_exception(e)
            finally:""", """            except Exception as e:
                logger.debug('task failed: %s', e)
            finally:""", ['C03.a', 'C03.c'])
V('c03-execute-main-unguarded', ['C03', 'C07', 'C05'], 'tasks.py', """                if not self._transfer_coordinator.done():
                    return self._execute_main(kwargs)""", """                return self._execute_main(kwargs)""", ['C03.a'])
V('c03-wait-outside-try', ['C03'], 'tasks.py', """            try:
                # Wait for all of futures this task depends on.
                self._wait_on_dependent_futures()""", """            self._wait_on_dependent_futures()
            try:""", ['C03.a'])
V('c03-set-result-nonfinal', ['C03'], 'tasks.py', """        if self._is_final:
            self._transfer_coordinator.set_result(return_value)""", """        self._transfer_coordinator.set_result(return_value)""", ['C03.b'])
V('c03-set-result-in-upload-part', ['C03'], 'upload.py', """        etag = response['ETag']
        part_metadata = {'ETag': etag, 'PartNumber': part_number}
        if 'ChecksumAlgorithm' in extra_args:""", """        etag = response['ETag']
        self._transfer_coordinator.set_result(None)
        part_metadata = {'ETag': etag, 'PartNumber': part_number}
        if 'ChecksumAlgorithm' in extra_args:""", ['C03.b'])
V('c03-upload-part-swallow', ['C03', 'C01'], 'upload.py', """        with fileobj as body:
            response = client.upload_part(
                Bucket=bucket,
                Key=key,
                UploadId=upload_id,
                PartNumber=part_number,
                Body=body,
                **extra_args,
            )
        etag = response['ETag']""", """        response = {'ETag': None}
        try:
            with fileobj as body:
                response = client.upload_part(
                    Bucket=bucket,
                    Key=key,
                    UploadId=upload_id,
                    PartNumber=part_number,
                    Body=body,
                    **extra_args,
                )
        except OSError:
            pass
        etag = response['ETag']""", ['C03.c'])
V('c03-iowrite-swallow', ['C03', 'C02'], 'download.py', """        fileobj.seek(offset)
        fileobj.write(data)""", """        try:
            fileobj.seek(offset)
            fileobj.write(data)
        except OSError:
            logger.debug('write failed', exc_info=True)""", ['C03.c'])
V('c03-retry-everything', ['C03'], 'download.py', 'except S3_RETRYABLE_DOWNLOAD_ERRORS as e:', 'except Exception as e:', ['C03.d'])
V('c03-retryable-set-widened', ['C03'], 'utils.py', """    ResponseStreamingError,
)


def random_file_extension""", """    ResponseStreamingError,
    OSError,
)


def random_file_extension""", ['C03.d'])
V('c03-retry-while-true', ['C03'], 'download.py', """        for i in range(max_attempts):
            try:
                current_index = start_index""", """        i = 0
        while True:
            try:
                current_index = start_index""", ['C03.d'])
V('c03-retry-fixed-count', ['C03'], 'download.py', 'for i in range(max_attempts):', 'for i in range(100000):', ['C03.d'])
V('c03-retries-exhausted-silent', ['C03', 'C02'], 'download.py', """                continue
        raise RetriesExceededError(last_exception)""", """                continue
        return""", ['C03.d'])
V('c03-worker-retries-exhausted-silent', ['C03', 'C19', 'C02'], 'processpool.py', """                last_exception = e
        raise RetriesExceededError(last_exception)""", """                last_exception = e
        logger.debug('giving up: %s', last_exception)""", ['C03.d'])
V('c03-submit-error-no-announce', ['C03', 'C04', 'C08'], 'tasks.py', """            self._wait_for_all_submitted_futures_to_complete()

            # Announce the transfer as done, which will run any cleanups
            # and done callbacks as well.
            self._transfer_coordinator.announce_done()""", """            self._wait_for_all_submitted_futures_to_complete()""", ['C03.e'])
V('c03-submit-error-announce-before-wait', ['C03', 'C05', 'C08'], 'tasks.py', """            self._log_and_set_exception(e)

            # Wait for all possibly associated futures that may have spawned
            # from this submission task have finished before we announce the
            # transfer done.
            self._wait_for_all_submitted_futures_to_complete()
""", """            self._log_and_set_exception(e)
            self._transfer_coordinator.announce_done()
            self._wait_for_all_submitted_futures_to_complete()
""", ['C03.e'])
V('c03-submit-catches-exception-only', ['C03'], 'tasks.py', 'except BaseException as e:', 'except Exception as e:', ['C03.e'])
V('c03-submit-outside-try', ['C03', 'C04'], 'tasks.py', """            self._submit(transfer_future=transfer_future, **kwargs)
        except BaseException as e:""", """        except BaseException as e:""", ['C03.e'], why='(replaced below by a compiling variant)')
V('c03-log-and-set-conditional', ['C03'], 'tasks.py', """        logger.debug("Exception raised.", exc_info=True)
        self._transfer_coordinator.set_exception(exception)""", """        logger.debug("Exception raised.", exc_info=True)
        if not isinstance(exception, OSError):
            self._transfer_coordinator.set_exception(exception)""", ['C03.a'])
V('c03-finally-return', ['C03'], 'tasks.py', """                if self._is_final:
                    # If this is the final task announce that it is done if results
                    # are waiting on its completion.
                    self._transfer_coordinator.announce_done()
""", """                if self._is_final:
                    # If this is the final task announce that it is done if results
                    # are waiting on its completion.
                    self._transfer_coordinator.announce_done()
                return None
""", ['C03.c'])
V('c03-twin-handler-name', ['C03'], 'tasks.py', """            except Exception as e:
                self._log_and_set_exception(e)""", """            except Exception as error:
                self._log_and_set_exception(error)""", kind='twin')
V('c03-twin-guard-early', ['C03'], 'tasks.py', """                if not self._transfer_coordinator.done():
                    return self._execute_main(kwargs)""", """                if self._transfer_coordinator.done():
                    return None
                return self._execute_main(kwargs)""", kind='twin')
