from ..variants import V

V('c14-download-threshold-strict', ['C14'], 'download.py', 'if transfer_future.meta.size < config.multipart_threshold:', 'if transfer_future.meta.size <= config.multipart_threshold:', ['C14.a'])
V('c14-upload-threshold-strict', ['C14'], 'upload.py', """    def requires_multipart_upload(self, transfer_future, config):
        return transfer_future.meta.size >= config.multipart_threshold

    def get_put_object_body""", """    def requires_multipart_upload(self, transfer_future, config):
        return transfer_future.meta.size > config.multipart_threshold

    def get_put_object_body""", ['C14.a'])
V('c14-copy-branches-swapped', ['C14'], 'copies.py', """        if transfer_future.meta.size < config.multipart_threshold:
            self._submit_copy_request(
                client, config, osutil, request_executor, transfer_future
            )
        else:
            self._submit_multipart_request(
                client, config, osutil, request_executor, transfer_future
            )""", """        if transfer_future.meta.size < config.multipart_threshold:
            self._submit_multipart_request(
                client, config, osutil, request_executor, transfer_future
            )
        else:
            self._submit_copy_request(
                client, config, osutil, request_executor, transfer_future
            )""", ['C14.a'])
V('c14-nonseekable-initial-le', ['C14'], 'upload.py', 'if len(self._initial_data) < threshold:', 'if len(self._initial_data) <= threshold:', ['C14.a'])
V('c14-legacy-download-gt', ['C14'], '__init__.py', 'if object_size >= self._config.multipart_threshold:', 'if object_size > self._config.multipart_threshold:', ['C14.a'])
V('c14-pool-compares-chunksize', ['C14'], 'processpool.py', 'if size < self._transfer_config.multipart_threshold:', 'if size < self._transfer_config.multipart_chunksize:', ['C14.a'])
V('c14-range-end-inclusive-off-by-one', ['C14', 'C02'], 'utils.py', 'end_range = start_range + part_size - 1\n    range_param', 'end_range = start_range + part_size\n    range_param', ['C14.b'])
V('c14-range-start-plus-one', ['C14', 'C02'], 'utils.py', '    start_range = part_index * part_size\n    if part_index == num_parts - 1:\n        end_range = \'\'\n        if total_size', '    start_range = part_index * part_size + 1\n    if part_index == num_parts - 1:\n        end_range = \'\'\n        if total_size', ['C14.b'])
V('c14-last-range-short', ['C14', 'C01'], 'utils.py', 'end_range = str(total_size - 1)', 'end_range = str(total_size - 2)', ['C14.b'])
V('c14-download-offset-other-size', ['C14', 'C02'], 'download.py', "'start_index': i * part_size,", "'start_index': i * config.io_chunksize,", ['C14.b'])
V('c14-pool-offset-next-part', ['C14', 'C02'], 'processpool.py', 'offset = i * part_size', 'offset = (i + 1) * part_size', ['C14.b'])
V('c14-num-parts-floor', ['C14', 'C02'], 'utils.py', 'return int(math.ceil(size / float(part_size)))', 'return int(math.floor(size / float(part_size)))', ['C14.b'])
V('c14-upload-start-byte-from-part-number', ['C14', 'C01'], 'upload.py', 'start_byte = chunksize * (part_number - 1)', 'start_byte = chunksize * part_number', ['C14.b'])
V('c14-upload-num-parts-unadjusted', ['C14', 'C01'], 'upload.py', 'num_parts = self._get_num_parts(transfer_future, chunksize)', 'num_parts = self._get_num_parts(transfer_future, 8 * 1024 * 1024)', ['C14.b'])
V('c14-copy-range-uses-part-number', ['C14', 'C01'], 'copies.py', """            extra_part_args['CopySourceRange'] = calculate_range_parameter(
                part_size,
                part_number - 1,""", """            extra_part_args['CopySourceRange'] = calculate_range_parameter(
                part_size,
                part_number,""", ['C14.b'])
V('c14-copy-last-size-wrong', ['C14', 'C09'], 'copies.py', 'return total_transfer_size - (part_index * part_size)', 'return total_transfer_size - ((part_index + 1) * part_size)', ['C14.b'])
V('c14-legacy-upload-offset', ['C14', 'C01'], '__init__.py', 'filename, part_size * (part_number - 1), part_size, callback', 'filename, part_size * part_number, part_size, callback', ['C14.b'])
V('c14-legacy-cursor-offset', ['C14', 'C02'], '__init__.py', 'current_index = part_size * part_index', 'current_index = part_size * part_index + 1', ['C14.b'])
V('c14-max-parts-100k', ['C14'], 'utils.py', 'MAX_PARTS = 10000', 'MAX_PARTS = 100000', ['C14.c'])
V('c14-min-chunk-1mb', ['C14'], 'utils.py', 'MIN_UPLOAD_CHUNKSIZE = 5 * (1024**2)', 'MIN_UPLOAD_CHUNKSIZE = 1 * (1024**2)', ['C14.c'])
V('c14-clamp-before-max-parts', ['C14'], 'utils.py', """        chunksize = current_chunksize
        if file_size is not None:
            chunksize = self._adjust_for_max_parts(chunksize, file_size)
        return self._adjust_for_chunksize_limits(chunksize)""", """        chunksize = self._adjust_for_chunksize_limits(current_chunksize)
        if file_size is not None:
            chunksize = self._adjust_for_max_parts(chunksize, file_size)
        return chunksize""", ['C14.c'])
V('c14-clamp-returns-current-above-max', ['C14'], 'utils.py', """            return self.max_size
        elif current_chunksize < self.min_size:""", """            return current_chunksize
        elif current_chunksize < self.min_size:""", ['C14.c'])
V('c14-doubling-adds', ['C14'], 'utils.py', '            chunksize *= 2\n', '            chunksize += 2\n', ['C14.c'])
V('c14-copy-parts-unadjusted', ['C14'], 'copies.py', """        part_size = adjuster.adjust_chunksize(
            part_size, transfer_future.meta.size
        )""", """        adjuster.adjust_chunksize(
            part_size, transfer_future.meta.size
        )""", ['C14.c'])
V('c14-twin-range-fstring-vars', ['C14'], 'download.py', """            range_parameter = calculate_range_parameter(
                part_size, i, num_parts
            )""", """            range_parameter = calculate_range_parameter(
                part_size, i, num_parts, None
            )""", kind='twin')
V('c14-twin-offset-commuted', ['C14'], 'download.py', "'start_index': i * part_size,", "'start_index': part_size * i,", kind='twin')
