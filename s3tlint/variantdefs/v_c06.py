from ..variants import V

V('c06-small-objects-write-final', ['C06'], 'download.py', """        self._temp_filename = self._osutil.get_temp_filename(fileobj)
        self._temp_fileobj = self._get_temp_fileobj()""", """        self._temp_filename = self._osutil.get_temp_filename(fileobj)
        if transfer_future.meta.size is not None and transfer_future.meta.size < 1024:
            self._temp_filename = fileobj
        self._temp_fileobj = self._get_temp_fileobj()""", ['C06.a'])
V('c06-open-final-directly', ['C06'], 'download.py', """    def _get_temp_fileobj(self):
        f = self._get_fileobj_from_filename(self._temp_filename)""", """    def _get_temp_fileobj(self):
        f = self._get_fileobj_from_filename(self._final_filename)""", ['C06.a'])
V('c06-rename-args-swapped', ['C06'], 'download.py', 'osutil.rename_file(fileobj.name, final_filename)', 'osutil.rename_file(final_filename, fileobj.name)', ['C06.a', 'C06.b'])
V('c06-rename-without-close', ['C06'], 'download.py', """        fileobj.close()
        osutil.rename_file(fileobj.name, final_filename)""", """        osutil.rename_file(fileobj.name, final_filename)
        fileobj.close()""", ['C06.b'])
V('c06-no-remove-cleanup', ['C06'], 'download.py', """        self._transfer_coordinator.add_failure_cleanup(
            self._osutil.remove_file, self._temp_filename
        )
        return f""", """        return f""", ['C06.c'])
V('c06-no-close-cleanup', ['C06'], 'download.py', """        self._transfer_coordinator.add_failure_cleanup(f.close)
        return f""", """        return f""", ['C06.c'])
V('c06-remove-cleanup-on-final', ['C06'], 'download.py', """            self._osutil.remove_file, self._temp_filename
        )""", """            self._osutil.remove_file, self._final_filename
        )""", ['C06.a', 'C06.c'])
V('c06-rename-task-not-final', ['C06', 'C04'], 'download.py', """                'osutil': self._osutil,
            },
            is_final=True,
        )""", """                'osutil': self._osutil,
            },
        )""", ['C06.b', 'C04.c'])
V('c06-rename-from-request-thread', ['C06', 'C10'], 'download.py', """            except S3_RETRYABLE_DOWNLOAD_ERRORS as e:
                logger.debug(""", """            except S3_RETRYABLE_DOWNLOAD_ERRORS as e:
                if hasattr(fileobj, 'name') and i < 0:
                    download_output_manager._osutil.rename_file(fileobj.name, fileobj.name)
                logger.debug(""", ['C06.b'])
V('c06-legacy-download-to-final', ['C06'], '__init__.py', """            self._download_file(
                bucket, key, temp_filename, object_size, extra_args, callback
            )""", """            self._download_file(
                bucket, key, filename, object_size, extra_args, callback
            )""", ['C06.a'])
V('c06-legacy-no-remove-on-error', ['C06'], '__init__.py', """            self._osutil.remove_file(temp_filename)
            raise
        else:""", """            raise
        else:""", ['C06.d'])
V('c06-legacy-rename-always', ['C06'], '__init__.py', """            self._osutil.remove_file(temp_filename)
            raise
        else:
            self._osutil.rename_file(temp_filename, filename)""", """            self._osutil.remove_file(temp_filename)
            raise
        finally:
            self._osutil.rename_file(temp_filename, filename)""", ['C06.b'])
V('c06-pool-allocate-final', ['C06', 'C19'], 'processpool.py', """        self._osutil.allocate(temp_filename, size)
        return temp_filename""", """        self._osutil.allocate(download_file_request.filename, size)
        return temp_filename""", ['C06.a'])
V('c06-pool-no-remove-on-failure', ['C06', 'C19'], 'processpool.py', """        if self._transfer_monitor.get_exception(transfer_id):
            self._osutil.remove_file(temp_filename)
        else:
            self._do_file_rename(transfer_id, temp_filename, filename)""", """        if not self._transfer_monitor.get_exception(transfer_id):
            self._do_file_rename(transfer_id, temp_filename, filename)""", ['C06.d'])
V('c06-pool-rename-even-on-failure', ['C06', 'C19'], 'processpool.py', """        if self._transfer_monitor.get_exception(transfer_id):
            self._osutil.remove_file(temp_filename)
        else:
            self._do_file_rename(transfer_id, temp_filename, filename)""", """        self._do_file_rename(transfer_id, temp_filename, filename)""", ['C06.d'])
V('c06-pool-done-before-rename', ['C06', 'C19'], 'processpool.py', """        if self._transfer_monitor.get_exception(transfer_id):
            self._osutil.remove_file(temp_filename)
        else:
            self._do_file_rename(transfer_id, temp_filename, filename)
        self._transfer_monitor.notify_done(transfer_id)""", """        self._transfer_monitor.notify_done(transfer_id)
        if self._transfer_monitor.get_exception(transfer_id):
            self._osutil.remove_file(temp_filename)
        else:
            self._do_file_rename(transfer_id, temp_filename, filename)""", ['C06.d'])
V('c06-pool-rename-failure-leaves-temp', ['C06', 'C19'], 'processpool.py', """            self._transfer_monitor.notify_exception(transfer_id, e)
            self._osutil.remove_file(temp_filename)""", """            self._transfer_monitor.notify_exception(transfer_id, e)""", ['C06.d'])
V('c06-crt-recv-into-final', ['C06', 'C20'], 'crt.py', "make_request_args['recv_filepath'] = recv_filepath", "make_request_args['recv_filepath'] = call_args.fileobj if recv_filepath else None", ['C06.a'])
V('c06-crt-error-keeps-temp', ['C06', 'C20'], 'crt.py', """        if error:
            self._osutil.remove_file(self._temp_filename)
        else:""", """        if error:
            pass
        else:""", ['C06.d'])
V('c06-crt-rename-failure-silent', ['C06', 'C20', 'C03'], 'crt.py', """                self._osutil.remove_file(self._temp_filename)
                # the CRT future has done already at this point
                self._coordinator.set_exception(e)""", """                self._osutil.remove_file(self._temp_filename)""", ['C06.d', 'C03.c'])
V('c06-allocate-leaves-file', ['C06'], 'utils.py', """        except OSError:
            self.remove_file(filename)
            raise""", """        except OSError:
            raise""", ['C06.d'])
V('c06-twin-temp-local', ['C06'], 'download.py', """        self._temp_filename = self._osutil.get_temp_filename(fileobj)
        self._temp_fileobj = self._get_temp_fileobj()""", """        temp_name = self._osutil.get_temp_filename(fileobj)
        self._temp_filename = temp_name
        self._temp_fileobj = self._get_temp_fileobj()""", kind='twin')
