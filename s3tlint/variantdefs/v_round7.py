"""Variants for the obligations added after the seventh seeded round."""
from ..variants import V

V('c03-inline-write-bypasses-the-funnel', ['C03', 'C02', 'C16'], 'download.py', """        for task in tasks:
            task()""", """        for task in tasks:
            task._execute_main(task._get_all_main_kwargs())""", ['C03.a'])
