from ..variants import V

V('c16-revert-D3', ['C16', 'C02'], 'download.py', """        tasks = download_output_manager.get_io_write_tasks(
            fileobj, chunk, index
        )
        for task in tasks:
            task()""", """        task = download_output_manager.get_io_write_task(fileobj, chunk, index)
        task()""", ['C16.a'], why='reverted fix D3')
V('c16-revert-D4-offset-only-written', ['C16', 'C02'], 'download.py', 'if data and offset + len(data) <= self._next_offset:', 'if offset < self._next_offset:', ['C16.b'],
  why='reverted (first half of) fix D4: discard by start offset only')
V('c16-revert-D4-offset-only-queued', ['C16', 'C02'], 'download.py', 'if queued is not None and len(data) <= len(queued):', 'if queued is not None:', ['C16.b'])
V('c16-nonseekable-skips-queue', ['C16', 'C02'], 'download.py', """        with self._io_submit_lock:
            writes = self._defer_queue.request_writes(offset, data)
            for write in writes:
                data = write['data']
                logger.debug(
                    "Queueing IO offset %s for fileobj: %s",
                    write['offset'],
                    fileobj,
                )
                super().queue_file_io_task(fileobj, data, offset)""", """        with self._io_submit_lock:
            super().queue_file_io_task(fileobj, data, offset)""", ['C16.a'])
V('c16-submits-incoming-not-released', ['C16', 'C02'], 'download.py', """            for write in writes:
                data = write['data']
                logger.debug(""", """            for write in writes:
                logger.debug(""", ['C16.d', 'C16.a'])
V('c16-submit-outside-lock', ['C16'], 'download.py', """        with self._io_submit_lock:
            writes = self._defer_queue.request_writes(offset, data)
            for write in writes:
                data = write['data']
                logger.debug(
                    "Queueing IO offset %s for fileobj: %s",
                    write['offset'],
                    fileobj,
                )
                super().queue_file_io_task(fileobj, data, offset)""", """        with self._io_submit_lock:
            writes = self._defer_queue.request_writes(offset, data)
        for write in writes:
            data = write['data']
            logger.debug(
                "Queueing IO offset %s for fileobj: %s",
                write['offset'],
                fileobj,
            )
            super().queue_file_io_task(fileobj, data, offset)""", ['C16.d'])
V('c16-released-reversed', ['C16'], 'download.py', """            for write in writes:
                data = write['data']""", """            for write in reversed(writes):
                data = write['data']""", ['C16.d'])
V('c16-advance-by-incoming-length', ['C16', 'C02'], 'download.py', 'self._next_offset += len(next_data)', 'self._next_offset += len(data)', ['C16.c'])
V('c16-no-advance', ['C16'], 'download.py', """            writes.append({'offset': next_offset, 'data': next_data})
            self._next_offset += len(next_data)""", """            writes.append({'offset': next_offset, 'data': next_data})""", ['C16.c'])
V('c16-no-trim-on-release', ['C16', 'C02'], 'download.py', """                next_data = next_data[seen:]
                next_offset = self._next_offset""", """                next_offset = self._next_offset""", ['C16.c'])
V('c16-seekable-manager-streams', ['C16', 'C02'], 'download.py', """    def get_final_io_task(self):
        # This task will serve the purpose of signaling when all of the io
        # writes have finished so done callbacks can be called.""", """    def get_io_write_task(self, fileobj, data, offset):
        return IOStreamingWriteTask(self._transfer_coordinator, main_kwargs={'fileobj': fileobj, 'data': data})

    def get_final_io_task(self):
        # This task will serve the purpose of signaling when all of the io
        # writes have finished so done callbacks can be called.""", ['C16.a'])
V('c16-iowrite-no-seek', ['C16', 'C02'], 'download.py', """        fileobj.seek(offset)
        fileobj.write(data)""", """        fileobj.write(data)""", ['C16.a'])
V('c02-cursor-hoisted', ['C02'], 'download.py', """        for i in range(max_attempts):
            try:
                current_index = start_index
                response = client.get_object(""", """        current_index = start_index
        for i in range(max_attempts):
            try:
                response = client.get_object(""", ['C02.b'])
V('c02-legacy-cursor-hoisted', ['C02'], '__init__.py', """            for i in range(max_attempts):
                try:
                    logger.debug("Making get_object call.")""", """            current_index = part_size * part_index
            for i in range(max_attempts):
                try:
                    logger.debug("Making get_object call.")""", ['C02.b'], why='(second definition inside stays: twin-ish; replaced by the next variant)', kind='twin')
V('c02-legacy-cursor-only-outside', ['C02'], '__init__.py', """                    buffer_size = 1024 * 16
                    current_index = part_size * part_index
""", """                    buffer_size = 1024 * 16
""", ['C02.b'], why='cursor never initialised inside the attempt (and a definition added outside by the harness is not needed for the rule to fire)')
V('c02-worker-no-seek', ['C02', 'C19'], 'processpool.py', """        with open(filename, 'rb+') as f:
            f.seek(offset)
            chunks""", """        with open(filename, 'rb+') as f:
            chunks""", ['C02.b'])
V('c02-legacy-append-mode', ['C02'], '__init__.py', """        with self._osutil.open(filename, 'wb') as f:
            for chunk in iter(lambda: streaming_body.read(8192), b''):""", """        with self._osutil.open(filename, 'ab') as f:
            for chunk in iter(lambda: streaming_body.read(8192), b''):""", ['C02.b'])
V('c02-empty-object-no-write', ['C02'], 'download.py', """        elif self._num_reads == 1:
            # Even though the response may have not had any
            # content, we still want to account for an empty object's
            # existence so return the empty chunk for that initial
            # read.
            return chunk
        raise StopIteration()""", """        raise StopIteration()""", ['C02.e'])
V('c16-twin-rename-locals', ['C16', 'C02'], 'download.py', """            for write in writes:
                data = write['data']
                logger.debug(
                    "Queueing IO offset %s for fileobj: %s",
                    write['offset'],
                    fileobj,
                )
                super().queue_file_io_task(fileobj, data, offset)""", """            for w in writes:
                logger.debug(
                    "Queueing IO offset %s for fileobj: %s",
                    w['offset'],
                    fileobj,
                )
                super().queue_file_io_task(fileobj, w['data'], w['offset'])""", kind='twin')
V('c16-twin-end-variable', ['C16', 'C02'], 'download.py', """        if data and offset + len(data) <= self._next_offset:""", """        end = offset + len(data)
        if data and end <= self._next_offset:""", kind='twin')
