"""Variants for the rules and obligations added after the fifth seeded round."""
from ..variants import V

V('c08-hooks-looked-up-on-the-class', ['C08', 'C09'], 'utils.py', 'if hasattr(subscriber, callback_name):', 'if callback_name in vars(type(subscriber)):', ['C08.g'])
V('c08-twin-hooks-early-continue', ['C08', 'C09'], 'utils.py', """        if hasattr(subscriber, callback_name):
            callbacks.append(
                functools.partial(
                    getattr(subscriber, callback_name), future=transfer_future
                )
            )""", """        if not hasattr(subscriber, callback_name):
            continue
        hook = getattr(subscriber, callback_name)
        callbacks.append(functools.partial(hook, future=transfer_future))""", kind='twin', why='the same decision as an early continue, the hook through a local')
V('c11-legacy-io-queue-unbounded', ['C11'], '__init__.py', """    def _init(self, maxsize):
        self._shutdown = False
        self._shutdown_lock = threading.Lock()
        # queue.Queue is an old style class so we don't use super().
        return queue.Queue._init(self, maxsize)""", """    def __init__(self, maxsize=0):
        super().__init__()
        self._shutdown = False
        self._shutdown_lock = threading.Lock()""", ['C11.g'])
V('c11-twin-legacy-io-queue-init-forwards', ['C11'], '__init__.py', """    def _init(self, maxsize):
        self._shutdown = False
        self._shutdown_lock = threading.Lock()
        # queue.Queue is an old style class so we don't use super().
        return queue.Queue._init(self, maxsize)""", """    def __init__(self, maxsize=0):
        super().__init__(maxsize)
        self._shutdown = False
        self._shutdown_lock = threading.Lock()""", kind='twin', why='the bound is forwarded through the constructor')
V('c12-wait-threshold-one', ['C12', 'C04', 'C11'], 'utils.py', """                    while self._count == 0:
                        self._condition.wait()""", """                    while self._count <= 1:
                        self._condition.wait()""", ['C12.i', 'C04.e'])
V('c12-twin-wait-while-not-count', ['C12', 'C04', 'C11'], 'utils.py', """                    while self._count == 0:
                        self._condition.wait()""", """                    while not self._count:
                        self._condition.wait()""", kind='twin', why='the count is a non-negative int')
V('c12-pending-peeked-at-the-wrong-end', ['C12', 'C11'], 'utils.py', 'if self._lowest_sequence[tag] == queued[-1]:', 'if self._lowest_sequence[tag] == queued[0]:', ['C12.i'])
V('c12-pending-sorted-ascending', ['C12', 'C11'], 'utils.py', 'self._pending_release[tag].sort(reverse=True)', 'self._pending_release[tag].sort()', ['C12.i'])
V('c12-lowest-advances-without-permit', ['C12', 'C11', 'C04'], 'utils.py', """                        queued.pop()
                        self._lowest_sequence[tag] += 1
                        self._count += 1""", """                        queued.pop()
                        self._lowest_sequence[tag] += 1""", ['C12.i'])
V('c12-count-taken-before-the-tag-lookup', ['C12', 'C11', 'C04'], 'utils.py', """            sequence_number = self._tag_sequences[tag]
            if sequence_number == 0:
                # First time seeing the tag, so record we're at 0.
                self._lowest_sequence[tag] = sequence_number
            self._tag_sequences[tag] += 1
            self._count -= 1""", """            self._count -= 1
            sequence_number = self._tag_sequences[tag]
            if sequence_number == 0:
                # First time seeing the tag, so record we're at 0.
                self._lowest_sequence[tag] = sequence_number
            self._tag_sequences[tag] += 1""", ['C12.j'])
V('c06-rename-removes-first-everywhere', ['C06', 'C19'], 'compat.py', "if sys.platform.startswith('win'):", "if True:", ['C06.b'])
V('c06-twin-rename-is-os-replace', ['C06', 'C19'], 'compat.py', '    rename_file = os.rename', '    rename_file = os.replace', kind='twin', why='os.replace is the atomic replace on every platform')
V('c02-fallocate-rounds-up', ['C02', 'C06', 'C19'], 'compat.py', 'os.posix_fallocate(fileobj.fileno(), 0, size)', 'os.posix_fallocate(fileobj.fileno(), 0, max(size, 1))', ['C06.d'])
V('c03-exit-suppresses', ['C03', 'C01'], 'utils.py', """    def __exit__(self, *args, **kwargs):
        self.close()

    def __iter__(self):""", """    def __exit__(self, *args, **kwargs):
        self.close()
        return True

    def __iter__(self):""", ['C03.c'])
V('c16-write-task-run-outside-the-funnel', ['C16', 'C02', 'C03'], 'download.py', """        for task in tasks:
            task()""", """        for task in tasks:
            task._main(**task._get_all_main_kwargs())""", ['C03.a'])
V('c19-job-counted-on-pickup', ['C19'], 'processpool.py', """            if not self._transfer_monitor.get_exception(job.transfer_id):
                self._run_get_object_job(job)
            else:
                logger.debug(
                    'Skipping get object job %s because there was a previous '
                    'exception.',
                    job,
                )
            remaining = self._transfer_monitor.notify_job_complete(
                job.transfer_id
            )""", """            remaining = self._transfer_monitor.notify_job_complete(
                job.transfer_id
            )
            if not self._transfer_monitor.get_exception(job.transfer_id):
                self._run_get_object_job(job)
            else:
                logger.debug(
                    'Skipping get object job %s because there was a previous '
                    'exception.',
                    job,
                )""", ['C19.b'])
V('c10-pool-started-twice', ['C10', 'C19'], 'processpool.py', """        with self._start_lock:
            if not self._started:
                self._start()""", """        if not self._started:
            with self._start_lock:
                self._start()""", ['C19.f'])
V('c09-legacy-rewind-reported-while-suppressed', ['C09'], '__init__.py', """        self._fileobj.seek(self._start_byte + where)
        if self._callback is not None and self._callback_enabled:""", """        self._fileobj.seek(self._start_byte + where)
        if self._callback is not None:""", ['C09.b'])
V('c17-done-over-two-fields', ['C17', 'C03', 'C08'], 'futures.py', "return self.status in ['failed', 'cancelled', 'success']", "return self._status == 'success' or self._exception is not None", ['C17.b'])
V('c15-copy-source-written-into', ['C15', 'C18'], 'copies.py', 'return copy.copy(copy_source)', 'return copy_source', ['C18.u'])
V('c15-twin-copy-source-dict-copy', ['C15', 'C18'], 'copies.py', 'return copy.copy(copy_source)', 'return dict(copy_source)', kind='twin', why='dict(x) is a shallow copy too')
V('c14-threshold-capped-in-config', ['C14'], 'manager.py', '        self.multipart_threshold = multipart_threshold', '        self.multipart_threshold = min(multipart_threshold, 5 * GB)', ['C10.a'])
V('c04-legacy-sentinel-before-the-join', ['C04', 'C06', 'C03'], '__init__.py', """        try:
            with self._executor_cls(max_workers=max_workers) as executor:
                list(executor.map(download_partial, range(num_parts)))
        finally:
            self._ioqueue.put(SHUTDOWN_SENTINEL)""", """        with self._executor_cls(max_workers=max_workers) as executor:
            try:
                list(executor.map(download_partial, range(num_parts)))
            finally:
                self._ioqueue.put(SHUTDOWN_SENTINEL)""", ['C06.d'])
V('c07-cleanups-not-isolated', ['C07', 'C08', 'C06', 'C05'], 'futures.py', """        for callback in callbacks:
            self._run_callback(callback)

    def _run_callback(self, callback):
        try:
            callback()""", """        callback = None
        try:
            for callback in callbacks:
                callback()""", ['C08.c'])
