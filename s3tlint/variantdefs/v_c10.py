from ..variants import V

V('c10-swap-queue-and-concurrency', ['C10'], 'manager.py', """            max_size=self._config.max_request_queue_size,
            max_num_threads=self._config.max_request_concurrency,""", """            max_size=self._config.max_request_concurrency,
            max_num_threads=self._config.max_request_queue_size,""", ['C10.a'])
V('c10-submission-uses-request-concurrency', ['C10'], 'manager.py', 'max_num_threads=self._config.max_submission_concurrency,', 'max_num_threads=self._config.max_request_concurrency,', ['C10.a'])
V('c10-io-two-threads', ['C10', 'C06', 'C16'], 'manager.py', """            max_size=self._config.max_io_queue_size,
            max_num_threads=1,""", """            max_size=self._config.max_io_queue_size,
            max_num_threads=2,""", ['C10.a'])
V('c10-io-queue-from-request-queue', ['C10', 'C11'], 'manager.py', 'max_size=self._config.max_io_queue_size,', 'max_size=self._config.max_request_queue_size,', ['C10.a'])
V('c10-upload-tag-swapped-field', ['C10', 'C11'], 'manager.py', 'self._config.max_in_memory_upload_chunks', 'self._config.max_in_memory_download_chunks', ['C10.a'])
V('c10-download-tag-counting-sem', ['C10', 'C11'], 'manager.py', """                IN_MEMORY_DOWNLOAD_TAG: SlidingWindowSemaphore(""", """                IN_MEMORY_DOWNLOAD_TAG: TaskSemaphore(""", ['C10.a'])
V('c10-config-field-crossed', ['C10'], 'manager.py', 'self.max_request_queue_size = max_request_queue_size', 'self.max_request_queue_size = max_submission_queue_size', ['C10.a'])
V('c10-bounded-executor-ignores-threads', ['C10'], 'futures.py', 'self._executor = executor_cls(max_workers=self._max_num_threads)', 'self._executor = executor_cls(max_workers=None)', ['C10.a'])
V('c10-stage-sem-fixed', ['C10'], 'futures.py', 'self._semaphore = TaskSemaphore(max_size)', 'self._semaphore = TaskSemaphore(1000)', ['C10.a'])
V('c10-head-in-request-task', ['C10'], 'download.py', """        last_exception = None
        for i in range(max_attempts):
            try:
                current_index = start_index""", """        last_exception = None
        client.head_object(Bucket=bucket, Key=key)
        for i in range(max_attempts):
            try:
                current_index = start_index""", ['C10.b'])
V('c10-copy-from-submission', ['C10'], 'copies.py', """        call_args = transfer_future.meta.call_args

        # Get the needed progress callbacks for the task
        progress_callbacks = get_callbacks(transfer_future, 'progress')

        # Submit the request of a single copy.""", """        call_args = transfer_future.meta.call_args
        if transfer_future.meta.size == 0:
            client.copy_object(CopySource=call_args.copy_source, Bucket=call_args.bucket, Key=call_args.key)

        # Get the needed progress callbacks for the task
        progress_callbacks = get_callbacks(transfer_future, 'progress')

        # Submit the request of a single copy.""", ['C10.b'])
V('c10-write-task-on-request-executor', ['C10', 'C06', 'C16'], 'download.py', """        self._transfer_coordinator.submit(
            self._io_executor, self.get_io_write_task(fileobj, data, offset)
        )""", """        self._transfer_coordinator.submit(
            self._request_executor, self.get_io_write_task(fileobj, data, offset)
        )""", ['C10.b'])
V('c10-final-task-on-request-executor', ['C10', 'C06'], 'download.py', """        finalize_download_invoker = CountCallbackInvoker(
            self._get_final_io_task_submission_callback(
                download_output_manager, io_executor
            )
        )""", """        finalize_download_invoker = CountCallbackInvoker(
            self._get_final_io_task_submission_callback(
                download_output_manager, request_executor
            )
        )""", ['C10.b', 'C06.b'])
V('c10-delete-on-io-executor', ['C10'], 'manager.py', """        main_kwargs = {
            'client': self._client,
            'config': self._config,
            'osutil': self._osutil,
            'request_executor': self._request_executor,""", """        main_kwargs = {
            'client': self._client,
            'config': self._config,
            'osutil': self._osutil,
            'request_executor': self._io_executor,""", ['C10.a'])
V('c10-part-task-inline', ['C10'], 'upload.py', """        complete_multipart_extra_args = self._extra_complete_multipart_args(
            call_args.extra_args
        )
        # Submit the request to complete the multipart upload.""", """        complete_multipart_extra_args = self._extra_complete_multipart_args(
            call_args.extra_args
        )
        probe = CreateMultipartUploadTask(transfer_coordinator=self._transfer_coordinator, main_kwargs={})
        probe()
        # Submit the request to complete the multipart upload.""", ['C10.b'])
V('c10-twin-positional-executor-args', ['C10'], 'manager.py', """        self._io_executor = BoundedExecutor(
            max_size=self._config.max_io_queue_size,
            max_num_threads=1,
            executor_cls=executor_cls,
        )""", """        self._io_executor = BoundedExecutor(
            self._config.max_io_queue_size, 1, executor_cls=executor_cls,
        )""", kind='twin')
