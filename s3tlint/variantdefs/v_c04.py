from ..variants import V

V('c04-callbacks-before-event', ['C04', 'C08'], 'futures.py', """        self._done_event.set()
        self._run_done_callbacks()""", """        self._run_done_callbacks()
        self._done_event.set()""", ['C04.b'])
V('c04-event-only-on-failure', ['C04'], 'futures.py', """            self._run_failure_cleanups()
        self._done_event.set()""", """            self._run_failure_cleanups()
            self._done_event.set()""", ['C04.b'])
V('c04-download-no-finalize', ['C04'], 'download.py', """        finalize_download_invoker.finalize()
""", """        pass
""", ['C04.c'])
V('c04-upload-complete-not-final', ['C04', 'C08'], 'upload.py', """                    'parts': part_futures,
                },
                is_final=True,""", """                    'parts': part_futures,
                },""", ['C04.c'])
V('c04-noop-not-final', ['C04'], 'download.py', """        done_callbacks=None,
        is_final=True,
    ):""", """        done_callbacks=None,
        is_final=False,
    ):""", ['C04.c'])
V('c04-decrement-missing', ['C04'], 'download.py', 'done_callbacks=[finalize_download_invoker.decrement],', 'done_callbacks=[],', ['C04.c'])
V('c04-put-object-two-finals', ['C04', 'C08'], 'delete.py', """                is_final=True,
            ),
        )""", """                is_final=True,
            ),
        )
        self._transfer_coordinator.submit(
            request_executor,
            DeleteObjectTask(
                transfer_coordinator=self._transfer_coordinator,
                main_kwargs={'client': client, 'bucket': call_args.bucket, 'key': call_args.key, 'extra_args': call_args.extra_args},
                is_final=True,
            ),
        )""", ['C04.c'])
V('c04-immediate-download-no-final', ['C04'], 'download.py', 'done_callbacks=[final_task],', 'done_callbacks=[],', ['C04.c'])
V('c04-wait-if-not-while', ['C04', 'C12'], 'utils.py', """                    while self._count == 0:
                        self._condition.wait()""", """                    if self._count == 0:
                        self._condition.wait()""", ['C04.e'])
V('c04-notify-removed', ['C04', 'C12'], 'utils.py', """                self._count += 1
                self._condition.notify()
                queued""", """                self._count += 1
                queued""", ['C04.e'])
V('c04-nonblocking-waits', ['C04', 'C12'], 'utils.py', """                if not blocking:
                    raise NoResourcesAvailable(f"Cannot acquire tag '{tag}'")
                else:
                    while self._count == 0:
                        self._condition.wait()""", """                while self._count == 0:
                    self._condition.wait()""", ['C04.e'])
V('c04-release-wrong-token', ['C04', 'C12'], 'futures.py', 'semaphore.release, task.transfer_id, acquire_token', 'semaphore.release, task.transfer_id, None', ['C04.f'])
V('c04-release-stage-sem', ['C04', 'C11', 'C12'], 'futures.py', 'semaphore.release, task.transfer_id, acquire_token', 'self._semaphore.release, task.transfer_id, acquire_token', ['C04.f'])
V('c04-no-done-callback', ['C04', 'C10', 'C12'], 'futures.py', """        future.add_done_callback(release_callback)
        return future""", """        return future""", ['C04.f'])
V('c04-nonblocking-submit', ['C04', 'C10'], 'futures.py', 'def submit(self, task, tag=None, block=True):', 'def submit(self, task, tag=None, block=False):', ['C04.f'])
V('c04-tasksem-ignores-failed-acquire', ['C04', 'C12'], 'utils.py', """        if not self._semaphore.acquire(blocking):
            raise NoResourcesAvailable(f"Cannot acquire tag '{tag}'")""", """        self._semaphore.acquire(blocking)""", ['C04.e'])
V('c04-complete-before-parts', ['C04', 'C05', 'C01'], 'copies.py', """        # Submit requests to upload the parts of the file.
        part_futures = []
        progress_callbacks = get_callbacks(transfer_future, 'progress')
""", """        part_futures = []
        progress_callbacks = get_callbacks(transfer_future, 'progress')
        self._transfer_coordinator.submit(
            request_executor,
            CompleteMultipartUploadTask(
                transfer_coordinator=self._transfer_coordinator,
                main_kwargs={'client': client, 'bucket': call_args.bucket, 'key': call_args.key, 'extra_args': {}},
                pending_main_kwargs={'upload_id': create_multipart_future, 'parts': part_futures},
            ),
        )
""", ['C04.d'])
# twins
V('c04-twin-notify-all', ['C04', 'C12'], 'utils.py', 'self._condition.notify()', 'self._condition.notify_all()', kind='twin')
V('c04-twin-with-condition', ['C04', 'C12'], 'utils.py', """        self._condition.acquire()
        try:
            if self._count == 0:
                if not blocking:
                    raise NoResourcesAvailable(f"Cannot acquire tag '{tag}'")
                else:
                    while self._count == 0:
                        self._condition.wait()
            # self._count is no longer zero.
            # First, check if this is the first time we're seeing this tag.
            sequence_number = self._tag_sequences[tag]
            if sequence_number == 0:
                # First time seeing the tag, so record we're at 0.
                self._lowest_sequence[tag] = sequence_number
            self._tag_sequences[tag] += 1
            self._count -= 1
            return sequence_number
        finally:
            self._condition.release()""", """        with self._condition:
            if self._count == 0:
                if not blocking:
                    raise NoResourcesAvailable(f"Cannot acquire tag '{tag}'")
                while self._count == 0:
                    self._condition.wait()
            sequence_number = self._tag_sequences[tag]
            if sequence_number == 0:
                self._lowest_sequence[tag] = sequence_number
            self._tag_sequences[tag] += 1
            self._count -= 1
            return sequence_number""", kind='twin')
V('c04-twin-announce-local', ['C04', 'C08', 'C05'], 'futures.py', """        if self.status != 'success':
            self._run_failure_cleanups()""", """        failed = self.status != 'success'
        if self.status != 'success':
            self._run_failure_cleanups()""", kind='twin')
