from ..variants import V

V('c13-revert-D5', ['C13'], 'bandwidth.py', """            self._leaky_bucket.cancel_scheduled_consumption(
                self._request_token
            )
            raise self._transfer_coordinator.exception""", """            raise self._transfer_coordinator.exception""", ['C13.c'])
V('c13-cancel-other-token', ['C13'], 'bandwidth.py', """            self._leaky_bucket.cancel_scheduled_consumption(
                self._request_token
            )""", """            self._leaky_bucket.cancel_scheduled_consumption(
                RequestToken()
            )""", ['C13.c'])
V('c13-bucket-per-upload', ['C13'], 'manager.py', """        extra_main_kwargs = {}
        if self._bandwidth_limiter:
            extra_main_kwargs['bandwidth_limiter'] = self._bandwidth_limiter
        return self._submit_transfer(
            call_args, UploadSubmissionTask, extra_main_kwargs
        )""", """        extra_main_kwargs = {}
        if self._bandwidth_limiter:
            extra_main_kwargs['bandwidth_limiter'] = BandwidthLimiter(LeakyBucket(self._config.max_bandwidth))
        return self._submit_transfer(
            call_args, UploadSubmissionTask, extra_main_kwargs
        )""", ['C13.a'])
V('c13-download-not-limited', ['C13'], 'manager.py', """        extra_main_kwargs = {'io_executor': self._io_executor}
        if self._bandwidth_limiter:
            extra_main_kwargs['bandwidth_limiter'] = self._bandwidth_limiter""", """        extra_main_kwargs = {'io_executor': self._io_executor}""", ['C13.a'])
V('c13-bucket-wrong-rate', ['C13'], 'manager.py', 'leaky_bucket = LeakyBucket(self._config.max_bandwidth)', 'leaky_bucket = LeakyBucket(self._config.io_chunksize)', ['C13.a'])
V('c13-put-body-unwrapped', ['C13', 'C03'], 'upload.py', """        # to completely read all of the data.
        fileobj = self._wrap_fileobj(fileobj)

        callbacks = self._get_progress_callbacks(transfer_future)
        close_callbacks = self._get_close_callbacks(callbacks)
        size = transfer_future.meta.size""", """        # to completely read all of the data.

        callbacks = self._get_progress_callbacks(transfer_future)
        close_callbacks = self._get_close_callbacks(callbacks)
        size = transfer_future.meta.size""", ['C13.a'])
V('c13-stream-parts-unwrapped', ['C13', 'C03'], 'upload.py', 'fileobj = self._wrap_fileobj(BytesIO(data))', 'fileobj = BytesIO(data)', ['C13.a'])
V('c13-wrap-ignores-limiter', ['C13'], 'upload.py', """        if self._bandwidth_limiter:
            fileobj = self._bandwidth_limiter.get_bandwith_limited_stream(
                fileobj, self._transfer_coordinator, enabled=False
            )
        return fileobj""", """        return fileobj""", ['C13.a'])
V('c13-manager-cls-drops-limiter', ['C13'], 'upload.py', ')(osutil, self._transfer_coordinator, bandwidth_limiter)', ')(osutil, self._transfer_coordinator)', ['C13.a'])
V('c13-get-wrap-outside-attempt', ['C13'], 'download.py', """                if bandwidth_limiter:
                    streaming_body = (
                        bandwidth_limiter.get_bandwith_limited_stream(
                            streaming_body, self._transfer_coordinator
                        )
                    )

                chunks = DownloadChunkIterator(streaming_body, io_chunksize)""", """                chunks = DownloadChunkIterator(streaming_body, io_chunksize)""", ['C13.a'])
V('c13-ranged-get-drops-limiter', ['C13'], 'download.py', """                        'io_chunksize': config.io_chunksize,
                        'bandwidth_limiter': bandwidth_limiter,
                    },
                    done_callbacks=[finalize_download_invoker.decrement],""", """                        'io_chunksize': config.io_chunksize,
                    },
                    done_callbacks=[finalize_download_invoker.decrement],""", ['C13.a'])
V('c13-stream-own-bucket', ['C13'], 'bandwidth.py', """        stream = BandwidthLimitedStream(
            fileobj, self._leaky_bucket, transfer_coordinator, self._time_utils
        )""", """        stream = BandwidthLimitedStream(
            fileobj, LeakyBucket(self._leaky_bucket._max_rate), transfer_coordinator, self._time_utils
        )""", ['C13.a'])
V('c13-wait-swallows-error', ['C13', 'C07'], 'bandwidth.py', """            raise self._transfer_coordinator.exception

    def signal_transferring""", """            return

    def signal_transferring""", ['C13.b'])
V('c13-close-never-charges', ['C13'], 'bandwidth.py', """        if self._bandwidth_limiting_enabled and self._bytes_seen:
            # This handles""", """        if self._bandwidth_limiting_enabled and self._bytes_seen > self._bytes_threshold:
            # This handles""", ['C13.d'])
V('c13-read-after-threshold-unthrottled', ['C13'], 'bandwidth.py', """        self._consume_through_leaky_bucket()
        return self._fileobj.read(amount)""", """        return self._fileobj.read(amount)""", ['C13.d'])
V('c13-bytes-seen-not-reset', ['C13'], 'bandwidth.py', """                self._bytes_seen = 0
                return""", """                return""", ['C13.d'])
V('c13-scheduler-touched-without-lock', ['C13'], 'bandwidth.py', """        with self._lock:
            if self._consumption_scheduler.is_scheduled(request_token):
                self._consumption_scheduler.process_scheduled_consumption(
                    request_token
                )""", """        if self._consumption_scheduler.is_scheduled(request_token):
            self._consumption_scheduler.process_scheduled_consumption(
                request_token
            )""", ['C13.c'])
V('c13-twin-cancel-before-else', ['C13'], 'bandwidth.py', """                self._leaky_bucket.consume(
                    self._bytes_seen, self._request_token
                )""", """                amount = self._bytes_seen
                self._leaky_bucket.consume(
                    amount, self._request_token
                )""", kind='twin', why='charging through a local is behaviour preserving')
