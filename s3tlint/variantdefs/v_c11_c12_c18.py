from ..variants import V

# ---- C18 ---------------------------------------------------------------
V('c18-joins-not-in-finally', ['C18', 'C04'], 'manager.py', """            raise
        finally:
            # Shutdown all of the executors.
            self._submission_executor.shutdown()
            self._request_executor.shutdown()
            self._io_executor.shutdown()""", """            raise
        # Shutdown all of the executors.
        self._submission_executor.shutdown()
        self._request_executor.shutdown()
        self._io_executor.shutdown()""", ['C18.a'])
V('c18-io-joined-first', ['C18'], 'manager.py', """            self._submission_executor.shutdown()
            self._request_executor.shutdown()
            self._io_executor.shutdown()""", """            self._io_executor.shutdown()
            self._submission_executor.shutdown()
            self._request_executor.shutdown()""", ['C18.a'])
V('c18-request-join-skipped', ['C18', 'C04'], 'manager.py', """            self._submission_executor.shutdown()
            self._request_executor.shutdown()
            self._io_executor.shutdown()""", """            self._submission_executor.shutdown()
            self._io_executor.shutdown()""", ['C18.a'])
V('c18-join-no-wait', ['C18'], 'manager.py', """            self._request_executor.shutdown()
            self._io_executor.shutdown()""", """            self._request_executor.shutdown(False)
            self._io_executor.shutdown()""", ['C18.a'])
V('c18-executor-shutdown-nowait-default', ['C18'], 'futures.py', """    def shutdown(self, wait=True):
        self._executor.shutdown(wait)


class ExecutorFuture""", """    def shutdown(self, wait=False):
        self._executor.shutdown(wait)


class ExecutorFuture""", ['C18.a'])
V('c18-no-wait-for-transfers', ['C18'], 'manager.py', """            self._coordinator_controller.wait()
        except KeyboardInterrupt:""", """            pass
        except KeyboardInterrupt:""", ['C18.a'])
V('c18-manager-keeps-last-future', ['C18'], 'manager.py', """        # Increment the unique id counter for future transfer requests
        self._id_counter += 1""", """        # Increment the unique id counter for future transfer requests
        self._id_counter += 1
        self._last_components = components""", ['C18.c', 'C18.u'])
V('c18-upload-no-copy', ['C18'], 'manager.py', 'extra_args = extra_args.copy() if extra_args else {}', 'extra_args = extra_args if extra_args else {}', ['C18.c', 'C18.u'])
V('c18-class-level-list-mutated', ['C18', 'C15'], 'upload.py', """        extra_part_args = self._extra_upload_part_args(call_args.extra_args)
""", """        extra_part_args = self._extra_upload_part_args(call_args.extra_args)
        if 'ContentMD5' in call_args.extra_args:
            self.UPLOAD_PART_ARGS.append('ContentMD5')
""", ['C18.c', 'C18.u'])
V('c18-untracked-before-start', ['C18'], 'manager.py', """        self._coordinator_controller.add_transfer_coordinator(
            transfer_coordinator
        )
""", "", ['C08.b'])
V('c18-download-mutates-user-args', ['C18'], 'download.py', """        if transfer_future.meta.size < config.multipart_threshold:
            self._submit_download_request(""", """        transfer_future.meta.call_args.extra_args.setdefault('ChecksumMode', 'ENABLED')
        if transfer_future.meta.size < config.multipart_threshold:
            self._submit_download_request(""", ['C18.c', 'C18.u'])

# ---- C12 ---------------------------------------------------------------
V('c12-release-mutates-before-reject', ['C12'], 'utils.py', """            max_sequence = self._tag_sequences[tag]
            if self._lowest_sequence[tag] == sequence_number:""", """            max_sequence = self._tag_sequences[tag]
            self._pending_release.setdefault(tag, [])
            if self._lowest_sequence[tag] == sequence_number:""", ['C12.b'])
V('c12-unknown-tag-not-rejected', ['C12'], 'utils.py', """            if tag not in self._tag_sequences:
                raise ValueError(f"Attempted to release unknown tag: {tag}")
            max_sequence""", """            max_sequence""", ['C12.b'])
V('c12-future-token-queued', ['C12'], 'utils.py', 'elif self._lowest_sequence[tag] < sequence_number < max_sequence:', 'elif self._lowest_sequence[tag] < sequence_number:', ['C12.b'])
V('c12-count-read-unlocked', ['C12'], 'utils.py', """        with self._lock:
            return self._count""", """        return self._count""", ['C12.c'], count=2)
V('c12-condition-own-lock', ['C12', 'C04'], 'utils.py', 'self._condition = threading.Condition(self._lock)', 'self._condition = threading.Condition()', ['C12.c'])
V('c12-acquire-in-download-task', ['C12', 'C10'], 'download.py', """        last_exception = None
        for i in range(max_attempts):
            try:
                current_index = start_index""", """        last_exception = None
        bandwidth_limiter and self._transfer_coordinator.transfer_id
        for i in range(max_attempts):
            try:
                current_index = start_index""", kind='twin', why='harmless no-op expression')
V('c12-extra-acquirer', ['C12', 'C10'], 'futures.py', """        future = executor.submit(task, tag=tag)
        # Add this created future""", """        future = executor.submit(task, tag=tag)
        if tag:
            executor._tag_semaphores[tag].acquire(self.transfer_id, False)
        # Add this created future""", ['C12.e'])
V('c12-acquire-takes-two', ['C12', 'C10'], 'utils.py', """            self._tag_sequences[tag] += 1
            self._count -= 1
            return sequence_number""", """            self._tag_sequences[tag] += 1
            self._count -= 2
            return sequence_number""", ['C12.e'])

# ---- C11 ---------------------------------------------------------------
V('c11-seekable-part-untagged', ['C11'], 'upload.py', """        if operation_name == 'put_object':
            return False
        else:
            return True""", """        return False""", ['C11.a'])
V('c11-nonseekable-untagged', ['C11'], 'upload.py', """    def stores_body_in_memory(self, operation_name):
        return True

    def provide_transfer_size(self, transfer_future):
        # No-op""", """    def stores_body_in_memory(self, operation_name):
        return operation_name == 'nothing'

    def provide_transfer_size(self, transfer_future):
        # No-op""", ['C11.a'])
V('c11-part-tag-none', ['C11'], 'upload.py', """                    tag=upload_part_tag,
                )""", """                    tag=None,
                )""", ['C11.a'])
V('c11-part-tag-for-wrong-op', ['C11'], 'upload.py', """        upload_part_tag = self._get_upload_task_tag(
            upload_input_manager, 'upload_part'
        )""", """        upload_part_tag = self._get_upload_task_tag(
            upload_input_manager, 'put_object'
        )""", ['C11.a'])
V('c11-tag-inverted', ['C11'], 'upload.py', """        if upload_input_manager.stores_body_in_memory(operation_name):
            tag = IN_MEMORY_UPLOAD_TAG""", """        if not upload_input_manager.stores_body_in_memory(operation_name):
            tag = IN_MEMORY_UPLOAD_TAG""", ['C11.a'])
V('c11-nonseekable-download-untagged', ['C11'], 'download.py', """    def get_download_task_tag(self):
        return IN_MEMORY_DOWNLOAD_TAG""", """    def get_download_task_tag(self):
        return None""", ['C11.b'])
V('c11-ranged-get-untagged', ['C11'], 'download.py', """                    done_callbacks=[finalize_download_invoker.decrement],
                ),
                tag=get_object_tag,""", """                    done_callbacks=[finalize_download_invoker.decrement],
                ),""", ['C11.b'])
V('c11-read-unbounded', ['C11', 'C01'], 'upload.py', """        amount_to_read = amount - len(self._initial_data)
        data = self._initial_data + fileobj.read(amount_to_read)""", """        amount_to_read = amount - len(self._initial_data)
        data = self._initial_data + fileobj.read()""", ['C11.e'])
V('c11-seekable-reads-whole-rest', ['C11', 'C01'], 'upload.py', "data = fileobj.read(kwargs['part_size'])", "data = fileobj.read()", ['C11.e'])
V('c11-unadjusted-chunksize', ['C11', 'C14'], 'upload.py', """        part_iterator = upload_input_manager.yield_upload_part_bodies(
            transfer_future, chunksize
        )""", """        part_iterator = upload_input_manager.yield_upload_part_bodies(
            transfer_future, config.multipart_chunksize
        )""", ['C11.e'])
V('c11-stage-sem-wins-over-tag', ['C11', 'C04'], 'futures.py', """        if tag:
            semaphore = self._tag_semaphores[tag]""", """        if tag and False:
            semaphore = self._tag_semaphores[tag]""", ['C04.f'])
V('c11-twin-stores-body-ifelse', ['C11'], 'upload.py', """        if operation_name == 'put_object':
            return False
        else:
            return True""", """        if operation_name != 'put_object':
            return True
        return False""", kind='twin')
V('c11-countdown-read-overshoots', ['C11', 'C01'], 'upload.py', """        if len(self._initial_data) == 0:
            return fileobj.read(amount)
""", """        if len(self._initial_data) == 0:
            chunks = []
            remaining = amount
            while remaining > 0:
                chunk = fileobj.read(amount)
                if not chunk:
                    break
                chunks.append(chunk)
                remaining -= len(chunk)
            return b''.join(chunks)
""", ['C11.f'])
V('c11-twin-countdown-read-remaining', ['C11', 'C01'], 'upload.py', """        if len(self._initial_data) == 0:
            return fileobj.read(amount)
""", """        if len(self._initial_data) == 0:
            chunks = []
            remaining = amount
            while remaining > 0:
                chunk = fileobj.read(remaining)
                if not chunk:
                    break
                chunks.append(chunk)
                remaining -= len(chunk)
            return b''.join(chunks)
""", [], kind='twin', why='a count-down loop that asks for what remains is a correct way to tolerate short reads')
