from ..variants import V

# ---- C19 ---------------------------------------------------------------
V('c19-count-after-jobs', ['C19'], 'processpool.py', """        self._notify_jobs_to_complete(
            download_file_request.transfer_id, num_parts
        )
        for i in range(num_parts):""", """        for i in range(num_parts):""", ['C19.a'], why='(announcement removed before loop; a later one would still be after the jobs)')
V('c19-count-off-by-one', ['C19'], 'processpool.py', """        self._notify_jobs_to_complete(
            download_file_request.transfer_id, num_parts
        )""", """        self._notify_jobs_to_complete(
            download_file_request.transfer_id, num_parts - 1
        )""", ['C19.a'])
V('c19-single-job-count-zero', ['C19'], 'processpool.py', 'self._notify_jobs_to_complete(download_file_request.transfer_id, 1)', 'self._notify_jobs_to_complete(download_file_request.transfer_id, 0)', ['C19.a'])
V('c19-jobs-before-allocate', ['C19', 'C06'], 'processpool.py', """        size = self._get_size(download_file_request)
        temp_filename = self._allocate_temp_file(download_file_request, size)
        if size < self._transfer_config.multipart_threshold:""", """        size = self._get_size(download_file_request)
        temp_filename = self._osutil.get_temp_filename(download_file_request.filename)
        if size < self._transfer_config.multipart_threshold:""", ['C19.a'])
V('c19-skipped-job-not-counted', ['C19'], 'processpool.py', """            else:
                logger.debug(
                    'Skipping get object job %s because there was a previous '
                    'exception.',
                    job,
                )
            remaining""", """            else:
                logger.debug(
                    'Skipping get object job %s because there was a previous '
                    'exception.',
                    job,
                )
                continue
            remaining""", ['C19.b'])
V('c19-job-runs-despite-exception', ['C19', 'C03'], 'processpool.py', """            if not self._transfer_monitor.get_exception(job.transfer_id):
                self._run_get_object_job(job)
            else:""", """            if True:
                self._run_get_object_job(job)
            else:""", ['C19.b'])
V('c19-job-error-propagates', ['C19', 'C03'], 'processpool.py', """            self._transfer_monitor.notify_exception(job.transfer_id, e)

    def _do_get_object""", """            raise

    def _do_get_object""", ['C19.b'])
V('c19-finalize-every-job', ['C19', 'C06'], 'processpool.py', """            if not remaining:
                self._finalize_download(""", """            if True:
                self._finalize_download(""", ['C19.c'])
V('c19-finalize-when-one-left', ['C19', 'C06'], 'processpool.py', """            if not remaining:
                self._finalize_download(""", """            if remaining <= 1:
                self._finalize_download(""", ['C19.c'])
V('c19-decrement-unlocked', ['C19'], 'processpool.py', """        with self._job_lock:
            self._jobs_to_complete -= 1
            return self._jobs_to_complete""", """        self._jobs_to_complete -= 1
        return self._jobs_to_complete""", ['C19.c'])
V('c19-submitter-done-before-exception', ['C19', 'C03'], 'processpool.py', """                self._transfer_monitor.notify_exception(
                    download_file_request.transfer_id, e
                )
                self._transfer_monitor.notify_done(
                    download_file_request.transfer_id
                )""", """                self._transfer_monitor.notify_done(
                    download_file_request.transfer_id
                )
                self._transfer_monitor.notify_exception(
                    download_file_request.transfer_id, e
                )""", ['C19.e'])
V('c19-submitter-error-never-done', ['C19', 'C04'], 'processpool.py', """                self._transfer_monitor.notify_done(
                    download_file_request.transfer_id
                )

    def _submit_get_object_jobs""", """
    def _submit_get_object_jobs""", ['C19.e'])
V('c19-cancel-all-hits-done', ['C19'], 'processpool.py', """            if not transfer_state.done:
                transfer_state.exception = CancelledError()""", """            transfer_state.exception = CancelledError()""", ['C19.f'])
V('c19-workers-not-joined', ['C19', 'C18'], 'processpool.py', """        for worker in self._workers:
            worker.join()""", """        pass""", ['C19.f'])
V('c19-one-signal-for-all-workers', ['C19'], 'processpool.py', """        for _ in self._workers:
            self._worker_queue.put(SHUTDOWN_SIGNAL)""", """        self._worker_queue.put(SHUTDOWN_SIGNAL)""", ['C19.f'])
V('c19-workers-before-submitter', ['C19'], 'processpool.py', """        self._shutdown_submitter()
        self._shutdown_get_object_workers()""", """        self._shutdown_get_object_workers()
        self._shutdown_submitter()""", ['C19.f'])
V('c19-exit-ctrl-c-no-cancel', ['C19'], 'processpool.py', """        if isinstance(exc_value, KeyboardInterrupt):
            if self._transfer_monitor is not None:
                self._transfer_monitor.notify_cancel_all_in_progress()
        self.shutdown()""", """        self.shutdown()""", ['C19.f'])
V('c19-result-does-not-wait', ['C19'], 'processpool.py', """        self._transfer_states[transfer_id].wait_till_done()
        exception =""", """        exception =""", ['C19.f'])
V('c19-twin-remaining-zero', ['C19'], 'processpool.py', """            if not remaining:
                self._finalize_download(""", """            if not remaining:
                logger.debug('final job for transfer_id %s', job.transfer_id)
                self._finalize_download(""", kind='twin')

# ---- C20 ---------------------------------------------------------------
V('c20-acquire-outside-try', ['C20'], 'crt.py', """        try:
            self._semaphore.acquire()
            on_queued =""", """        self._semaphore.acquire()
        try:
            on_queued =""", ['C20.a'])
V('c20-release-twice', ['C20'], 'crt.py', 'on_done_after_calls = [self._release_semaphore]', 'on_done_after_calls = [self._release_semaphore, self._release_semaphore]', ['C20.a'])
V('c20-error-path-no-release', ['C20'], 'crt.py', """            on_done = self._s3_args_creator.get_crt_callback(
                future, 'done', after_subscribers=on_done_after_calls
            )""", """            on_done = self._s3_args_creator.get_crt_callback(
                future, 'done'
            )""", ['C20.a'])
V('c20-error-path-on-done-not-called', ['C20'], 'crt.py', """            on_done(error=e)
        else:""", """            pass
        else:""", ['C20.a'])
V('c20-put-builder-drops-after-calls', ['C20'], 'crt.py', """            future=future,
            on_done_before_calls=on_done_before_calls,
            on_done_after_calls=on_done_after_calls,
        )
        make_request_args['send_filepath'] = send_filepath""", """            future=future,
            on_done_before_calls=on_done_before_calls,
            on_done_after_calls=[],
        )
        make_request_args['send_filepath'] = send_filepath""", ['C20.a'])
V('c20-default-swaps-before-after', ['C20'], 'crt.py', """            'on_done': self.get_crt_callback(
                future, 'done', on_done_before_calls, on_done_after_calls
            ),""", """            'on_done': self.get_crt_callback(
                future, 'done', on_done_after_calls, on_done_before_calls
            ),""", ['C20.a'])
V('c20-after-before-subscribers', ['C20'], 'crt.py', """            if before_subscribers is not None:
                callbacks_list += before_subscribers
            callbacks_list += get_callbacks(future, callback_type)
            if after_subscribers is not None:
                callbacks_list += after_subscribers""", """            if before_subscribers is not None:
                callbacks_list += before_subscribers
            if after_subscribers is not None:
                callbacks_list += after_subscribers
            callbacks_list += get_callbacks(future, callback_type)""", ['C20.b'])
V('c20-afterdone-first', ['C20'], 'crt.py', """        afterdone = AfterDoneHandler(coordinator)
        on_done_after_calls.append(afterdone)""", """        afterdone = AfterDoneHandler(coordinator)
        on_done_after_calls.insert(0, afterdone)""", ['C20.b'])
V('c20-rename-after-subscribers', ['C20', 'C06'], 'crt.py', """            on_done_before_calls.append(
                RenameTempFileHandler(""", """            on_done_after_calls.append(
                RenameTempFileHandler(""", ['C20.b', 'C20.a'])
V('c20-shutdown-no-wait-on-error', ['C20'], 'crt.py', """        except Exception:
            pass
        finally:
            self._wait_transfers_done()""", """        except Exception:
            pass
        else:
            self._wait_transfers_done()""", ['C20.d'])
V('c20-failed-submit-untracked', ['C20'], 'crt.py', """            on_done(error=e)
        else:
            coordinator.set_s3_request(crt_s3_request)
        self._future_coordinators.append(coordinator)""", """            on_done(error=e)
        else:
            coordinator.set_s3_request(crt_s3_request)
            self._future_coordinators.append(coordinator)""", ['C20.d'])
V('c20-twin-local-rename', ['C20'], 'crt.py', """        afterdone = AfterDoneHandler(coordinator)
        on_done_after_calls.append(afterdone)""", """        after_done_handler = AfterDoneHandler(coordinator)
        on_done_after_calls.append(after_done_handler)""", kind='twin')
