from ..variants import V

# ---- C07 ------------------------------------------------------------------
V('c07-revert-D1', ['C07'], 'manager.py', 'self._shutdown(cancel, cancel_msg)', 'self._shutdown(cancel, cancel, cancel_msg)',
  ['C07.a', 'C07.b'], why='reverted fix D1: shifted arguments')
V('c07-exit-swaps-type-msg', ['C07'], 'manager.py', 'self._shutdown(cancel, cancel_msg, cancel_exc_type)',
  'self._shutdown(cancel, cancel_exc_type, cancel_msg)', ['C07.a', 'C07.b'])
V('c07-controller-drops-type', ['C07'], 'manager.py', 'transfer_coordinator.cancel(msg, exc_type)', 'transfer_coordinator.cancel(msg)', ['C07.b'])
V('c07-shutdown-drops-msg', ['C07'], 'manager.py', 'self._coordinator_controller.cancel(cancel_msg, exc_type)',
  "self._coordinator_controller.cancel('', exc_type)", ['C07.b'])
V('c07-exit-always-cancelled', ['C07'], 'manager.py', 'cancel_exc_type = FatalError', 'cancel_exc_type = CancelledError', ['C07.b'])
V('c07-cancel-ignores-done', ['C07', 'C17'], 'futures.py', """            if not self.done():
                logger.debug('%s cancel(%s) called', self, msg)""", """            if True:
                logger.debug('%s cancel(%s) called', self, msg)""", ['C07.c', 'C17.b', 'C17.d'])
V('c07-transition-allows-done', ['C07', 'C17'], 'futures.py', """            if self.done():
                raise RuntimeError(""", """            if self.done() and desired_state == 'x':
                raise RuntimeError(""", ['C07.c', 'C17.b'])
V('c07-result-ki-no-cancel', ['C07'], 'futures.py', """        except KeyboardInterrupt as e:
            self.cancel()
            raise e""", """        except KeyboardInterrupt as e:
            raise e""", ['C07.e'])
V('c07-shutdown-ki-swallowed', ['C07'], 'manager.py', """            self._coordinator_controller.cancel('KeyboardInterrupt()')
            raise""", """            self._coordinator_controller.cancel('KeyboardInterrupt()')""", ['C07.e'])
V('c07-interruptreader-blind', ['C07', 'C03'], 'upload.py', """        if self._transfer_coordinator.exception:
            raise self._transfer_coordinator.exception
        return self._fileobj.read(amount)""", """        return self._fileobj.read(amount)""", ['C07.f'])
V('c07-bw-wait-ignores-cancel', ['C07', 'C13'], 'bandwidth.py', 'while not self._transfer_coordinator.exception:', 'while True:', ['C07.f', 'C13.b'])
# twins
V('c07-twin-kwargs', ['C07'], 'manager.py', 'self._shutdown(cancel, cancel_msg)', 'self._shutdown(cancel=cancel, cancel_msg=cancel_msg)', kind='twin')
V('c07-twin-rename-local', ['C07'], 'manager.py', """        cancel_exc_type = FatalError""", """        cancel_exc_type = FatalError
        unused_local = 0""", kind='twin')

# ---- C17 ------------------------------------------------------------------
V('c17-set-exception-unguarded', ['C17', 'C03'], 'futures.py', 'if not self.done() or override:', 'if True:', ['C17.b', 'C17.d'])
V('c17-set-exception-keeps-status', ['C17'], 'futures.py', """                self._exception = exception
                self._status = 'failed'""", """                self._exception = exception""", ['C17.d', 'C17.c'])
V('c17-set-result-keeps-exception', ['C17'], 'futures.py', """            self._exception = None
            self._result = result""", """            self._result = result""", ['C17.c', 'C17.d'])
V('c17-user-set-exception-any-time', ['C17'], 'futures.py', """        if not self.done():
            raise TransferNotDoneError(
                'set_exception can only be called once the transfer is '
                'complete.'
            )
        self._coordinator""", """        self._coordinator""", ['C17.b'])
V('c17-done-forgets-cancelled', ['C17'], 'futures.py', "return self.status in ['failed', 'cancelled', 'success']", "return self.status in ['failed', 'success']", ['C17.b', 'C17.d'])
V('c17-status-outside-lock', ['C17'], 'futures.py', """        with self._lock:
            self._exception = None
            self._result = result
            self._status = 'success'""", """        self._exception = None
        self._result = result
        self._status = 'success'""", ['C17.a'])
V('c17-task-writes-status', ['C17'], 'tasks.py', """        logger.debug("Exception raised.", exc_info=True)""", """        logger.debug("Exception raised.", exc_info=True)
        self._transfer_coordinator._status = 'failed'""", ['C17.a'])
V('c17-override-from-task', ['C17', 'C03'], 'tasks.py', 'self._transfer_coordinator.set_exception(exception)', 'self._transfer_coordinator.set_exception(exception, override=True)', ['C17.b'])
V('c17-running-before-queued', ['C17', 'C08'], 'tasks.py', """            self._transfer_coordinator.set_status_to_queued()
""", """            self._transfer_coordinator.set_status_to_running()
""", ['C17.e'])
V('c17-cancel-no-announce', ['C17', 'C04'], 'futures.py', """                if self._status == 'not-started':
                    should_announce_done = True""", """                if self._status == 'never':
                    should_announce_done = True""", ['C17.d'])
V('c17-cancel-status-before-check', ['C17', 'C04'], 'futures.py', """                if self._status == 'not-started':
                    should_announce_done = True
                self._status = 'cancelled'""", """                self._status = 'cancelled'
                if self._status == 'not-started':
                    should_announce_done = True""", ['C17.d'])
V('c17-twin-done-tuple', ['C17'], 'futures.py', "return self.status in ['failed', 'cancelled', 'success']", "return self.status in ('success', 'failed', 'cancelled')", kind='twin')
V('c17-twin-early-return', ['C17'], 'futures.py', """            if not self.done() or override:
                self._exception = exception
                self._status = 'failed'""", """            if self.done() and not override:
                return
            self._exception = exception
            self._status = 'failed'""", kind='twin')

V('c04-revert-D2', ['C04', 'C08'], 'futures.py', """                self._status = 'cancelled'
        # Announce outside of the lock: the cleanups and done callbacks it
        # runs may call back into this coordinator (e.g. set_exception()).
        if should_announce_done:
            self.announce_done()""", """                self._status = 'cancelled'
                if should_announce_done:
                    self.announce_done()""", ['C04.a'], why='reverted fix D2: callbacks under the state lock')
