from ..variants import V

V('c15-revert-D6', ['C15'], '__init__.py', 'Bucket=bucket, Key=key, Range=range_param, **extra_args', 'Bucket=bucket, Key=key, Range=range_param', ['C15.t'])
V('c15-revert-D7', ['C15'], '__init__.py', "        'GrantWriteACP',\n        'Metadata',\n        'RequestPayer',", "        'GrantWriteACL',\n        'Metadata',\n        'RequestPayer',", ['C15.t'])
V('c15-revert-D9a', ['C15'], 'tasks.py', """            UploadId=upload_id,
            **abort_extra_args,
        )""", """            UploadId=upload_id,
        )""", ['C15.t'])
V('c15-upload-part-drops-requestpayer', ['C15'], 'upload.py', """        'SSECustomerKeyMD5',
        'RequestPayer',
        'ExpectedBucketOwner',
    ]

    COMPLETE_MULTIPART_ARGS = [""", """        'SSECustomerKeyMD5',
        'ExpectedBucketOwner',
    ]

    COMPLETE_MULTIPART_ARGS = [""", ['C15.t'])
V('c15-upload-part-gets-acl', ['C15'], 'upload.py', """    UPLOAD_PART_ARGS = [
        'ChecksumAlgorithm',""", """    UPLOAD_PART_ARGS = [
        'ACL',
        'ChecksumAlgorithm',""", ['C15.t'])
V('c15-put-object-gets-mpu-size', ['C15'], 'upload.py', 'PUT_OBJECT_BLOCKLIST = ["ChecksumType", "MpuObjectSize"]', 'PUT_OBJECT_BLOCKLIST = ["ChecksumType"]', ['C15.t'])
V('c15-create-gets-full-checksum', ['C15'], 'upload.py', 'CREATE_MULTIPART_BLOCKLIST = FULL_OBJECT_CHECKSUM_ARGS + ["MpuObjectSize"]', 'CREATE_MULTIPART_BLOCKLIST = ["MpuObjectSize"]', ['C15.t'])
V('c15-complete-drops-checksum-type', ['C15'], 'upload.py', """        'ExpectedBucketOwner',
        'ChecksumType',
        'MpuObjectSize',
    ] + FULL_OBJECT_CHECKSUM_ARGS""", """        'ExpectedBucketOwner',
        'MpuObjectSize',
    ] + FULL_OBJECT_CHECKSUM_ARGS""", ['C15.t'])
V('c15-complete-drops-full-checksums', ['C15'], 'upload.py', """        'ChecksumType',
        'MpuObjectSize',
    ] + FULL_OBJECT_CHECKSUM_ARGS""", """        'ChecksumType',
        'MpuObjectSize',
    ]""", ['C15.t'])
V('c15-allow-unknown-upload-arg', ['C15'], 'manager.py', """        + [
            'ChecksumType',
            'MpuObjectSize',
        ]""", """        + [
            'ChecksumType',
            'MpuObjectSize',
            'ContentMD6',
        ]""", ['C15.t'])
V('c15-allow-download-arg-not-in-head', ['C15'], 'constants.py', "    'ChecksumMode',", "    'ChecksumMode',\n    'ChecksumAlgorithm',", ['C15.t'])
V('c15-copy-create-gets-directive', ['C15'], 'copies.py', """        'CopySourceSSECustomerKeyMD5',
        'MetadataDirective',
        'TaggingDirective',
    ]""", """        'CopySourceSSECustomerKeyMD5',
        'MetadataDirective',
    ]""", ['C15.t'])
V('c15-copy-part-drops-source-sse', ['C15'], 'copies.py', """        'CopySourceIfUnmodifiedSince',
        'CopySourceSSECustomerKey',
        'CopySourceSSECustomerAlgorithm',
        'CopySourceSSECustomerKeyMD5',
        'SSECustomerKey',""", """        'CopySourceIfUnmodifiedSince',
        'CopySourceSSECustomerAlgorithm',
        'CopySourceSSECustomerKeyMD5',
        'SSECustomerKey',""", ['C15.t'])
V('c15-copy-complete-drops-payer', ['C15'], 'copies.py', """        'SSECustomerKeyMD5',
        'RequestPayer',
        'ExpectedBucketOwner',
    ]

    def _submit(""", """        'SSECustomerKeyMD5',
        'ExpectedBucketOwner',
    ]

    def _submit(""", ['C15.t'])
V('c15-head-mapping-wrong-target', ['C15'], 'copies.py', "'CopySourceIfMatch': 'IfMatch',", "'CopySourceIfMatch': 'IfNoneMatch',", ['C15.m'])
V('c15-head-mapping-missing-sse-key', ['C15'], 'copies.py', "        'CopySourceSSECustomerKey': 'SSECustomerKey',\n", "", ['C15.m'])
V('c15-head-mapping-unknown-member', ['C15'], 'copies.py', "'RequestPayer': 'RequestPayer',", "'RequestPayer': 'RequestPayer', 'MetadataDirective': 'MetadataDirective',", ['C15.m', 'C15.t'])
V('c15-ranged-get-drops-args', ['C15'], 'download.py', """            extra_args = {'Range': range_parameter}
            extra_args.update(call_args.extra_args)""", """            extra_args = {'Range': range_parameter}""", ['C15.t'])
V('c15-download-head-without-args', ['C15'], 'download.py', """                Key=transfer_future.meta.call_args.key,
                **transfer_future.meta.call_args.extra_args,
            )""", """                Key=transfer_future.meta.call_args.key,
            )""", ['C15.t'])
V('c15-processpool-ranged-drops-args', ['C15'], 'processpool.py', """            get_object_kwargs = {'Range': range_parameter}
            get_object_kwargs.update(download_file_request.extra_args)""", """            get_object_kwargs = {'Range': range_parameter}""", ['C15.t'])
V('c15-processpool-head-drops-args', ['C15'], 'processpool.py', """                Key=download_file_request.key,
                **download_file_request.extra_args,
            )['ContentLength']""", """                Key=download_file_request.key,
            )['ContentLength']""", ['C15.t'])
V('c15-validate-after-submit-delete', ['C15'], 'manager.py', """        self._validate_all_known_args(extra_args, self.ALLOWED_DELETE_ARGS)
        self._validate_if_bucket_supported(bucket)
        call_args = CallArgs(
            bucket=bucket,
            key=key,
            extra_args=extra_args,
            subscribers=subscribers,
        )
        return self._submit_transfer(call_args, DeleteSubmissionTask)""", """        self._validate_if_bucket_supported(bucket)
        call_args = CallArgs(
            bucket=bucket,
            key=key,
            extra_args=extra_args,
            subscribers=subscribers,
        )
        future = self._submit_transfer(call_args, DeleteSubmissionTask)
        self._validate_all_known_args(extra_args, self.ALLOWED_DELETE_ARGS)
        return future""", ['C15.v'])
V('c15-copy-validates-upload-list', ['C15'], 'manager.py', 'self._validate_all_known_args(extra_args, self.ALLOWED_COPY_ARGS)', 'self._validate_all_known_args(extra_args, self.ALLOWED_UPLOAD_ARGS)', ['C15.v', 'C15.t'])
V('c15-validator-never-raises', ['C15'], 'manager.py', """        for kwarg in actual:
            if kwarg not in allowed:
                raise ValueError(
                    "Invalid extra_args key '{}', "
                    "must be one of: {}".format(kwarg, ', '.join(allowed))
                )""", """        for kwarg in actual:
            if kwarg not in allowed:
                logger.debug("Invalid extra_args key '%s'", kwarg)""", ['C15.v'])
V('c15-checksum-type-after-create-args', ['C15'], 'upload.py', """        create_multipart_extra_args = self._extra_create_multipart_args(
            call_args.extra_args
        )

        # Submit the request to create a multipart upload.""", """        create_multipart_extra_args = self._extra_create_multipart_args(
            dict(call_args.extra_args)
        )

        # Submit the request to create a multipart upload.""", kind='twin', why='copying before filtering is behaviour-preserving')
V('c15-checksum-loop-after-builders', ['C15'], 'upload.py', """        for checksum in FULL_OBJECT_CHECKSUM_ARGS:
            if checksum in call_args.extra_args:
                call_args.extra_args["ChecksumType"] = "FULL_OBJECT"
                call_args.extra_args["ChecksumAlgorithm"] = checksum.replace(
                    "Checksum", ""
                )

        create_multipart_extra_args = self._extra_create_multipart_args(
            call_args.extra_args
        )
""", """        create_multipart_extra_args = self._extra_create_multipart_args(
            call_args.extra_args
        )
        for checksum in FULL_OBJECT_CHECKSUM_ARGS:
            if checksum in call_args.extra_args:
                call_args.extra_args["ChecksumType"] = "FULL_OBJECT"
                call_args.extra_args["ChecksumAlgorithm"] = checksum.replace(
                    "Checksum", ""
                )
""", ['C15.c'])
V('c15-checksum-type-composite', ['C15'], 'upload.py', 'call_args.extra_args["ChecksumType"] = "FULL_OBJECT"', 'call_args.extra_args["ChecksumType"] = "COMPOSITE"', ['C15.c'])
V('c15-default-overrides-user-checksum', ['C15'], 'utils.py', """    if any(checksum in extra_args for checksum in FULL_OBJECT_CHECKSUM_ARGS):
        return
    extra_args.setdefault""", """    extra_args.setdefault""", ['C15.c'])
V('c15-default-always-applied', ['C15'], 'manager.py', """        if (
            self.client.meta.config.request_checksum_calculation
            == "when_supported"
        ):
            set_default_checksum_algorithm(extra_args)""", """        set_default_checksum_algorithm(extra_args)""", ['C15.c'])
V('c15-filter-semantics-and', ['C15'], 'utils.py', """        if (whitelisted_keys and key in whitelisted_keys) or (
            blocklisted_keys and key not in blocklisted_keys
        ):""", """        if (whitelisted_keys and key in whitelisted_keys) and (
            blocklisted_keys and key not in blocklisted_keys
        ):""", ['C15.t'])
V('c15-legacy-upload-part-filter-drops-sse', ['C15'], '__init__.py', """    UPLOAD_PART_ARGS = [
        'SSECustomerKey',
        'SSECustomerAlgorithm',""", """    UPLOAD_PART_ARGS = [
        'SSECustomerAlgorithm',""", ['C15.t'])
V('c15-twin-allowlist-concat', ['C15'], 'manager.py', """    ALLOWED_DELETE_ARGS = [
        'MFA',
        'VersionId',
        'RequestPayer',
        'ExpectedBucketOwner',
    ]""", """    ALLOWED_DELETE_ARGS = ['MFA', 'VersionId'] + [
        'RequestPayer',
        'ExpectedBucketOwner',
    ]""", kind='twin')
V('c15-twin-rename-extra-local', ['C15'], 'download.py', """            extra_args = {'Range': range_parameter}
            extra_args.update(call_args.extra_args)
            finalize_download_invoker.increment()""", """            ranged_args = {'Range': range_parameter}
            ranged_args.update(call_args.extra_args)
            extra_args = ranged_args
            finalize_download_invoker.increment()""", kind='twin')
