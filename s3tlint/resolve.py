"""Callee resolution: class-hierarchy analysis + a frozen receiver table.

resolve(call, func) -> Res(kind, targets, ext)
  kind 'package'   : targets = every package function the call may dispatch to
       'external'  : callee outside the package (stdlib, botocore, builtins, data
                     objects); ext = best-effort dotted name
       'client'    : S3 client operation; ext = operation name (snake_case)
       'open'      : call of a value taken from a parameter / callback list
                     (user code and registered cleanups enter here)
       'ambiguous' : method name defined by package classes, receiver unknown;
                     targets = all candidates
"""

import ast
import builtins

from .ir import ClassInfo, FuncInfo, dotted, own_nodes

BUILTINS = set(dir(builtins))

# ---------------------------------------------------------------------------
# Frozen receiver table (DESIGN section 2.2).  name -> class qualname, keyed by
# module ('*' = any).  One line of reason each; confirmed by reading every
# definition and use of the name in the module(s) listed.
# ---------------------------------------------------------------------------
CLIENT = '<s3-client>'
DATA = '<data>'
FILE = '<file>'

RECEIVERS = {
    # the coordinator is always passed/stored under these names
    'transfer_coordinator': {'*': 'futures.TransferCoordinator'},
    '_transfer_coordinator': {'*': 'futures.TransferCoordinator'},
    'coordinator': {'crt': 'crt.CRTTransferCoordinator', '*': 'futures.TransferCoordinator'},
    '_coordinator': {'crt': 'crt.CRTTransferCoordinator', '*': 'futures.TransferCoordinator'},
    # the user-visible future
    'transfer_future': {'*': 'futures.TransferFuture'},
    # output/input managers
    'download_output_manager': {'*': 'download.DownloadOutputManager'},
    'download_manager': {'*': 'download.DownloadOutputManager'},
    'upload_input_manager': {'*': 'upload.UploadInputManager'},
    # executors handed to submission tasks
    'request_executor': {'*': 'futures.BoundedExecutor'},
    'io_executor': {'*': 'futures.BoundedExecutor'},
    '_io_executor': {'*': 'futures.BoundedExecutor'},
    'executor': {'futures': 'futures.BoundedExecutor'},
    # os utilities
    'osutil': {'__init__': '__init__.OSUtils', '*': 'utils.OSUtils'},
    '_osutil': {'__init__': '__init__.OSUtils', '*': 'utils.OSUtils'},
    '_os': {'__init__': '__init__.OSUtils'},
    '_os_utils': {'*': 'utils.OSUtils'},
    'os_utils': {'*': 'utils.OSUtils'},
    # the S3 client: attribute name IS the operation
    'client': {'*': CLIENT},
    '_client': {'*': CLIENT},
    'source_client': {'*': CLIENT},
    # process pool monitor (a BaseManager proxy of TransferMonitor)
    '_transfer_monitor': {'processpool': 'processpool.TransferMonitor'},
    '_monitor': {'processpool': 'processpool.TransferMonitor'},
    'monitor': {'processpool': 'processpool.TransferMonitor'},
    # bandwidth
    '_leaky_bucket': {'bandwidth': 'bandwidth.LeakyBucket'},
    'leaky_bucket': {'bandwidth': 'bandwidth.LeakyBucket'},
    '_consumption_scheduler': {'bandwidth': 'bandwidth.ConsumptionScheduler'},
    '_rate_tracker': {'bandwidth': 'bandwidth.BandwidthRateTracker'},
    '_time_utils': {'bandwidth': 'bandwidth.TimeUtils'},
    'bandwidth_limiter': {'*': 'bandwidth.BandwidthLimiter'},
    '_bandwidth_limiter': {'*': 'bandwidth.BandwidthLimiter'},
    '_defer_queue': {'download': 'download.DeferQueue'},
    'defer_queue': {'download': 'download.DeferQueue'},
    # semaphores inside BoundedExecutor.submit
    'semaphore': {'futures': 'utils.TaskSemaphore'},
    # tasks
    'task': {'futures': 'tasks.Task', 'download': 'tasks.Task'},
    'final_task': {'download': 'tasks.Task'},
    # crt
    '_s3_args_creator': {'crt': 'crt.S3ClientArgsCreator'},
    '_request_serializer': {'crt': 'crt.BaseCRTRequestSerializer'},
    'crt_request_serializer': {'crt': 'crt.BaseCRTRequestSerializer'},
    # transfer state in the monitor
    'transfer_state': {'processpool': 'processpool.TransferState'},
    '_transfer_states': {'processpool': 'processpool.TransferState'},
    # futures returned by BoundedExecutor.submit are always ExecutorFuture
    'future': {'tasks': 'futures.ExecutorFuture'},
    'pending_value': {'tasks': 'futures.ExecutorFuture'},
    # plain data / file-like / stdlib objects (never package callees that matter
    # to a rule; named so that they are not reported as ambiguous)
    'extra_args': {'*': DATA},
    'fileobj': {'*': FILE}, '_fileobj': {'*': FILE}, 'f': {'*': FILE},
    'body': {'*': FILE}, '_body': {'*': FILE}, '_stream': {'*': FILE},
    'streaming_body': {'download': FILE, '__init__': FILE},
    '_download_request_queue': {'processpool': 'ext:multiprocessing.Queue'},
    '_worker_queue': {'processpool': 'ext:multiprocessing.Queue'},
    '_queue': {'processpool': 'ext:multiprocessing.Queue'},
    '_ioqueue': {'__init__': '__init__.ShutdownQueue'},
    '_executor': {'futures': 'ext:concurrent.futures.Executor'},
    '_future': {'futures': 'ext:concurrent.futures.Future'},
    '_crt_future': {'crt': 'ext:concurrent.futures.Future'},
    '_s3_request': {'crt': 'ext:awscrt.s3.S3Request'},
    '_crt_s3_client': {'crt': 'ext:awscrt.s3.S3Client'},
}

# attribute (property) types: (owner class qualname, attr) -> type
PROPERTY_TYPES = {
    ('futures.TransferFuture', 'meta'): 'futures.TransferMeta',
    ('futures.TransferFuture', '_meta'): 'futures.TransferMeta',
    ('futures.TransferFuture', '_coordinator'): 'futures.TransferCoordinator',
    ('crt.CRTTransferFuture', '_coordinator'): 'crt.CRTTransferCoordinator',
    ('crt.CRTTransferFuture', 'meta'): 'crt.CRTTransferMeta',
    ('futures.TransferMeta', 'call_args'): DATA,
    ('futures.TransferManager', 'client'): CLIENT,
    ('manager.TransferManager', 'client'): CLIENT,
    ('processpool.ProcessPoolTransferFuture', '_meta'): 'processpool.ProcessPoolTransferMeta',
}

# ``future`` means the user-visible TransferFuture in these modules when it is
# a parameter; elsewhere (futures.py) it is a concurrent future.
FUTURE_PARAM_MODULES = {'manager', 'tasks', 'upload', 'download', 'copies', 'delete', 'utils', 'subscribers'}


class Res:
    __slots__ = ('kind', 'targets', 'ext', 'recv')

    def __init__(self, kind, targets=(), ext=None, recv=None):
        self.kind = kind
        self.targets = list(targets)
        self.ext = ext
        self.recv = recv

    def __repr__(self):
        return f'Res({self.kind}, {[t.qualname for t in self.targets]}, {self.ext})'

    def names(self):
        return [t.qualname for t in self.targets]


class Resolver:
    def __init__(self, program):
        self.p = program
        self._method_names = {}
        for c in program.classes.values():
            for name, f in c.methods.items():
                self._method_names.setdefault(f.name, []).append(f)
        self._ret_cache = {}
        self._local_cache = {}
        self.stats = {'total': 0, 'package': 0, 'external': 0, 'client': 0, 'open': 0, 'ambiguous': 0}

    # -- types -------------------------------------------------------------
    def _cls(self, q):
        if q in (CLIENT, DATA, FILE) or q.startswith('ext:'):
            return q
        return self.p.classes.get(q)

    def table_type(self, name, func):
        ent = RECEIVERS.get(name)
        if not ent:
            return None
        q = ent.get(func.module.name, ent.get('*'))
        if q is None:
            return None
        return self._cls(q)

    def local_assignments(self, func, name):
        key = (func, name)
        if key in self._local_cache:
            return self._local_cache[key]
        out = []
        for n in own_nodes(func.node):
            if isinstance(n, ast.Assign):
                for t in n.targets:
                    if isinstance(t, ast.Name) and t.id == name:
                        out.append(n.value)
                    elif isinstance(t, ast.Tuple):
                        for i, e in enumerate(t.elts):
                            if isinstance(e, ast.Name) and e.id == name:
                                out.append(('tuple', i, n.value))
            elif isinstance(n, ast.AnnAssign) and isinstance(n.target, ast.Name) and n.target.id == name and n.value is not None:
                out.append(n.value)
            elif isinstance(n, (ast.With,)):
                for it in n.items:
                    if isinstance(it.optional_vars, ast.Name) and it.optional_vars.id == name:
                        out.append(('with', it.context_expr))
            elif isinstance(n, ast.NamedExpr) and isinstance(n.target, ast.Name) and n.target.id == name:
                out.append(n.value)
        self._local_cache[key] = out
        return out

    def type_of(self, expr, func, depth=0):
        """-> list of ClassInfo / CLIENT / DATA (possible static types); [] if unknown."""
        if depth > 5:
            return []
        if isinstance(expr, ast.Name):
            name = expr.id
            if name == 'self' and func.cls is not None:
                return [func.cls]
            if name == 'cls' and func.cls is not None:
                return [func.cls]
            allp = func.params + func.kwonly
            if name not in allp:
                types = []
                for v in self.local_assignments(func, name):
                    if isinstance(v, tuple):
                        continue
                    types.extend(self.type_of(v, func, depth + 1))
                if types:
                    return _uniq(types)
            if name not in allp:
                cl = self._loop_classes(func, name)
                if cl:
                    return cl
            if name == 'future' and name in allp and func.module.name in FUTURE_PARAM_MODULES:
                return [self.p.classes['futures.TransferFuture']] if 'futures.TransferFuture' in self.p.classes else []
            if name == 'future' and func.module.name == 'crt' and name in allp:
                c = self.p.classes.get('crt.CRTTransferFuture')
                return [c] if c else []
            t = self.table_type(name, func)
            if t is not None:
                return [t]
            g = self.p.resolve_global(func.module, name)
            if isinstance(g, tuple) and g[0] == 'const':
                return self.type_of_in_module(g[2], g[1])
            return []
        if isinstance(expr, ast.Attribute):
            base_types = self.type_of(expr.value, func, depth + 1)
            out = []
            for bt in base_types:
                if isinstance(bt, ClassInfo):
                    for c in bt.mro():
                        pt = PROPERTY_TYPES.get((c.qualname, expr.attr))
                        if pt:
                            out.append(self._cls(pt))
                            break
                    else:
                        # attribute assigned in a method from a constructor call
                        got = False
                        for c in bt.mro():
                            for f, v in c.init_attrs.get(expr.attr, []):
                                ts = self.type_of(v, f, depth + 1)
                                if ts:
                                    out.extend(ts)
                                    got = True
                            if got:
                                break
                        if not got:
                            # property returning self._x
                            m = bt.lookup(expr.attr)
                            if m is not None and 'property' in m.decorators:
                                out.extend(self.return_types(m, depth + 1))
                                got = bool(out)
                        if not got:
                            t = self.table_type(expr.attr, func)
                            if t is not None:
                                out.append(t)
                elif bt == DATA:
                    t = self.table_type(expr.attr, func)
                    out.append(t if t is not None else DATA)
            if not out and not base_types:
                t = self.table_type(expr.attr, func)
                if t is not None:
                    out.append(t)
            return _uniq(out)
        if isinstance(expr, ast.Call):
            r = self.resolve(expr, func, _count=False, depth=depth + 1)
            if r.kind == 'package':
                out = []
                for t in r.targets:
                    if t.name == '__init__' and t.cls is not None:
                        # constructor: type is the class named at the call site
                        out.extend(r.recv or [t.cls])
                    else:
                        out.extend(self.return_types(t, depth + 1))
                return _uniq(out)
            if r.kind == 'ctor':
                return list(r.recv)
            if r.kind == 'external' and r.ext and r.ext.split('.')[0] in ('threading', 'multiprocessing', 'concurrent', 'queue'):
                return ['ext:' + r.ext]
            return []
        if isinstance(expr, ast.Subscript):
            # components['coordinator'] and self._tag_semaphores[tag]
            if isinstance(expr.slice, ast.Constant) and isinstance(expr.slice.value, str):
                t = self.table_type(expr.slice.value, func)
                if t is not None:
                    return [t]
            d = dotted(expr.value)
            if d and d.endswith('_transfer_states'):
                c = self.p.classes.get('processpool.TransferState')
                return [c] if c else []
            if d and d.endswith('_tag_semaphores'):
                c = self.p.classes.get('utils.TaskSemaphore')
                return [c] if c else []
            return []
        if isinstance(expr, ast.IfExp):
            return _uniq(self.type_of(expr.body, func, depth + 1) + self.type_of(expr.orelse, func, depth + 1))
        return []

    def type_of_in_module(self, expr, module):
        if isinstance(expr, ast.Call):
            g = self.p.resolve_name_expr(module, expr.func)
            if isinstance(g, ClassInfo):
                return [g]
        return []

    def return_types(self, f, depth=0):
        if f in self._ret_cache:
            return self._ret_cache[f]
        self._ret_cache[f] = []
        out = []
        if depth <= 5:
            for n in own_nodes(f.node):
                if isinstance(n, ast.Return) and n.value is not None:
                    out.extend(self.type_of(n.value, f, depth + 1))
        out = _uniq(out)
        self._ret_cache[f] = out
        return out

    # -- calls -------------------------------------------------------------
    def dispatch(self, cls, name, exact=False):
        """Methods a call recv.name() may reach when recv has static type cls."""
        out = []
        m = cls.lookup(name)
        if m is not None:
            out.append(m)
        if not exact:
            for s in cls.all_subclasses():
                if name in s.methods and s.methods[name] not in out:
                    out.append(s.methods[name])
        return out

    def resolve(self, call, func, _count=True, depth=0):
        r = self._resolve(call, func, depth)
        if _count:
            self.stats['total'] += 1
            self.stats[r.kind if r.kind in self.stats else 'external'] += 1
        return r

    def _resolve(self, call, func, depth):
        fx = call.func
        p = self.p
        # --- plain names -------------------------------------------------
        if isinstance(fx, ast.Name):
            name = fx.id
            if name == 'cls' and func.cls is not None and 'classmethod' in func.decorators:
                return self._ctor(func.cls)
            # local function defined in this function?
            nested = getattr(func, '_nested_defs', None)
            if nested is None:
                nested = func._nested_defs = {n.name: n for n in own_nodes(func.node) if isinstance(n, ast.FunctionDef)}
            if name in nested:
                return Res('package', [nested[name]._func])
            if name in func.params + func.kwonly or self.local_assignments(func, name) or self._is_loop_target(func, name):
                # a value, not a global: is it a class/function alias?
                vals = [v for v in self.local_assignments(func, name) if not isinstance(v, tuple)]
                alias_targets, alias_all = [], bool(vals)
                for v in vals:
                    g = p.resolve_name_expr(func.module, v) if isinstance(v, (ast.Name, ast.Attribute)) else None
                    if isinstance(g, ClassInfo):
                        return self._ctor(g)
                    if isinstance(g, FuncInfo):
                        return Res('package', [g])
                    if isinstance(v, ast.Attribute):
                        # bound method alias: open_chunk_reader = self._os.open_file_chunk_reader
                        # (several alternatives: submit = self._a if small else self._b  -> all of them)
                        fake = ast.Call(func=v, args=[], keywords=[])
                        ast.copy_location(fake, call)
                        fake._parent = getattr(call, '_parent', None)
                        rr = self._resolve(fake, func, depth + 1)
                        if rr.kind == 'client' and len(vals) == 1:
                            return rr
                        if rr.kind == 'package':
                            alias_targets += [t for t in rr.targets if t not in alias_targets]
                            continue
                    alias_all = False
                if alias_targets and alias_all:
                    return Res('package', alias_targets)
                ts = [t for t in self.type_of(fx, func, depth + 1) if isinstance(t, ClassInfo)]
                targets = []
                for t in ts:
                    for m in self.dispatch(t, '__call__'):
                        if m not in targets:
                            targets.append(m)
                if targets:
                    return Res('package', targets, recv=ts)
                return Res('open', ext=name)
            g = p.resolve_global(func.module, name)
            if isinstance(g, ClassInfo):
                return self._ctor(g)
            if isinstance(g, FuncInfo):
                return Res('package', [g])
            if isinstance(g, tuple) and g[0] == 'external':
                return Res('external', ext=f'{g[1]}.{g[2]}' if g[2] else g[1])
            if name in BUILTINS:
                return Res('external', ext='builtins.' + name)
            return Res('external', ext=name)
        # --- attribute calls -----------------------------------------------
        if isinstance(fx, ast.Attribute):
            meth = fx.attr
            recv = fx.value
            # super().m()
            if isinstance(recv, ast.Call) and isinstance(recv.func, ast.Name) and recv.func.id == 'super' and func.cls is not None:
                mro = func.cls.mro()
                for c in mro[1:]:
                    if meth in c.methods:
                        return Res('package', [c.methods[meth]], recv=[c])
                return Res('external', ext=f'super().{meth}')
            # Module-qualified / class-qualified: utils.f(), ClassName.method()
            g = p.resolve_name_expr(func.module, recv) if isinstance(recv, (ast.Name, ast.Attribute)) else None
            if isinstance(recv, ast.Name) and recv.id in (func.params + func.kwonly):
                g = None
            if isinstance(g, ClassInfo):
                m = g.lookup(meth)
                if m is not None:
                    return Res('package', [m], recv=[g])
                return Res('external', ext=f'{g.qualname}.{meth}')
            if isinstance(g, tuple) and g[0] == 'module':
                gg = p.resolve_global(g[1], meth)
                if isinstance(gg, ClassInfo):
                    return self._ctor(gg)
                if isinstance(gg, FuncInfo):
                    return Res('package', [gg])
                return Res('external', ext=f'{g[1].name}.{meth}')
            if isinstance(g, tuple) and g[0] == 'external':
                return Res('external', ext=f'{g[1]}.{g[2]}.{meth}' if g[2] else f'{g[1]}.{meth}')
            types = self.type_of(recv, func, depth + 1)
            if types:
                targets = []
                ext = None
                for t in types:
                    if t == CLIENT:
                        return Res('client', ext=meth)
                    if isinstance(t, str):
                        ext = f'{t[4:] if t.startswith("ext:") else t}.{meth}'
                        continue
                    exact = isinstance(recv, ast.Call) or False
                    for m in self.dispatch(t, meth, exact=False):
                        if m not in targets:
                            targets.append(m)
                if targets:
                    return Res('package', targets, recv=[t for t in types if isinstance(t, ClassInfo)])
                if ext:
                    return Res('external', ext=ext)
                if isinstance(recv, ast.Name) and recv.id == 'self' and func.cls is not None:
                    for c in func.cls.mro():
                        for f, v in c.init_attrs.get(meth, []):
                            if isinstance(v, ast.Name) and v.id in f.params:
                                return Res('open', ext='self.' + meth)
                # typed receiver without that method: external base (e.g. Queue.put)
                return Res('external', ext=f'{_tname(types[0])}.{meth}')
            # self._func(...) / self._callback() where the attr holds a parameter
            d = dotted(fx)
            if d and d.startswith('self.') and func.cls is not None and d.count('.') == 1:
                for c in func.cls.mro():
                    for f, v in c.init_attrs.get(meth, []):
                        if isinstance(v, ast.Name) and v.id in f.params:
                            return Res('open', ext=d)
            cands = self._method_names.get(meth, [])
            if cands:
                return Res('ambiguous', cands, ext=dotted(fx) or meth)
            return Res('external', ext=dotted(fx) or meth)
        # --- call of a call result etc. ----------------------------------------
        if isinstance(fx, ast.Call):
            # self._get_x_cls(...)(args): a class selected at run time
            inner = self.resolve(fx, func, _count=False, depth=depth + 1)
            if inner.kind == 'package':
                classes = []
                for t in inner.targets:
                    classes.extend(self._returned_classes(t))
                if classes:
                    targets = []
                    for c in classes:
                        m = c.lookup('__init__')
                        if m is not None and m not in targets:
                            targets.append(m)
                    return Res('package', targets, recv=classes) if targets else Res('ctor', recv=classes)
            return Res('open', ext='<call result>')
        if isinstance(fx, ast.Subscript):
            return Res('open', ext='<subscript>')
        return Res('external', ext='<expr>')

    def _ctor(self, c):
        m = c.lookup('__init__')
        if m is not None:
            return Res('package', [m], recv=[c])
        return Res('ctor', recv=[c], ext=c.qualname)

    def _is_loop_target(self, func, name):
        for n in own_nodes(func.node):
            if isinstance(n, (ast.For, ast.comprehension)):
                for t in ast.walk(n.target):
                    if isinstance(t, ast.Name) and t.id == name:
                        return True
        return False

    def _loop_classes(self, func, name):
        for n in own_nodes(func.node):
            if isinstance(n, ast.For) and isinstance(n.target, ast.Name) and n.target.id == name and isinstance(n.iter, ast.Name):
                out = []
                for v in self.local_assignments(func, n.iter.id):
                    if isinstance(v, (ast.List, ast.Tuple)):
                        for e in v.elts:
                            g = self.p.resolve_name_expr(func.module, e) if isinstance(e, (ast.Name, ast.Attribute)) else None
                            if isinstance(g, ClassInfo) and g not in out:
                                out.append(g)
                return out
        return []

    def _returned_classes(self, f):
        """Classes a class-selecting function can return (resolver chains)."""
        out = []
        names = set()
        for n in own_nodes(f.node):
            if isinstance(n, ast.Return) and n.value is not None:
                for x in ast.walk(n.value):
                    if isinstance(x, ast.Name):
                        names.add(x.id)
        # a returned loop variable iterating a literal list of classes
        for n in own_nodes(f.node):
            if isinstance(n, ast.Assign) and isinstance(n.value, (ast.List, ast.Tuple)):
                for e in n.value.elts:
                    g = self.p.resolve_name_expr(f.module, e) if isinstance(e, (ast.Name, ast.Attribute)) else None
                    if isinstance(g, ClassInfo) and g not in out:
                        out.append(g)
        for nm in names:
            g = self.p.resolve_global(f.module, nm)
            if isinstance(g, ClassInfo) and g not in out:
                out.append(g)
        return out


def _uniq(xs):
    out = []
    for x in xs:
        if x not in out:
            out.append(x)
    return out


def _tname(t):
    return t.qualname if isinstance(t, ClassInfo) else str(t)
