"""Query helpers shared by the rules: call index, guards, lock regions, stage
graph, constant evaluation, small def-use slices."""

import ast

from .ir import (AnalysisError, ClassInfo, FuncInfo, ancestors, dotted, enclosing_func,
                 enclosing_stmt, kwarg, norm, own_calls, own_nodes, short)

# ---------------------------------------------------------------------------
# call index
# ---------------------------------------------------------------------------


def call_index(ctx):
    """[(func, call, Res)] for every call in the package (cached on ctx)."""
    shared = getattr(ctx, '_shared', None)
    if shared is None:
        shared = ctx.__dict__.setdefault('_shared_local', {})
    idx = shared.get('call_index')
    if idx is None:
        idx = []
        for f in ctx.p.all_functions():
            for c in own_calls(f.node):
                idx.append((f, c, ctx.r.resolve(c, f)))
        shared['call_index'] = idx
        shared['by_func'] = {}
        for f, c, r in idx:
            shared['by_func'].setdefault(f, []).append((c, r))
        shared['callers'] = {}
        for f, c, r in idx:
            if r.kind in ('package', 'ambiguous'):
                for t in r.targets:
                    shared['callers'].setdefault(t.qualname, []).append((f, c, r))
    return idx


def calls_in(ctx, func):
    call_index(ctx)
    sh = getattr(ctx, '_shared', None) or ctx.__dict__['_shared_local']
    return list(sh['by_func'].get(func, []))


def callers_of(ctx, qualname):
    call_index(ctx)
    sh = getattr(ctx, '_shared', None) or ctx.__dict__['_shared_local']
    return list(sh['callers'].get(qualname, []))


def client_calls(ctx, op=None, modules=None):
    out = []
    for f, c, r in call_index(ctx):
        if r.kind == 'client' and (op is None or r.ext == op) and (modules is None or f.module.name in modules):
            out.append((f, c, r.ext))
    return out


def client_refs(ctx, op):
    """References ``<client>.<op>`` that are not the callee of a call (method values)."""
    out = []
    for f in ctx.p.all_functions():
        for n in own_nodes(f.node):
            if isinstance(n, ast.Attribute) and n.attr == op:
                par = getattr(n, '_parent', None)
                if isinstance(par, ast.Call) and par.func is n:
                    continue
                from .resolve import CLIENT
                if CLIENT in ctx.r.type_of(n.value, f):
                    out.append((f, n))
    return out


def find_calls(func, name):
    """Calls in func whose dotted callee ends with ``name`` (textual tail match,
    for locating statements; resolution is done separately)."""
    out = []
    for c in own_calls(func.node):
        d = dotted(c.func)
        if d and (d == name or d.endswith('.' + name)):
            out.append(c)
    return out


def transitive_callees(ctx, func, depth=6, follow_ambiguous=False):
    """Package functions reachable from func through resolved calls."""
    seen = {}
    stack = [(func, 0, [func.qualname])]
    while stack:
        f, d, path = stack.pop()
        if f in seen or d > depth:
            continue
        seen[f] = path
        for c, r in calls_in(ctx, f):
            if r.kind == 'package' or (follow_ambiguous and r.kind == 'ambiguous'):
                for t in r.targets:
                    if t not in seen:
                        stack.append((t, d + 1, path + [t.qualname]))
    return seen


# ---------------------------------------------------------------------------
# guards / control dependence (syntax directed)
# ---------------------------------------------------------------------------

def always_exits(stmts):
    """The block cannot complete normally (ends in raise/return/continue/break)."""
    if not stmts:
        return False
    last = stmts[-1]
    if isinstance(last, (ast.Raise, ast.Return, ast.Continue, ast.Break)):
        return True
    if isinstance(last, ast.If) and last.orelse:
        return always_exits(last.body) and always_exits(last.orelse)
    return False


def _flag_def(name_node):
    """The defining expression of a local boolean flag: the local is stored exactly once in its function, by a plain
    assignment that precedes the use, and its value is a test (comparison, boolean operator, call, attribute).  The
    node returned is the definition's own expression (so lock regions etc. are those of the point of evaluation)."""
    fn = None
    for a in ancestors(name_node):
        if isinstance(a, (ast.FunctionDef, ast.AsyncFunctionDef)):
            fn = a
            break
    if fn is None or name_node.id in {x.arg for x in ast.walk(fn.args) if isinstance(x, ast.arg)}:
        return None
    stores = [n for n in own_nodes(fn) if isinstance(n, ast.Name) and n.id == name_node.id and not isinstance(n.ctx, ast.Load)]
    if len(stores) != 1:
        return None
    st = getattr(stores[0], '_parent', None)
    if not (isinstance(st, ast.Assign) and len(st.targets) == 1 and st.targets[0] is stores[0]):
        return None
    if getattr(st, '_pos', 0) > getattr(name_node, '_pos', 0) or in_loop(st) is not in_loop(name_node):
        return None
    v = st.value
    if isinstance(v, (ast.Compare, ast.BoolOp)) or (isinstance(v, ast.UnaryOp) and isinstance(v.op, ast.Not)):
        return v
    if isinstance(v, (ast.Call, ast.Attribute)):
        # a call / attribute result is a flag only if the local is used for nothing but tests
        def in_test(n):
            child = n
            for a in ancestors(n):
                if isinstance(a, (ast.If, ast.While, ast.IfExp)) and a.test is child:
                    return True
                if not isinstance(a, (ast.BoolOp, ast.UnaryOp)):
                    return False
                child = a
            return False
        loads = [n for n in own_nodes(fn) if isinstance(n, ast.Name) and n.id == name_node.id and isinstance(n.ctx, ast.Load)]
        if loads and all(in_test(n) for n in loads):
            return v
    return None


def _deflag(test, depth=0):
    """replace local boolean flags in a test by their definitions (through not / and / or)"""
    if depth > 4:
        return test
    if isinstance(test, ast.Name):
        d = _flag_def(test)
        return _deflag(d, depth + 1) if d is not None else test
    if isinstance(test, ast.UnaryOp) and isinstance(test.op, ast.Not):
        o = _deflag(test.operand, depth + 1)
        if o is not test.operand:
            n = ast.UnaryOp(op=ast.Not(), operand=o)
            ast.copy_location(n, test)
            n._parent = getattr(test, '_parent', None)
            return n
        return test
    if isinstance(test, ast.BoolOp):
        vals = [_deflag(v, depth + 1) for v in test.values]
        if any(a is not b for a, b in zip(vals, test.values)):
            n = ast.BoolOp(op=test.op, values=vals)
            ast.copy_location(n, test)
            n._parent = getattr(test, '_parent', None)
            return n
    return test


def _norm_guard(test, pol):
    test = _deflag(test)
    while isinstance(test, ast.UnaryOp) and isinstance(test.op, ast.Not):
        test, pol = test.operand, not pol
    return test, pol


def guards(node):
    """[(test_expr, polarity)] under which ``node`` executes, outermost first:
    enclosing if/while/ifexp branches plus preceding ``if c: <exit>`` siblings.
    ``not X`` is normalised to (X, flipped polarity)."""
    out = []
    child = node
    for p in ancestors(node):
        if isinstance(p, ast.Lambda):
            break
        if isinstance(p, ast.If):
            if any(child is s for s in p.body):
                out.append(_norm_guard(p.test, True))
            elif any(child is s for s in p.orelse):
                out.append(_norm_guard(p.test, False))
        elif isinstance(p, ast.While):
            if any(child is s for s in p.body) and not (isinstance(p.test, ast.Constant) and p.test.value):
                out.append(_norm_guard(p.test, True))
        elif isinstance(p, ast.IfExp):
            if child is p.body:
                out.append(_norm_guard(p.test, True))
            elif child is p.orelse:
                out.append(_norm_guard(p.test, False))
        # preceding early exits in the same block
        for field in ('body', 'orelse', 'finalbody'):
            blk = getattr(p, field, None)
            if isinstance(blk, list) and any(child is s for s in blk):
                pre = []
                for s in blk:
                    if s is child:
                        break
                    if isinstance(s, ast.If) and always_exits(s.body) and not (s.orelse and always_exits(s.orelse)):
                        pre.append(_norm_guard(s.test, False))
                    elif isinstance(s, ast.If) and s.orelse and always_exits(s.orelse) and not always_exits(s.body):
                        pre.append(_norm_guard(s.test, True))
                out.extend(reversed(pre))
        if isinstance(p, (ast.FunctionDef, ast.AsyncFunctionDef)):
            break
        child = p
    out.reverse()
    return out


def guard_texts(node):
    return [(norm(t), pol) for t, pol in guards(node)]


def in_loop(node, stop=None):
    for p in ancestors(node):
        if p is stop or isinstance(p, (ast.FunctionDef, ast.AsyncFunctionDef, ast.Lambda)):
            return None
        if isinstance(p, (ast.For, ast.While, ast.AsyncFor)):
            child_in_body = True
            return p
        if isinstance(p, (ast.ListComp, ast.SetComp, ast.DictComp, ast.GeneratorExp)):
            return p
    return None


def in_handler(node):
    for p in ancestors(node):
        if isinstance(p, (ast.FunctionDef, ast.AsyncFunctionDef, ast.Lambda)):
            return None
        if isinstance(p, ast.ExceptHandler):
            return p
    return None


def in_try_body(node):
    """Innermost (Try, where) with where in body/handler/orelse/finalbody."""
    child = node
    for p in ancestors(node):
        if isinstance(p, (ast.FunctionDef, ast.AsyncFunctionDef, ast.Lambda)):
            return None, None
        if isinstance(p, ast.Try):
            for field in ('body', 'orelse', 'finalbody'):
                if any(child is s for s in getattr(p, field)):
                    return p, field
        if isinstance(p, ast.ExceptHandler):
            pp = p._parent
            return pp, 'handler'
        child = p
    return None, None


def enclosing_trys(node):
    """All (Try, field) frames around node, innermost first."""
    out = []
    child = node
    for p in ancestors(node):
        if isinstance(p, (ast.FunctionDef, ast.AsyncFunctionDef, ast.Lambda)):
            break
        if isinstance(p, ast.Try):
            for field in ('body', 'orelse', 'finalbody'):
                if any(child is s for s in getattr(p, field)):
                    out.append((p, field))
        elif isinstance(p, ast.ExceptHandler):
            out.append((p._parent, 'handler'))
            child = p._parent
            continue
        child = p
    return out


# ---------------------------------------------------------------------------
# lock regions
# ---------------------------------------------------------------------------
LOCKISH = ('lock', '_condition', 'condition')


def is_lock_expr(expr):
    d = dotted(expr)
    if not d:
        return False
    tail = d.split('.')[-1].lower()
    return tail.endswith('lock') or tail.endswith('condition')


def locks_held(node):
    """Lock expressions (dotted) syntactically held at ``node``."""
    held = []
    child = node
    for p in ancestors(node):
        if isinstance(p, (ast.FunctionDef, ast.AsyncFunctionDef, ast.Lambda)):
            break
        if isinstance(p, (ast.With, ast.AsyncWith)) and any(child is s for s in p.body):
            for it in p.items:
                if is_lock_expr(it.context_expr):
                    held.append(dotted(it.context_expr))
        if isinstance(p, ast.Try) and any(child is s for s in p.body) and p.finalbody:
            # X.acquire() immediately before the try, X.release() in finally
            rel = set()
            for s in p.finalbody:
                if isinstance(s, ast.Expr) and isinstance(s.value, ast.Call):
                    d = dotted(s.value.func)
                    if d and d.endswith('.release') and is_lock_expr(s.value.func.value):
                        rel.add(d[:-len('.release')])
            if rel:
                blk = _containing_block(p)
                if blk is not None:
                    i = [k for k, s in enumerate(blk) if s is p][0]
                    for s in blk[:i]:
                        if isinstance(s, ast.Expr) and isinstance(s.value, ast.Call):
                            d = dotted(s.value.func)
                            if d and d.endswith('.acquire') and d[:-len('.acquire')] in rel:
                                held.append(d[:-len('.acquire')])
        child = p
    return held


def _containing_block(stmt):
    p = getattr(stmt, '_parent', None)
    if p is None:
        return None
    for field in ('body', 'orelse', 'finalbody'):
        blk = getattr(p, field, None)
        if isinstance(blk, list) and any(stmt is s for s in blk):
            return blk
    return None


def containing_block(stmt):
    return _containing_block(stmt)


# ---------------------------------------------------------------------------
# constant evaluation
# ---------------------------------------------------------------------------

class NotConst(Exception):
    pass


def const_eval(ctx, expr, module, cls=None, depth=0):
    """Evaluate literal tables / integer constants.  Raises NotConst."""
    p = ctx.p
    if depth > 12:
        raise NotConst('too deep')
    if isinstance(expr, ast.Constant):
        return expr.value
    if isinstance(expr, (ast.List, ast.Tuple)):
        out = []
        for e in expr.elts:
            if isinstance(e, ast.Starred):
                out.extend(const_eval(ctx, e.value, module, cls, depth + 1))
            else:
                out.append(const_eval(ctx, e, module, cls, depth + 1))
        return out if isinstance(expr, ast.List) else tuple(out)
    if isinstance(expr, ast.Set):
        return set(const_eval(ctx, e, module, cls, depth + 1) for e in expr.elts)
    if isinstance(expr, ast.Dict):
        d = {}
        for k, v in zip(expr.keys, expr.values):
            if k is None:
                d.update(const_eval(ctx, v, module, cls, depth + 1))
            else:
                d[const_eval(ctx, k, module, cls, depth + 1)] = const_eval(ctx, v, module, cls, depth + 1)
        return d
    if isinstance(expr, ast.BinOp):
        a = const_eval(ctx, expr.left, module, cls, depth + 1)
        b = const_eval(ctx, expr.right, module, cls, depth + 1)
        try:
            if isinstance(expr.op, ast.Add):
                if isinstance(a, tuple) and isinstance(b, list):
                    a = list(a)
                if isinstance(a, list) and isinstance(b, tuple):
                    b = list(b)
                return a + b
            if isinstance(expr.op, ast.Sub):
                return a - b
            if isinstance(expr.op, ast.Mult):
                return a * b
            if isinstance(expr.op, ast.Pow):
                return a ** b
            if isinstance(expr.op, ast.FloorDiv):
                return a // b
        except Exception as e:
            raise NotConst(str(e))
        raise NotConst('operator')
    if isinstance(expr, ast.UnaryOp) and isinstance(expr.op, ast.USub):
        return -const_eval(ctx, expr.operand, module, cls, depth + 1)
    if isinstance(expr, ast.Name):
        if cls is not None:
            owner, v = cls.lookup_attr(expr.id)
            if v is not None and v is not expr:
                return const_eval(ctx, v, owner.module, owner, depth + 1)
        g = p.resolve_global(module, expr.id)
        if isinstance(g, tuple) and g[0] == 'const':
            return const_eval(ctx, g[2], g[1], None, depth + 1)
        raise NotConst(f'name {expr.id}')
    if isinstance(expr, ast.Attribute):
        # self.X / cls.X / ClassName.X / module.X
        if isinstance(expr.value, ast.Name) and expr.value.id in ('self', 'cls') and cls is not None:
            owner, v = cls.lookup_attr(expr.attr)
            if v is not None:
                return const_eval(ctx, v, owner.module, owner, depth + 1)
            raise NotConst(f'attr {expr.attr}')
        g = p.resolve_name_expr(module, expr)
        if isinstance(g, tuple) and g[0] == 'const':
            return const_eval(ctx, g[2], g[1], None, depth + 1)
        raise NotConst(f'attribute {norm(expr)}')
    if isinstance(expr, ast.Call) and isinstance(expr.func, ast.Name) and expr.func.id in ('list', 'tuple', 'set', 'frozenset', 'sorted') and len(expr.args) == 1:
        v = const_eval(ctx, expr.args[0], module, cls, depth + 1)
        return {'list': list, 'tuple': tuple, 'set': set, 'frozenset': frozenset, 'sorted': sorted}[expr.func.id](v)
    raise NotConst(type(expr).__name__)


# ---------------------------------------------------------------------------
# small def-use slice
# ---------------------------------------------------------------------------

def local_defs(func, name):
    """Expressions assigned to local ``name`` anywhere in func (flow-insensitive)."""
    out = []
    for n in own_nodes(func.node):
        if isinstance(n, ast.Assign):
            for t in n.targets:
                for e in ([t] if not isinstance(t, (ast.Tuple, ast.List)) else t.elts):
                    if isinstance(e, ast.Name) and e.id == name:
                        out.append((n, n.value))
        elif isinstance(n, ast.AugAssign) and isinstance(n.target, ast.Name) and n.target.id == name:
            out.append((n, n))
        elif isinstance(n, ast.AnnAssign) and isinstance(n.target, ast.Name) and n.target.id == name and n.value is not None:
            out.append((n, n.value))
        elif isinstance(n, (ast.For, ast.AsyncFor)):
            for e in ast.walk(n.target):
                if isinstance(e, ast.Name) and e.id == name:
                    out.append((n, n.iter))
        elif isinstance(n, (ast.With, ast.AsyncWith)):
            for it in n.items:
                if it.optional_vars is not None:
                    for e in ast.walk(it.optional_vars):
                        if isinstance(e, ast.Name) and e.id == name:
                            out.append((n, it.context_expr))
        elif isinstance(n, ast.NamedExpr) and n.target.id == name:
            out.append((n, n.value))
        elif isinstance(n, ast.ExceptHandler) and n.name == name:
            out.append((n, n))
        elif isinstance(n, ast.comprehension):
            for e in ast.walk(n.target):
                if isinstance(e, ast.Name) and e.id == name:
                    out.append((n, n.iter))
    return out


def reaching_defs(g, func, name, target_nodes, labels=None):
    """Definitions (stmt, value) of local ``name`` that reach one of target_nodes on some normal path
    without being overwritten on the way (flow-sensitive counterpart of local_defs)."""
    defs = local_defs(func, name)
    nodes = {id(st): g.nodes_of(st) for st, _ in defs}
    out = []
    tset = set(target_nodes)
    for st, v in defs:
        others = [n for st2, _ in defs if st2 is not st for n in nodes[id(st2)]]
        r = g.reach(nodes[id(st)], avoid=others, labels=labels or g.NORMAL)
        if tset & set(r):
            out.append((st, v))
    return out


def path_values(g, func, target_nodes, exprs, labels=None):
    """For every acyclic path from the entry to one of target_nodes: (conditions, [value of
    each expr at the end of the path]).  A Name is replaced by the value last assigned to it
    on the path (recursively for plain copies); 'param' stands for an unassigned parameter.
    None when the paths cannot be enumerated."""
    res = g.path_conditions([g.entry], target_nodes, labels=labels or g.NORMAL, with_nodes=True)
    if res is None:
        return None
    out = []
    for conds, nodes in res:
        last = {}
        for n in nodes[:-1]:
            st = n.ast if n.kind == 'stmt' else None
            if isinstance(st, ast.Assign):
                for t in st.targets:
                    if isinstance(t, ast.Name):
                        last[t.id] = st.value
                    elif isinstance(t, (ast.Tuple, ast.List)):
                        for e in t.elts:
                            if isinstance(e, ast.Name):
                                last[e.id] = st
            elif isinstance(st, ast.AugAssign) and isinstance(st.target, ast.Name):
                last[st.target.id] = st
        vals = []
        for e in exprs:
            depth = 0
            while isinstance(e, ast.Name) and e.id in last and depth < 6:
                e = last[e.id]
                depth += 1
            vals.append(e)
        # branch tests that only name a local flag are read as the flag's definition (as q.guards does)
        conds = [_norm_guard(e, pol) if isinstance(e, ast.AST) else (e, pol) for e, pol in conds]
        out.append((conds, vals, nodes[-1]))
    return out


def straightline(func):
    """Symbolic effect of a function whose body is a straight line of assignments / expression statements / one
    final return: {target text: expression in terms of the values at entry}.  Targets are locals, `self.attr`
    and subscripted stores (`self.d[k]`); '<return>' is the returned expression.  None if the body branches."""
    import copy
    body = list(func.node.body)
    if body and isinstance(body[0], ast.Expr) and isinstance(body[0].value, ast.Constant) and isinstance(body[0].value.value, str):
        body = body[1:]
    env = {}

    class S(ast.NodeTransformer):
        def visit_Name(self, node):
            if isinstance(node.ctx, ast.Load) and node.id in env:
                return copy.deepcopy(env[node.id])
            return node

        def visit_Attribute(self, node):
            t = dotted(node)
            if isinstance(node.ctx, ast.Load) and t in env:
                return copy.deepcopy(env[t])
            self.generic_visit(node)
            return node

    def ev(e):
        return S().visit(copy.deepcopy(e))
    for st in body:
        if isinstance(st, ast.Assign) and len(st.targets) == 1:
            v = ev(st.value)
            t = st.targets[0]
            if isinstance(t, ast.Name):
                env[t.id] = v
            elif isinstance(t, ast.Attribute) and dotted(t):
                env[dotted(t)] = v
            elif isinstance(t, ast.Subscript):
                env[norm(ev(t.value)) + '[' + norm(ev(t.slice)) + ']'] = v
            else:
                return None
        elif isinstance(st, ast.AugAssign) and isinstance(st.target, (ast.Name, ast.Attribute)):
            key = st.target.id if isinstance(st.target, ast.Name) else dotted(st.target)
            if key is None:
                return None
            cur = copy.deepcopy(st.target)
            for n in ast.walk(cur):
                if hasattr(n, 'ctx'):
                    n.ctx = ast.Load()
            env[key] = ast.BinOp(left=ev(cur), op=st.op, right=ev(st.value))
        elif isinstance(st, ast.Expr):
            continue
        elif isinstance(st, ast.Return):
            env['<return>'] = ev(st.value) if st.value is not None else ast.Constant(value=None)
            break
        else:
            return None
    return env


def inline_locals(func, expr, depth=0):
    """A copy of expr with every single-definition local replaced by its definition (recursively)."""
    import copy

    class T(ast.NodeTransformer):
        def visit_Name(self, node):
            if isinstance(node.ctx, ast.Load) and node.id not in func.params + func.kwonly and depth < 6:
                d = single_def(func, node.id)
                if isinstance(d, ast.expr) and len(local_defs(func, node.id)) == 1:
                    return inline_locals(func, d, depth + 1)
            return node
    return T().visit(copy.deepcopy(expr))


def argn(call, name, pos=None):
    """The argument of ``call`` for parameter ``name``: by keyword, else at position ``pos``."""
    for k in call.keywords:
        if k.arg == name:
            return k.value
    if pos is not None and pos < len(call.args) and not any(isinstance(a, ast.Starred) for a in call.args[:pos + 1]):
        return call.args[pos]
    return None


def bound(ctx, func, call):
    """{parameter name: argument expr} through the resolved (single) package target; {} if unresolved."""
    r = ctx.r.resolve(call, func, _count=False)
    if r.kind != 'package' or not r.targets:
        return {}
    b = bind_args(ctx, call, func, r.targets[0]) or {}
    return {k: v for k, v in b.items() if isinstance(v, ast.AST)}


def list_elements(func, name):
    """The elements, in order, of a local list built by one list display and any number of
    unconditional `name.append(e)` statements outside loops and try blocks (positions decide
    the order).  None when the list is built any other way."""
    d = single_def(func, name)
    if not isinstance(d, ast.List) or len(local_defs(func, name)) != 1:
        return None
    out = list(d.elts)
    muts = [c for c in own_calls(func.node) if isinstance(c.func, ast.Attribute) and isinstance(c.func.value, ast.Name) and c.func.value.id == name
            and c.func.attr in ('append', 'extend', 'insert', 'remove', 'pop', 'sort', 'reverse', 'clear')]
    for c in sorted(muts, key=lambda c: c._pos):
        if c.func.attr != 'append' or len(c.args) != 1 or guards(c) or in_loop(c) is not None or enclosing_trys(c):
            return None
        out.append(c.args[0])
    return out


def built_list(func, name):
    """The canonical loop form of a list comprehension: `name = []` (only definition), exactly
    one `name.append(e)` inside a for loop, no other mutation of name.
    -> (loop, element expr, [(cond, polarity)] inside the loop) or None."""
    d = single_def(func, name)
    if not (isinstance(d, ast.List) and not d.elts) or len(local_defs(func, name)) != 1:
        return None
    uses = [c for c in own_calls(func.node) if isinstance(c.func, ast.Attribute) and isinstance(c.func.value, ast.Name) and c.func.value.id == name]
    if len(uses) != 1 or uses[0].func.attr != 'append' or len(uses[0].args) != 1:
        return None
    loop = in_loop(uses[0])
    if not isinstance(loop, ast.For):
        return None
    conds = [(t, pol) for t, pol in guards(uses[0]) if any(a is loop for a in ancestors(t))]
    return loop, uses[0].args[0], conds


def built_dict(func, name):
    """`name = {}` + exactly one `name[k] = v` inside a for loop (canonical form of a dict
    comprehension) -> (loop, key expr, value expr, conds) or None."""
    d = single_def(func, name)
    if not (isinstance(d, ast.Dict) and not d.keys) or len(local_defs(func, name)) != 1:
        return None
    stores = [n for n in own_nodes(func.node) if isinstance(n, ast.Assign) and len(n.targets) == 1 and isinstance(n.targets[0], ast.Subscript)
              and isinstance(n.targets[0].value, ast.Name) and n.targets[0].value.id == name]
    muts = [c for c in own_calls(func.node) if isinstance(c.func, ast.Attribute) and isinstance(c.func.value, ast.Name) and c.func.value.id == name
            and c.func.attr in ('update', 'pop', 'clear', 'setdefault', 'popitem')]
    if len(stores) != 1 or muts:
        return None
    loop = in_loop(stores[0])
    if not isinstance(loop, ast.For):
        return None
    conds = [(t, pol) for t, pol in guards(stores[0]) if any(a is loop for a in ancestors(t))]
    return loop, stores[0].targets[0].slice, stores[0].value, conds


def else_branch(if_node):
    """The statements executed when the test of ``if_node`` is false: its orelse, or - in the
    canonical guard-clause form (body always leaves the block) - the rest of the enclosing
    block.  [] when the false branch is empty."""
    if if_node.orelse:
        return list(if_node.orelse)
    if not always_exits(if_node.body):
        return []
    par = getattr(if_node, '_parent', None)
    for fld in ('body', 'orelse', 'finalbody'):
        blk = getattr(par, fld, None)
        if isinstance(blk, list) and if_node in blk:
            return blk[blk.index(if_node) + 1:]
    return []


def flag_true_implies(func, name, target, seen=None):
    """Whenever the local flag ``name`` is truthy, did ``target`` hold where it was set?
    Every definition is a falsy constant, or sits under guards implying target, or is an
    expression whose truth (with the guards) implies target, or copies another such flag.
    At least one definition must be able to make it truthy."""
    seen = seen or set()
    if name in seen:
        return False
    seen = seen | {name}
    contributing = 0
    for st, v in local_defs(func, name):
        if not isinstance(v, ast.expr):
            return False
        if isinstance(v, ast.Constant) and not v.value:
            continue
        contributing += 1
        gs = guards(st)
        if guards_imply(gs, target):
            continue
        if isinstance(v, ast.Name):
            if flag_true_implies(func, v.id, target, seen):
                continue
            return False
        if isinstance(v, ast.Constant):
            return False
        if not guards_imply(gs + [(v, True)], target):
            return False
    return contributing > 0


def derives_from(func, expr, pred, depth=0, seen=None):
    """Some sub-expression of ``expr`` (through local assignments) satisfies pred."""
    seen = seen if seen is not None else set()
    if depth > 8:
        return False
    for n in ast.walk(expr):
        if pred(n):
            return True
    for n in ast.walk(expr):
        if isinstance(n, ast.Name) and n.id not in seen and n.id not in ('self',):
            seen.add(n.id)
            for _, v in local_defs(func, n.id):
                if isinstance(v, ast.AST) and v is not expr and derives_from(func, v, pred, depth + 1, seen):
                    return True
    return False


def names_in(expr):
    return {n.id for n in ast.walk(expr) if isinstance(n, ast.Name)}


def attr_names_in(expr):
    return {n.attr for n in ast.walk(expr) if isinstance(n, ast.Attribute)}


# ---------------------------------------------------------------------------
# stage graph: task submissions
# ---------------------------------------------------------------------------

class Submit:
    def __init__(self, func, call, executor, task_expr, tag, via):
        self.func = func
        self.call = call
        self.executor = executor  # expr
        self.task_expr = task_expr
        self.tag = tag
        self.via = via  # 'coordinator.submit' | 'executor.submit' | 'FunctionContainer'
        self.task_ctors = []  # [(ClassInfo, ctor Call or None)]

    @property
    def executor_text(self):
        return norm(self.executor)

    def __repr__(self):
        return f'<Submit {self.func.qualname}:{self.call.lineno} {self.executor_text} {[c.name for c, _ in self.task_ctors]}>'


def task_base(ctx):
    return ctx.cls('tasks.Task')


def task_ctors_of(ctx, expr, func, depth=0):
    """Resolve an expression to the task constructor calls it may denote:
    [(ClassInfo, ctor_call_or_None, owning_func)]."""
    if depth > 5:
        return []
    base = task_base(ctx)
    if isinstance(expr, ast.Call):
        r = ctx.r.resolve(expr, func, _count=False)
        out = []
        if r.kind == 'package':
            for t in r.targets:
                if t.name == '__init__' and r.recv:
                    for c in r.recv:
                        if isinstance(c, ClassInfo) and c.is_subclass_of(base):
                            out.append((c, expr, func))
                elif t.name != '__init__':
                    # a factory: follow its return expressions
                    for n in own_nodes(t.node):
                        if isinstance(n, ast.Return) and n.value is not None:
                            out.extend(task_ctors_of(ctx, n.value, t, depth + 1))
        elif r.kind == 'open':
            # submission_task_cls(...) : a class passed as parameter
            out.append((None, expr, func))
        return out
    if isinstance(expr, ast.Name):
        out = []
        for _, v in local_defs(func, expr.id):
            if isinstance(v, ast.AST) and not isinstance(v, (ast.AugAssign, ast.ExceptHandler)):
                out.extend(task_ctors_of(ctx, v, func, depth + 1))
        return out
    return []


def submits(ctx):
    """Every site that hands a task to an executor."""
    sh = getattr(ctx, '_shared', None)
    cached = sh.get('submits') if sh is not None else getattr(ctx, '_submits', None)
    if cached is not None:
        return cached
    out = []
    for f, c, r in call_index(ctx):
        names = set(r.names()) if r.kind in ('package', 'ambiguous') else set()
        if 'futures.TransferCoordinator.submit' in names and r.kind == 'package':
            if len(c.args) >= 2:
                s = Submit(f, c, c.args[0], c.args[1], kwarg(c, 'tag') or (c.args[2] if len(c.args) > 2 else None), 'coordinator.submit')
                s.task_ctors = task_ctors_of(ctx, s.task_expr, f)
                out.append(s)
        elif 'futures.BoundedExecutor.submit' in names and r.kind == 'package':
            if f.qualname == 'futures.TransferCoordinator.submit':
                continue  # the forwarding call inside coordinator.submit itself
            if c.args:
                s = Submit(f, c, c.func.value, c.args[0], kwarg(c, 'tag'), 'executor.submit')
                s.task_ctors = task_ctors_of(ctx, s.task_expr, f)
                out.append(s)
        elif 'utils.FunctionContainer.__init__' in names and len(c.args) >= 3:
            # FunctionContainer(<coord>.submit, executor, task)
            a0 = c.args[0]
            if isinstance(a0, ast.Attribute) and a0.attr == 'submit':
                ts = ctx.r.type_of(a0.value, f)
                if any(isinstance(t, ClassInfo) and t.qualname == 'futures.TransferCoordinator' for t in ts):
                    s = Submit(f, c, c.args[1], c.args[2], None, 'FunctionContainer')
                    s.task_ctors = task_ctors_of(ctx, s.task_expr, f)
                    out.append(s)
    if sh is not None:
        sh['submits'] = out
    ctx._submits = out
    return out


def executor_origins(ctx, func, expr, depth=0):
    """Texts of the executor expressions that can reach ``expr`` (a parameter is
    followed to the arguments of the package callers, two hops)."""
    if isinstance(expr, ast.Name) and expr.id in func.params and depth < 3:
        outs = []
        for cf, c, r in callers_of(ctx, func.qualname):
            b = bind_args(ctx, c, cf, func)
            if b is None or expr.id not in b or isinstance(b[expr.id], list):
                continue
            outs.extend(executor_origins(ctx, cf, b[expr.id], depth + 1))
        if outs:
            return sorted(set(outs))
    return [norm(expr)]


def ctor_kw(call, name):
    return kwarg(call, name) if call is not None else None


def ctor_is_final(ctx, cls, ctor_call):
    """Is the task constructed with is_final truthy (explicitly or by the class default)?"""
    if ctor_call is not None:
        v = kwarg(ctor_call, 'is_final')
        if v is not None:
            return isinstance(v, ast.Constant) and v.value is True
        if len(ctor_call.args) >= 5:
            v = ctor_call.args[4]
            return isinstance(v, ast.Constant) and v.value is True
    if cls is None:
        return False
    init = cls.lookup('__init__')
    if init is not None:
        d = init.defaults_map().get('is_final')
        return isinstance(d, ast.Constant) and d.value is True
    return False


def main_of(cls):
    return cls.lookup('_main')


# ---------------------------------------------------------------------------
# argument binding
# ---------------------------------------------------------------------------

def is_unbound_call(ctx, call, func):
    """ClassName.method(self, ...) style call (explicit self)."""
    fx = call.func
    if isinstance(fx, ast.Attribute) and isinstance(fx.value, (ast.Name, ast.Attribute)):
        if isinstance(fx.value, ast.Name) and fx.value.id in func.params + func.kwonly:
            return False
        g = ctx.p.resolve_name_expr(func.module, fx.value)
        return isinstance(g, ClassInfo)
    return False


def bind_args(ctx, call, func, target):
    """param name -> argument expr for a call resolved to ``target``; None if
    the binding cannot be determined (star args before positionals)."""
    params = list(target.params)
    if target.cls is not None and target.outer is None and not target.is_static and params:
        unbound = is_unbound_call(ctx, call, func) and 'classmethod' not in target.decorators
        if not unbound:
            params = params[1:]
    out = {}
    for i, a in enumerate(call.args):
        if isinstance(a, ast.Starred):
            return None
        if i < len(params):
            out[params[i]] = a
        elif target.vararg:
            out.setdefault('*' + target.vararg, []).append(a)
        else:
            out[f'<extra{i}>'] = a
    for k in call.keywords:
        if k.arg is None:
            continue
        out[k.arg] = k.value
    return out


# ---------------------------------------------------------------------------
# propositional reasoning over guards
# ---------------------------------------------------------------------------

def _atom_key(expr):
    """(key, negated): `a <= b` is keyed as the negation of `b < a`; `a != b` of `a == b`;
    `a not in b` of `a in b`; `a is not b` of `a is b`."""
    if isinstance(expr, ast.Compare) and len(expr.ops) == 1:
        op, l, r = expr.ops[0], expr.left, expr.comparators[0]
        if isinstance(op, (ast.Lt, ast.LtE, ast.Gt, ast.GtE)) or (isinstance(op, (ast.Eq, ast.NotEq)) and
                any(isinstance(x, ast.BinOp) and isinstance(x.op, (ast.Add, ast.Sub)) for side in (l, r) for x in ast.walk(side))):
            # integer-linear comparison: keyed by the normal form of (left - right), so `i == n - 1` and `i + 1 == n` are one atom
            from .poly import poly, show, NotPoly
            try:
                a, b = poly(l), poly(r)
                d = dict(a)
                for k_, v_ in b.items():
                    d[k_] = d.get(k_, 0) - v_
                d = {k_: v_ for k_, v_ in d.items() if v_}
                neg_d = {k_: -v_ for k_, v_ in d.items()}
                if isinstance(op, (ast.Eq, ast.NotEq)):
                    first = sorted(d.items())[0][1] if d else 1
                    return f'lin:{show(d if first > 0 else neg_d)} == 0', isinstance(op, ast.NotEq)
                if isinstance(op, ast.Lt):
                    return f'lin:{show(d)} < 0', False
                if isinstance(op, ast.GtE):
                    return f'lin:{show(d)} < 0', True
                if isinstance(op, ast.Gt):
                    return f'lin:{show(neg_d)} < 0', False
                if isinstance(op, ast.LtE):
                    return f'lin:{show(neg_d)} < 0', True
            except NotPoly:
                pass
        if isinstance(op, ast.LtE):
            return f'{norm(r)} < {norm(l)}', True
        if isinstance(op, ast.GtE):
            return f'{norm(l)} < {norm(r)}', True
        if isinstance(op, ast.Gt):
            return f'{norm(r)} < {norm(l)}', False
        if isinstance(op, ast.NotEq):
            return f'{norm(l)} == {norm(r)}', True
        if isinstance(op, ast.NotIn):
            return f'{norm(l)} in {norm(r)}', True
        if isinstance(op, ast.IsNot):
            return f'{norm(l)} is {norm(r)}', True
    return norm(expr), False


def _atoms(expr, acc):
    if isinstance(expr, ast.BoolOp):
        for v in expr.values:
            _atoms(v, acc)
    elif isinstance(expr, ast.UnaryOp) and isinstance(expr.op, ast.Not):
        _atoms(expr.operand, acc)
    else:
        t = _atom_key(expr)[0]
        if t not in acc:
            acc.append(t)


def _truth(expr, val):
    if isinstance(expr, ast.BoolOp):
        vs = [_truth(v, val) for v in expr.values]
        return all(vs) if isinstance(expr.op, ast.And) else any(vs)
    if isinstance(expr, ast.UnaryOp) and isinstance(expr.op, ast.Not):
        return not _truth(expr.operand, val)
    k, neg = _atom_key(expr)
    return (not val[k]) if neg else val[k]


def guards_imply(gs, target):
    """Do the guards [(expr, polarity)] propositionally imply ``target`` (source text
    or AST)?  Atoms are compared by normalised text; no theory reasoning."""
    import itertools
    if isinstance(target, str):
        from .ir import canonicalise
        target = canonicalise(ast.parse(target, mode='eval')).body
    atoms = []
    for e, _ in gs:
        _atoms(e, atoms)
    _atoms(target, atoms)
    if len(atoms) > 12:
        return False
    for bits in itertools.product([False, True], repeat=len(atoms)):
        val = dict(zip(atoms, bits))
        if all(_truth(e, val) == pol for e, pol in gs) and not _truth(target, val):
            return False
    return True


def equivalent(a, b):
    """Propositional equivalence of two boolean expressions (atoms by text)."""
    import itertools
    from .ir import canonicalise
    if isinstance(a, str):
        a = canonicalise(ast.parse(a, mode='eval')).body
    if isinstance(b, str):
        b = canonicalise(ast.parse(b, mode='eval')).body
    atoms = []
    _atoms(a, atoms)
    _atoms(b, atoms)
    if len(atoms) > 12:
        return False
    for bits in itertools.product([False, True], repeat=len(atoms)):
        val = dict(zip(atoms, bits))
        if _truth(a, val) != _truth(b, val):
            return False
    return True


def value_referrers(ctx, func):
    """Functions of the same module that mention func as a value (self.f / f not called),
    e.g. functools.partial(self.f, ...) or executor.submit(self.f)."""
    out = []
    for f in ctx.p.all_functions():
        if f.module is not func.module or f is func:
            continue
        for n in own_nodes(f.node):
            if isinstance(n, ast.Attribute) and n.attr == func.name and not (isinstance(n._parent, ast.Call) and n._parent.func is n):
                if isinstance(n.value, ast.Name) and n.value.id == 'self' and f.cls is not None and func.cls is not None and (f.cls is func.cls or func.cls in f.cls.mro()):
                    out.append((f, n))
    return out


def guards_under_lock(node, lock):
    """The guards of node whose test expression is evaluated while ``lock`` is held."""
    return [(e, pol) for e, pol in guards(node) if lock in locks_held(e)]


# ---------------------------------------------------------------------------
# discovering locals by role (so that rules do not depend on local variable names)
# ---------------------------------------------------------------------------

def names_defined_by(func, pred):
    """Local names having a definition whose value satisfies pred(value_ast)."""
    out = []
    for n in own_nodes(func.node):
        if isinstance(n, ast.Assign) and len(n.targets) == 1 and isinstance(n.targets[0], ast.Name) and pred(n.value):
            if n.targets[0].id not in out:
                out.append(n.targets[0].id)
        elif isinstance(n, ast.With):
            for it in n.items:
                if isinstance(it.optional_vars, ast.Name) and pred(it.context_expr) and it.optional_vars.id not in out:
                    out.append(it.optional_vars.id)
    return out


def returned_names(func):
    return [n.value.id for n in own_nodes(func.node) if isinstance(n, ast.Return) and isinstance(n.value, ast.Name)]


def single_def(func, name):
    ds = [v for st, v in local_defs(func, name) if isinstance(v, ast.AST) and isinstance(st, (ast.Assign, ast.AnnAssign))]
    return ds[0] if len(ds) == 1 else None


def resolve_local(func, expr, depth=0):
    """Replace a Name that is a single-definition local by its definition (recursively)."""
    if depth > 4:
        return expr
    if isinstance(expr, ast.Name) and expr.id not in func.params + func.kwonly:
        d = single_def(func, expr.id)
        if d is not None:
            return resolve_local(func, d, depth + 1)
    return expr


def is_call_args_attr(func, expr, attr='extra_args'):
    """expr is <call_args>.<attr> where <call_args> is (a local alias of) ...meta.call_args."""
    if not (isinstance(expr, ast.Attribute) and expr.attr == attr):
        return False
    base = resolve_local(func, expr.value)
    return norm(base).endswith('call_args')


def ntext(func, expr):
    """norm() of expr with a top-level single-definition local replaced by its definition."""
    return norm(resolve_local(func, expr)) if expr is not None else None


def self_alias_text(func, expr):
    """norm(expr) with every local name N replaced by `self.<a>` when the function stores `self.<a> = N` before this use
    and neither N nor self.<a> is assigned again afterwards (the local and the attribute then hold the same object):
    `self._config = config ... config.max_x` reads as `self._config.max_x`."""
    import copy
    amap = {}
    for n in own_nodes(func.node):
        if isinstance(n, ast.Assign) and len(n.targets) == 1 and isinstance(n.targets[0], ast.Attribute) and isinstance(n.targets[0].value, ast.Name) \
                and n.targets[0].value.id == 'self' and isinstance(n.value, ast.Name):
            amap.setdefault(n.value.id, []).append(n)
    if not amap or expr is None:
        return norm(expr) if expr is not None else None
    pos = getattr(expr, '_pos', None)

    class T(ast.NodeTransformer):
        def visit_Name(self, node):
            for st in amap.get(node.id, []):
                if pos is None or st._pos >= pos:
                    continue
                attr = st.targets[0].attr
                later = [x for x in own_nodes(func.node) if getattr(x, '_pos', -1) > st._pos and x is not st.targets[0] and (
                    (isinstance(x, ast.Name) and x.id == node.id and not isinstance(x.ctx, ast.Load)) or
                    (isinstance(x, ast.Attribute) and x.attr == attr and not isinstance(x.ctx, ast.Load)))]
                if not later:
                    return ast.Attribute(value=ast.Name(id='self', ctx=ast.Load()), attr=attr, ctx=ast.Load())
            return node
    return norm(T().visit(copy.deepcopy(expr)))


def alias_inline(func, expr):
    """A copy of expr with every local that is defined exactly once as a plain attribute chain (an alias such as
    `total_size = transfer_future.meta.size`) replaced by that chain; locals holding calls or arithmetic stay."""
    import copy

    class T(ast.NodeTransformer):
        def visit_Name(self, node):
            if isinstance(node.ctx, ast.Load) and node.id not in func.params + func.kwonly:
                ds = local_defs(func, node.id)
                if len(ds) == 1 and isinstance(ds[0][1], ast.Attribute) and all(isinstance(x, (ast.Attribute, ast.Name, ast.expr_context)) for x in ast.walk(ds[0][1])):
                    return copy.deepcopy(ds[0][1])
            return node
    return T().visit(copy.deepcopy(expr)) if isinstance(expr, ast.AST) else expr
